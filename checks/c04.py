"""C04 - CUSUM and Page-Hinkley apply their sequential tests to the current observations.

Explored (DESIGN §4 C04): every history over the alphabet {-2, 0, 1, 4} up to the
stated depth (prefix-shared DFS over the real detectors) for grids of
burn_in x delta x threshold x direction x (given | estimated) statistics, plus
deviation-bounded level-shift histories of length 40 (every choice of <= k
positions replaced by every other symbol) that contain 4-6 alarms each.

Oracle: lock-step agreement, after every update, with the Fraction reference
models of models/seqtests.py - CUSUM: drift_state (and the documented
"standard deviation is 0" ValueError, an expected terminal outcome);
PageHinkley: drift_state and every column of to_dataframe().

Round-3 family extensions (EXTENDING.md): additional tasks, labelled
"<system>|<family>|...", each family with counters ``fam_<family>_steps`` /
``fam_<family>_alarms``:
  val     value alphabets far from {-2,0,1,4}: negative, fractional non-dyadic, mixed signs,
          levels 1e6 / +-3e7 with small spread, scale 1e-6 (CUSUM estimated and given
          statistics; Page-Hinkley both directions, including negative running means, where
          the documented test alarms at every eligible sample);
  par     legal-but-unusual parameters: threshold 0 and fractional, delta 0 / non-dyadic /
          large, burn_in larger than the history, non-dyadic given target / sd;
  feed    the observation as scalar / list / 1-D / 2-D array / Series / one-cell DataFrame,
          float32-, int64-, int32-, uint8-typed, mixed int/float;
  long    default parameters, L = 160, k <= 1 (the default burn-in of 30 is passed, several epochs).
  scale   the measurement unit of the stream, for both detectors (CUSUM tests standardised observations, so its
          decisions do not depend on the unit; Page-Hinkley is homogeneous in (x, delta)):
          val-nano   scale 1e-9, non-dyadic, mixed-sign and all-negative; estimated, re-estimated and given statistics;
          val-p2m30  scale 2^-30 ~ 9.3e-10: float arithmetic is exact, ties are enforced at that scale;
          val-big8   scale 1e8 non-dyadic;   val-p2p27  scale 2^27 ~ 1.3e8 in exact arithmetic;
          val-lvl8   level 1e8 with unit spread (non-dyadic);
          long-scale the L = 160 default-parameter histories measured in units of 1e-9 and 1e8 (Page-Hinkley's delta,
                     an amplitude in the unit of the data, scaled along), k <= 1.
Their tolerances scale with the conditioning of the data (``_tol``).

Round-4 families - the caller re-uses its containers (``REUSE`` / ``_Rig``): the harness keeps ONE container per role,
refills it in place and passes the same object (or a one-row view / slice of it) for every call of a history; the
oracle is unchanged (the model sees the numbers, never the objects).  Snapshots of such a state are rebuilt by
replaying the logged calls on a fresh detector and fresh containers, so every explored state is the state a
from-scratch execution reaches (a deepcopy would cut view aliasing).
  reuse-cell   one (1,1) / (1,) float64 ndarray;   reuse-ring  2-row rings (shorter than the burn-in), 3-row chunk
  buffers cleared when they wrap, 2-D and 1-D, rows passed as views;   reuse-pd  one-element Series / one-cell
  DataFrame refilled with .iloc, and 2-3-row Series / DataFrame rings whose one-row slices are passed;
  reuse-typed  float32 / int64 buffers;   reuse-mix  ndarray, Series, DataFrame and list containers in turn, each
  coming round again after 2-3 calls;   reuse-scrub  the caller overwrites all its containers with NaN right after
  update() returns, before it reads drift_state / to_dataframe();   reuse-dev  the twelve L = 40 level-shift
  configurations (4-6 alarms; given statistics get re-estimated) with <= 1 replaced position, one feed each;
  long-reuse   default parameters (burn-in 30), L = 160, a cell, a 7-row ring and a 50-row chunk buffer.
"""
import itertools
import math
import re

from fractions import Fraction

import numpy as np
import pandas as pd

from menelaus.change_detection import CUSUM, PageHinkley

from mc.explorer import System, Violation
from mc.numeric import close, diff_keys, lockstep
from models.seqtests import PH_COLUMNS, CusumModel, PageHinkleyModel

PROPERTY = "C04"
ALPHABET = [-2, 0, 1, 4]


# ------------------------------------------------------------------------------------------
# round-3 families: value alphabets, containers / dtypes, tolerances
# ------------------------------------------------------------------------------------------
# Four symbols each, playing the roles (low, base, base + ~1, high) of {-2, 0, 1, 4}.  Events are the
# numbers themselves; the model gets exactly the number the detector sees.
ALPHABETS = {
    "base": ALPHABET,
    "neg": [-7.3, -5.1, -4.2, -1.1],  # negative, non-dyadic (Page-Hinkley: negative running mean all the way)
    "frac": [0.3, 2.1, 3.2, 6.4],  # fractional, non-dyadic
    "mix": [-2.6, -0.4, 0.3, 3.7],  # mixed signs: sums may nearly cancel (4 * 0.3 - 3 * 0.4)
    "lvl6": [999997.9, 1000000.1, 1000000.9, 1000004.3],  # level 1e6, non-dyadic
    "lvl7": [29999998.0, 30000000.0, 30000001.0, 30000004.0],  # level 3e7, integral
    "nlvl7": [-30000002.3, -30000000.1, -29999999.2, -29999995.9],  # level -3e7, non-dyadic
    "tiny": [-2e-06, 5e-07, 1e-06, 4e-06],  # scale 1e-6
    "dy32": [-2.25, 0.5, 1.0, 4.75],  # dyadic, exactly representable in float32
    "imix": [-2, 0, 1.5, 4],  # integral values arrive int-typed, the fractional one as a float
    "u8": [98, 100, 101, 104],  # representable in uint8
    # ---- scale families: the same four roles at very small / very large measurement units ----
    "nano": [-2e-09, 5e-10, 1e-09, 4e-09],  # scale 1e-9 (a sensor reporting in nano-units), non-dyadic
    "nneg": [-7.3e-09, -5.1e-09, -4.2e-09, -1.1e-09],  # scale 1e-9, negative all the way
    "p2m30": [-2 * 2.0 ** -30, 0.0, 2.0 ** -30, 4 * 2.0 ** -30],  # scale 2^-30 ~ 9.3e-10: float arithmetic stays exact
    "big8": [-230000000.7, 17000000.3, 110000000.9, 430000000.1],  # scale 1e8, non-dyadic
    "p2p27": [-2 * 2 ** 27, 0, 2 ** 27, 4 * 2 ** 27],  # scale 2^27 ~ 1.3e8, integral (fits int32): exact arithmetic
    "lvl8": [99999997.9, 100000000.1, 100000000.9, 100000004.3],  # level 1e8, spread ~1, non-dyadic
}
# long default histories in other measurement units (events are the scaled numbers)
SCALES = {"1e-9": 1e-09, "1e8": 1e08}
for _k, _u in SCALES.items():
    ALPHABETS["base@" + _k] = [v * _u for v in ALPHABET]
# power-of-two scale families: log2 of the unit (the Fraction model then knows the dyadic grid of the windows)
UNIT_LOG2 = {"p2m30": -30, "p2p27": 27}
EPS64 = 2.0 ** -52
EPS32 = 2.0 ** -23
FEEDS = {
    "cont": ["l1", "df", "a1", "l2", "a2", "np64", "ser", "f"],  # the same float64 number in every accepted container
    "df": ["df"],  # one-cell DataFrame (labelled column, non-default row label) from the first call on
    "f32": ["f32", "a1f32", "a2f32", "dff32"],  # float32-typed all the way
    "int": ["i", "i64", "a1i64", "a2i32", "dfi", "l1i"],  # integer-typed: python int, int64, int32
    "auto": ["auto"],  # int-typed when the value is integral, float otherwise
    "u8": ["a1u8", "u8", "a2u8"],  # uint8-typed
}
_DTYPES = {"f32": np.float32, "i64": np.int64, "i32": np.int32, "u8": np.uint8}


def _wrap(kind, v):
    """(object handed to update(), exact number it stands for)."""
    if kind == "auto":
        kind = "i" if float(v).is_integer() else "f"
    if kind == "f":
        return float(v), float(v)
    if kind == "np64":
        return np.float64(v), float(v)
    if kind == "l1":
        return [float(v)], float(v)
    if kind == "l2":
        return [[float(v)]], float(v)
    if kind == "a1":
        return np.array([float(v)]), float(v)
    if kind == "a2":
        return np.array([[float(v)]]), float(v)
    if kind == "ser":
        return pd.Series([float(v)]), float(v)
    if kind == "df":
        return pd.DataFrame({"x": [float(v)]}, index=[7]), float(v)
    if kind == "i":
        return int(v), int(v)
    if kind == "l1i":
        return [int(v)], int(v)
    if kind == "dfi":
        return pd.DataFrame({"x": [int(v)]}), int(v)
    shape, dt = None, kind
    for pre, sh in (("a1", 1), ("a2", 2), ("df", "df")):
        if kind.startswith(pre):
            shape, dt = sh, kind[2:]
    t = _DTYPES[dt]
    x = t(v)
    seen = float(x) if dt == "f32" else int(x)
    if dt != "f32" and seen != v:
        raise ValueError("value %r does not fit dtype %s" % (v, dt))
    if shape == 1:
        return np.array([x], dtype=t), seen
    if shape == 2:
        return np.array([[x]], dtype=t), seen
    if shape == "df":
        return pd.DataFrame({"x": np.array([x], dtype=t)}), seen
    return x, seen


# ------------------------------------------------------------------------------------------
# round-4 families: the caller re-uses its containers
# ------------------------------------------------------------------------------------------
# The caller keeps ONE container per role and shape, refills it in place for every observation and passes the same
# object (or a view of one of its rows) again.  A detector that keeps a live reference to what it was handed (a dropped
# copy in the shared validation, ``astype(copy=False)``, ``to_numpy(copy=False)``, the validated row appended to a
# history list ...) then evaluates its tests on whatever the caller's memory holds NOW.  The oracle is the unchanged
# one: the model sees the numbers, never the objects.
#   feed name -> (roles cycled with the position, scrub)
#   roles: c2 / c1        one (1,1) / (1,) ndarray, passed whole
#          ring2/R        an (R,1) ndarray used as a ring; the row written last is passed as the view buf[i:i+1]
#          ring1/R        an (R,) ndarray used as a ring; the element written last is passed as the view buf[i:i+1]
#          ring2/Rw       the same, and every time the ring wraps the caller first clears the whole buffer (NaN) - a chunk
#                         loader that reads the next chunk into the same memory
#          ser / df       a one-element Series / one-cell DataFrame (labelled column, row label 7), ``.iloc`` refill
#          serring/R      an R-element Series / R-row one-column DataFrame (row labels 7 ...) used as a ring: the caller
#          dfring/R       writes one cell with ``.iloc`` and passes the one-row slice ``buf.iloc[i:i+1]``
#          l1             a one-element python list, refilled in place
#          ...f32 / i64   the ndarray roles with a float32 / int64 buffer
#   scrub "nan": right after update() returns - before the caller reads drift_state / to_dataframe() - the caller
#          overwrites every container it owns with NaN (it uses its scratch memory for something else in between)
REUSE = {
    "r-c2": (["c2"], None),
    "r-c1": (["c1"], None),
    "r-ring2/2": (["ring2/2"], None),
    "r-ring2/3": (["ring2/3"], None),
    "r-ring1/2": (["ring1/2"], None),
    "r-ring1/3": (["ring1/3"], None),
    "r-ring2/7": (["ring2/7"], None),
    "r-chunk50": (["ring2/50w"], None),
    "r-chunk3": (["ring2/3w"], None),
    "r-chunk3-1d": (["ring1/3w"], None),
    "r-ser": (["ser"], None),
    "r-df": (["df"], None),
    "r-serring/3": (["serring/3"], None),
    "r-serring/2": (["serring/2"], None),
    "r-dfring/2": (["dfring/2"], None),
    "r-dfring/3": (["dfring/3"], None),
    "r-c2f32": (["c2f32"], None),
    "r-c1f32": (["c1f32"], None),
    "r-c2i64": (["c2i64"], None),
    "r-ring1/2i64": (["ring1/2i64"], None),
    # every role keeps its own container; each container comes round again after 2-3 calls (the other shapes in between)
    "r-mix": (["c2", "c1", "c2", "ser", "c1", "df", "ser", "l1", "df", "ring1/2", "l1", "ring1/2", "ring1/2"], None),
    "r-c2+nan": (["c2"], "nan"),
    "r-c1+nan": (["c1"], "nan"),
    "r-ring2/3+nan": (["ring2/3"], "nan"),
    "r-ser+nan": (["ser"], "nan"),
}
REUSE_ROLES = sorted({r for roles, _ in REUSE.values() for r in roles})
F32_FEEDS = ("f32", "r-c2f32", "r-c1f32")
_ROLE = re.compile(r"(c2|c1|ring2|ring1|serring|dfring|ser|df|l1)(?:/(\d+)(w)?)?(f32|i64)?")


def _addr(obj):
    """address of the memory a container keeps its numbers in (None for a list)"""
    if isinstance(obj, np.ndarray):
        return obj.__array_interface__["data"][0]
    if isinstance(obj, (pd.Series, pd.DataFrame)):
        return obj.to_numpy(copy=False).__array_interface__["data"][0]
    return None


class _Rig:
    """The detector together with the containers its caller re-uses and the log of the calls made so far.

    A deepcopy snapshot would cut exactly the aliasing these families are about (a numpy view becomes an owner when
    copied), so a snapshot of a rig is *rebuilt*: a fresh detector and fresh containers are taken through the logged
    calls again (refill, update(), scrub - nothing else).  Every explored state is therefore the state a from-scratch
    execution of its history reaches, snapshots or not.
    """

    def __init__(self, cls, params, feed):
        self.cls = cls
        self.params = params
        self.feed = feed
        self.det = cls(**params)
        self.bufs = {}
        self.used = {}
        self.log = []
        self.inplace = None  # facts about the last refill (read by the check for its counters)

    def __deepcopy__(self, memo):
        new = _Rig(self.cls, self.params, self.feed)
        for pos, v in self.log:
            new._do(pos, v)
        new.log = list(self.log)
        return new

    def role(self, pos):
        roles = REUSE[self.feed][0]
        return roles[pos % len(roles)]

    def _fill(self, role, v):
        """refill the container of ``role`` in place -> (object handed to update(), exact number it stands for)"""
        shape, r, wipe, dt = _ROLE.fullmatch(role).groups()
        r = int(r) if r else 1
        dt = {None: np.float64, "f32": np.float32, "i64": np.int64}[dt]
        if dt is np.int64:
            if int(v) != v:
                raise ValueError("value %r does not fit an integer buffer" % (v,))
            seen = int(v)
        else:
            seen = float(dt(v))
        k = self.used.get(role, 0)
        self.used[role] = k + 1
        buf = self.bufs.get(role)
        fresh = buf is None
        if shape == "l1":
            if fresh:
                buf = self.bufs[role] = [0.0]
            buf[0] = float(v)
            self.inplace = True
            return buf, seen
        if shape in ("ser", "df", "serring", "dfring"):
            if fresh:
                if shape.startswith("ser"):
                    buf = pd.Series([0.0] * r)
                else:
                    buf = pd.DataFrame({"x": [0.0] * r}, index=list(range(7, 7 + r)))
                self.bufs[role] = buf
            slot = k % r
            before = _addr(buf)
            if shape.startswith("ser"):
                buf.iloc[slot] = float(v)
            else:
                buf.iloc[slot, 0] = float(v)
            # pandas (copy-on-write) re-allocates the block if anybody still holds a reference to it - e.g. a detector
            # that kept the very Series / DataFrame slice it was handed: then nothing is shared and nothing can go wrong
            self.inplace = _addr(buf) == before
            if shape in ("ser", "df"):
                return buf, seen
            return buf.iloc[slot:slot + 1], seen  # a one-row slice of the caller's chunk (shares its memory)
        if fresh:
            full = {"c2": (1, 1), "c1": (1,), "ring2": (r, 1), "ring1": (r,)}[shape]
            buf = self.bufs[role] = np.zeros(full, dtype=dt)
        self.inplace = True
        if shape in ("c2", "c1"):
            buf[...] = v
            return buf, seen
        slot = k % r
        if wipe and slot == 0 and k:
            buf[...] = np.nan  # the next chunk is read into the same memory
        buf[slot] = v
        return buf[slot:slot + 1], seen

    def _do(self, pos, v):
        x_in, x = self._fill(self.role(pos), v)
        exc = None
        try:
            self.det.update(x_in)
        except Exception as e:  # judged by the caller of call(); a rebuilt rig goes through the same exception
            exc = e
        if REUSE[self.feed][1] == "nan":
            for b in self.bufs.values():
                if isinstance(b, list):
                    b[0] = float("nan")
                elif isinstance(b, pd.Series):
                    for i in range(len(b)):
                        b.iloc[i] = np.nan
                elif isinstance(b, pd.DataFrame):
                    for i in range(len(b)):
                        b.iloc[i, 0] = np.nan  # cell by cell: ``iloc[:, 0] = ...`` would swap the column's array
                else:
                    b[...] = np.nan
        return x, exc

    def call(self, pos, v):
        self.log.append((pos, v))
        return self._do(pos, v)


def _reuse_counters(ctx, rig, pos):
    role = rig.role(pos)
    ctx.count("reuse_calls")
    ctx.count("reuse_refilled_in_place:%s" % role if rig.inplace else "reuse_container_reallocated:%s" % role)


def _fed_as(feed):
    return (" [observations fed as %s]" % (REUSE[feed] if feed in REUSE else FEEDS[feed][:6],)) if feed else ""


def _tol(alpha, L, feed=None):
    """Tolerances of a family whose data are ALPHABETS[alpha] (S = max|x|), histories of <= L observations.

    A correct floating-point implementation carries, on every quantity that is a sum / running mean of <= L
    observations or deviations, an absolute error of at most L * eps * S (eps = 2^-52; 2^-23 when the stream is
    float32-typed, because numpy then computes in float32).  ``floor_x`` = 64 * L * eps * S leaves a factor 64 over
    that bound (measured errors are far below the bound itself):
      * a decision whose two sides are closer than floor_x (CUSUM: floor_x / sd in standardised units;
        Page-Hinkley: floor_x * max(1, |lambda|)) is numerically undecidable whatever its relative margin
        (models/seqtests.py::gt_floor) - needed because with threshold 0, tiny scales or cancelling means both
        sides are ~0 and a relative margin says nothing;
      * Page-Hinkley columns: U, U-min / max-U, max, min within floor_x; running mean within floor_x / 16
        (4 L eps S), theta within |lambda| * floor_x / 16; change_scores must be exactly the number fed.
    Relative tie margin: the framework's 1e-9, except float32-typed streams (4 * L * eps32: every operation is
    rounded to 24 bits).  Configurations in exact (dyadic) arithmetic ignore all of this: ties are enforced.
    """
    S = max(abs(float(v)) for v in ALPHABETS[alpha])
    eps = EPS32 if feed in F32_FEEDS else EPS64
    return {"floor_x": 64 * L * eps * S, "tie": 4 * L * EPS32 if feed in F32_FEEDS else 1e-9}


def _near(a, b, tol):
    a = float(a)
    b = float(b)
    if math.isnan(a) or math.isnan(b):
        return math.isnan(a) and math.isnan(b)
    if math.isinf(a) or math.isinf(b):
        return a == b
    return abs(a - b) <= tol


def _row_bad(exp_row, obs_row, tol, lam):
    """Columns (indices into PH_COLUMNS) on which the observed to_dataframe() row is off."""
    f = tol["floor_x"]
    limits = (0.0, f, f, abs(lam) * f / 16, None, f, f, f / 16)
    bad = []
    for j, lim in enumerate(limits):
        e, o = exp_row[j], obs_row[j]
        if lim is None:
            if not (isinstance(o, (bool, np.bool_)) and bool(o) == bool(e)):
                bad.append(j)
        elif isinstance(o, (bool, np.bool_)) or not isinstance(o, (int, float, np.integer, np.floating)):
            bad.append(j)
        elif not _near(e, o, lim + (1e-12 * abs(e) if j in (1, 2, 5, 6) else 0.0)):
            bad.append(j)
    return bad


def _desc(cfg):
    return ", ".join("%s=%r" % kv for kv in sorted(cfg["params"].items()))


def _common_counters(ctx, prefix, model, last):
    """Anti-vacuity bookkeeping shared by both systems (model-side facts)."""
    if last.get("alarm"):
        if model.alarms == 3:
            ctx.count("histories_reaching_3_alarms")
            ctx.count(prefix + "_histories_reaching_3_alarms")
        if model.alarms == 4:
            ctx.count("histories_reaching_4_alarms")
        if model.epoch == 2:
            ctx.count("alarm_in_epoch2")
            ctx.count(prefix + "_alarm_in_epoch2")
        elif model.epoch >= 3:
            ctx.count("alarm_in_epoch3plus")
            ctx.count(prefix + "_alarm_in_epoch3plus")
        if last.get("first_eligible"):
            ctx.count("burnin_boundary_alarm_at_first_eligible_sample")
    if last.get("suppressed"):
        ctx.mark("burnin_boundary_test_fired_but_suppressed")
    if last.get("first_eligible_quiet"):
        ctx.count("burnin_boundary_first_eligible_sample_quiet")
    if last.get("tie"):
        ctx.mark("exact_ties_enforced")
        ctx.count(prefix + "_exact_ties_enforced")
    if last.get("exact"):
        ctx.count("decisions_in_exact_arithmetic")


class CusumSystem(System):
    name = "CUSUM"

    def init(self, cfg):
        p = cfg["params"]
        model = CusumModel(**p)
        if cfg.get("tol"):
            model.floor_x = cfg["tol"]["floor_x"]
        if cfg.get("fam"):
            model.bits = 24 if cfg.get("feed") in F32_FEEDS else 53
        if cfg.get("unit_log2"):
            model.unit = Fraction(2) ** cfg["unit_log2"]
        if cfg.get("feed") in REUSE:
            # the detector lives inside the rig (detector + the caller's containers are snapshotted together)
            return {"rig": _Rig(CUSUM, p, cfg["feed"]), "model": model}
        return {"det": CUSUM(**p), "model": model}

    def alphabet(self, cfg, state, pos):
        return ALPHABETS[cfg.get("alphabet", "base")]

    def step(self, cfg, state, ev, pos, ctx):
        rig = state.get("rig")
        det = rig.det if rig else state["det"]
        err = None
        feed = cfg.get("feed")
        tol = cfg.get("tol")
        fam = cfg.get("fam")
        # "offset" families feed level + symbol: the same tests far away from 0, where a numerically careless
        # re-estimation (one-pass variance, say) loses all its digits; decisions within 1e-6 of the threshold are
        # undecidable there (the float mean / standard deviation of 3e7-sized data carry ~1e-8 relative error)
        if rig:
            x_in = None
        elif feed:
            kinds = FEEDS[feed]
            x_in, x = _wrap(kinds[pos % len(kinds)], ev)
        else:
            x_in = x = float(ev) + float(cfg.get("offset", 0.0))
        if cfg.get("offset"):
            ctx.count("offset_level_steps")
        try:
            if rig:
                # the caller refills its container in place, passes it, (scrubs it) - then reads drift_state
                x, exc = rig.call(pos, ev)
                _reuse_counters(ctx, rig, pos)
                if exc is not None:
                    raise exc
            else:
                det.update(x_in)
        except ValueError as e:
            msg = " ".join(str(e).split())
            err = "ValueError" if msg.startswith("Standard deviation is 0") else "ValueError: " + msg[:120]
        except Exception as e:  # anything else is not allowed by the property
            err = "%s: %s" % (type(e).__name__, " ".join(str(e).split())[:120])
        obs = {
            "state": det.drift_state,
            "error": err,
            "total": int(det.total_samples),
            "since": int(det.samples_since_reset),
        }

        def agree(e):
            if tol and e["error"] == "ValueError" and obs["error"] is None:
                # the specification's standard deviation is exactly 0 (constant window of non-dyadic numbers) but
                # the float estimate is rounding noise (mean of three 0.1s is not 0.1): raising and not raising are
                # both within float error; nothing after this point can be predicted (z = noise / noise)
                return True
            return not diff_keys(e, obs)

        kw = {}
        if cfg.get("offset"):
            kw["tie"] = 1e-6
        elif tol:
            kw["tie"] = tol["tie"]
        model, exp, ok = lockstep(state["model"], lambda m, D: m.step(x, D), agree, stats=ctx.stats, **kw)
        state["model"] = model
        if not ok:
            later = model.epoch >= 2
            sig = "CUSUM-spec-after-first-alarm" if later else "CUSUM-spec-first-epoch"
            if fam == "feed-narrow":
                # x - target evaluated in the (unsigned / narrow) integer dtype of the input wraps around
                sig = "CUSUM-spec:narrow-int-dtype"
            raise Violation(
                "CUSUM-spec",
                "CUSUM(%s) disagrees with the cumulative-sum test on the current observation on %s "
                "at sample %d (epoch %d, %d-th sample of the epoch; model: target=%s sd=%s s_h=%s s_l=%s)%s"
                % (
                    _desc(cfg),
                    diff_keys(exp, obs),
                    pos + 1,
                    model.epoch,
                    model.n,
                    None if model.target is None else float(model.target),
                    None if model.sd is None else float(model.sd),
                    float(model.hi),
                    float(model.lo),
                    _fed_as(feed),
                ),
                expected=exp,
                observed=obs,
                sig=sig,
            )
        if fam:
            ctx.count("fam_cusum_%s_steps" % fam)
            if exp["state"] == "drift":
                ctx.count("fam_cusum_%s_alarms" % fam)
        if tol and exp["error"] == "ValueError" and obs["error"] is None:
            ctx.count("sd0_within_rounding_noise_branch_closed")
            ctx.terminal = True
            return obs
        last = model.last
        d = cfg["params"].get("direction")
        if last.get("alarm"):
            if d is None:
                if last["up"]:
                    ctx.mark("cusum_alarm_twosided_upper")
                if last["dn"]:
                    ctx.mark("cusum_alarm_twosided_lower")
            else:
                ctx.mark("cusum_alarm_" + d)
            if cfg["params"].get("target") is None:
                ctx.count("cusum_alarm_estimated_stats" if model.epoch == 1 else "cusum_alarm_reestimated_stats")
            elif model.epoch >= 2:
                ctx.count("cusum_alarm_reestimated_stats")
        _common_counters(ctx, "cusum", model, last)
        if last.get("sd0"):
            ctx.mark("sd0_terminals")
            ctx.terminal = True
        elif exp["error"] is not None:
            ctx.terminal = True
        elif last.get("alarm") and model.burn_in == 0:
            # "re-estimated from the last burn_in observations" is undefined for
            # burn_in = 0: the history is checked up to and including its first alarm
            ctx.count("burnin0_first_alarm_closes_branch")
            ctx.terminal = True
        return obs


def _cell(v):
    return v.item() if isinstance(v, (np.ndarray, np.generic)) else v


class _Frozen:
    """Immutable holder (already verified frame rows): deepcopy shares it."""

    __slots__ = ("v",)

    def __init__(self, v):
        self.v = v

    def __deepcopy__(self, memo):
        return self


class PageHinkleySystem(System):
    """After every update the whole to_dataframe() is fetched.  Its last row is
    compared with the model's prediction for this observation; all earlier rows
    must be *identical* to the frame fetched (and verified row by row) after the
    previous update of the same epoch; the number of rows must be the number of
    observations of the epoch.  Together: frame == predicted frame, every step."""

    name = "PageHinkley"

    def init(self, cfg):
        p = cfg["params"]
        model = PageHinkleyModel(**p)
        if cfg.get("tol"):
            model.floor_x = cfg["tol"]["floor_x"]
        if cfg.get("fam"):
            model.bits = 24 if cfg.get("feed") in F32_FEEDS else 53
        if cfg.get("feed") in REUSE:
            return {"rig": _Rig(PageHinkley, p, cfg["feed"]), "model": model, "seen": _Frozen([])}
        return {"det": PageHinkley(**p), "model": model, "seen": _Frozen([])}

    def alphabet(self, cfg, state, pos):
        return ALPHABETS[cfg.get("alphabet", "base")]

    def step(self, cfg, state, ev, pos, ctx):
        rig = state.get("rig")
        det = rig.det if rig else state["det"]
        err = None
        frame = None
        feed = cfg.get("feed")
        tol = cfg.get("tol")
        fam = cfg.get("fam")
        if rig:
            x_in = None
        elif feed:
            kinds = FEEDS[feed]
            x_in, x = _wrap(kinds[pos % len(kinds)], ev)
        elif fam:
            x_in = x = float(ev)
        else:
            x_in, x = float(ev), ev
        try:
            if rig:
                # the caller refills its container in place, passes it, (scrubs it) - then reads the frame
                x, exc = rig.call(pos, ev)
                _reuse_counters(ctx, rig, pos)
                if exc is not None:
                    raise exc
            else:
                det.update(x_in)
            df = det.to_dataframe()
            if list(df.columns) != list(PH_COLUMNS):
                df = df[list(PH_COLUMNS)]
            frame = [[_cell(c) for c in row] for row in df.to_numpy().tolist()]
        except Exception as e:
            err = "%s: %s" % (type(e).__name__, " ".join(str(e).split())[:160])
        if err is not None:
            raise Violation(
                "PageHinkley-exception",
                "PageHinkley(%s) raised %s at sample %d" % (_desc(cfg), err, pos + 1),
                expected={"error": None},
                observed={"error": err, "state": det.drift_state},
            )
        prev = state["seen"].v
        n = len(frame)
        if n == len(prev) + 1:
            unchanged = frame[:-1] == prev
        else:
            unchanged = n == 1  # a new epoch starts with an empty frame
        obs = {
            "state": det.drift_state,
            "nrows": n,
            "row": frame[-1] if frame else None,
            "earlier_rows_unchanged": unchanged,
            "total": int(det.total_samples),
            "since": int(det.samples_since_reset),
        }
        lam = state["model"].lam

        def bad_keys(e):
            if not tol:
                return diff_keys(e, obs)
            # family tolerances: the row is compared column by column with limits that scale with the data
            bad = [k for k in ("state", "nrows", "earlier_rows_unchanged") if e[k] != obs[k]]
            if obs["row"] is None or len(obs["row"]) != len(PH_COLUMNS) or _row_bad(e["row"], obs["row"], tol, lam):
                bad.append("row")
            return bad

        model, exp, ok = lockstep(
            state["model"],
            lambda m, D: m.step(x, D),
            lambda e: not bad_keys(e),
            stats=ctx.stats,
            **({"tie": tol["tie"]} if tol else {}),
        )
        state["model"] = model
        state["seen"] = _Frozen(frame)
        if not ok:
            bad = bad_keys(exp)
            cols = []
            if "row" in bad and obs["row"] is not None:
                if tol:
                    cols = [PH_COLUMNS[j] for j in _row_bad(exp["row"], obs["row"], tol, lam)]
                else:
                    cols = [PH_COLUMNS[j] for j in range(len(PH_COLUMNS)) if not close(exp["row"][j], obs["row"][j])]
            raise Violation(
                "PageHinkley-spec",
                "PageHinkley(%s) disagrees with the documented Page-Hinkley test on %s %s at sample %d "
                "(epoch %d, %d-th sample of the epoch)%s"
                % (_desc(cfg), bad, cols, pos + 1, model.epoch, model.t,
                   _fed_as(feed)),
                expected=exp,
                observed=dict(obs, previous_frame=prev[-3:], frame_tail=frame[-4:]),
                sig="PageHinkley-spec-after-first-alarm" if model.epoch >= 2 else "PageHinkley-spec-first-epoch",
            )
        if fam:
            ctx.count("fam_ph_%s_steps" % fam)
            if exp["state"] == "drift":
                ctx.count("fam_ph_%s_alarms" % fam)
        last = model.last
        if last.get("alarm"):
            ctx.mark("ph_alarm_" + cfg["params"].get("direction", "positive"))
        if model.mean < 0 and last.get("fired"):
            ctx.count("ph_fired_with_negative_theta")
        _common_counters(ctx, "ph", model, last)
        ctx.count("ph_frame_rows_compared", n)
        return obs


SYSTEMS = {"CUSUM": CusumSystem(), "PageHinkley": PageHinkleySystem()}

# ----------------------------------------------------------------------------
# configurations
# ----------------------------------------------------------------------------
DIRS3 = [None, "positive", "negative"]
DIRS2 = ["positive", "negative"]
DELTAS = [0, 0.5]
THRESHOLDS = [1, 2, 5]
GIVEN_TS = [(0, 1), (1, 2), (1, 1), (0, 2)]  # (target, sd_hat): dyadic-closed with integer data
BURN_GIVEN = [0, 1, 3]
BURN_EST = [1, 2, 3]
BURN_PH = [0, 1, 3]


def _cid(kind, p):
    d = {None: "two", "positive": "pos", "negative": "neg"}[p.get("direction")]
    s = "%s-%s-b%d-d%s-h%s" % (kind, d, p["burn_in"], p["delta"], p["threshold"])
    if kind == "given":
        s += "-t%s-s%s" % (p["target"], p["sd_hat"])
    return s


def cusum_given_grid():
    out = []
    for (t, s), d, b, dl, h in itertools.product(GIVEN_TS, DIRS3, BURN_GIVEN, DELTAS, THRESHOLDS):
        out.append({"target": t, "sd_hat": s, "burn_in": b, "delta": dl, "threshold": h, "direction": d})
    return out


def cusum_est_grid():
    out = []
    for d, b, dl, h in itertools.product(DIRS3, BURN_EST, DELTAS, THRESHOLDS):
        out.append({"burn_in": b, "delta": dl, "threshold": h, "direction": d})
    return out


def ph_grid():
    out = []
    for d, b, dl, h in itertools.product(DIRS2, BURN_PH, DELTAS, THRESHOLDS):
        out.append({"burn_in": b, "delta": dl, "threshold": h, "direction": d})
    return out


def _cover(grid, keys, seed):
    """Covering subset: one configuration for every combination of ``keys``;
    the remaining parameters rotate with the combination index and VERIF_SEED."""
    groups = {}
    for p in grid:
        groups.setdefault(tuple(repr(p.get(k)) for k in keys), []).append(p)
    out = []
    for i, (_, ps) in enumerate(sorted(groups.items())):
        out.append(ps[(i + seed) % len(ps)])
    return out


# Exhaustive enumeration plan per family and tier: a list of levels
# (covering keys or None for the whole grid, depth).  A configuration is explored
# at the largest depth of the levels that contain it (the deeper tree contains
# the shallower one).
PLAN = {
    "quick": {
        "CUSUM-given": [(None, 6), (("direction", "burn_in", "threshold"), 8)],
        "CUSUM-est": [(None, 7), (("direction", "burn_in", "threshold"), 8)],
        "PageHinkley": [(None, 6), (("direction", "burn_in"), 7), (("direction",), 8)],
    },
    "thorough": {
        "CUSUM-given": [(None, 8), (("direction", "burn_in", "threshold"), 9), (("direction", "burn_in"), 10)],
        "CUSUM-est": [(None, 8), (("direction", "burn_in"), 10)],
        "PageHinkley": [(None, 7), (("direction", "burn_in"), 8), (("direction",), 9), ((), 10)],
    },
}
FAMILIES = {
    "CUSUM-given": ("CUSUM", "given", cusum_given_grid, CusumModel),
    "CUSUM-est": ("CUSUM", "est", cusum_est_grid, CusumModel),
    "PageHinkley": ("PageHinkley", "ph", ph_grid, PageHinkleyModel),
}
# largest subtree (depth below the task prefix) handed to one worker task
SUBTREE = {"CUSUM": 7, "PageHinkley": 6}
UNIT = {"CUSUM": 1, "PageHinkley": 6}  # relative cost of one transition

# level-shift default histories (L = 40): alternating low / high / negative levels
# of 5-8 samples with in-level variation, so that re-estimated standard
# deviations are non-zero and every history contains 4-6 alarms
DEV_DEFAULTS = {
    "shifts-A": [0, 1, 0, 1, 0, 1, 0, 1, 4, 4, 1, 4, 4, 1, 4, 4, 0, -2, 0, -2, 0, -2, 0, -2,
                 4, 1, 4, 1, 4, 1, 4, 1, 0, 1, 0, -2, 0, 1, 0, -2],
    "shifts-B": [1, 0, 1, 1, 0, -2, -2, 0, -2, -2, 0, 4, 1, 4, 4, 1, 4, 0, 1, 0, 0, 1, 0, 4,
                 4, 1, 4, 4, 1, -2, 0, -2, -2, 0, -2, 1, 4, 1, 4, 4],
    "shifts-C": [0, 1, 0, 0, 1, 0, 4, 4, 1, 4, 4, 1, 4, -2, 0, -2, -2, 0, -2, 0,
                 4, 1, 4, 4, 1, 4, 4, 0, 1, 0, -2, 0, 1, 0, 4, 4, 1, 4, 1, 4],
    "shifts-D": [1, 0, 1, 1, 0, 4, 4, 1, 4, 1, 0, 1, 0, 0, -2, 4, 1, 4, 4, 1,
                 -2, 0, -2, 0, -2, 4, 4, 1, 4, 4, 0, 0, 1, 0, -2, 4, 1, 4, 4, 1],
}
# (system, default, params, k in quick, k in thorough); alarms on the default history in brackets
DEV_CFGS = [
    ("CUSUM", "shifts-C", {"target": 0, "sd_hat": 1, "burn_in": 3, "delta": 0.5, "threshold": 2, "direction": None}, 2, 3),  # [6]
    ("CUSUM", "shifts-D", {"target": 1, "sd_hat": 2, "burn_in": 3, "delta": 0.5, "threshold": 2, "direction": None}, 2, 2),  # [6]
    ("CUSUM", "shifts-D", {"target": 1, "sd_hat": 1, "burn_in": 3, "delta": 0, "threshold": 1, "direction": "positive"}, 2, 2),  # [6]
    ("CUSUM", "shifts-D", {"target": 1, "sd_hat": 1, "burn_in": 3, "delta": 0, "threshold": 1, "direction": "negative"}, 2, 2),  # [5]
    ("CUSUM", "shifts-C", {"burn_in": 2, "delta": 0.5, "threshold": 2, "direction": None}, 2, 3),  # [6]
    ("CUSUM", "shifts-B", {"burn_in": 3, "delta": 0, "threshold": 5, "direction": None}, 2, 2),  # [6]
    ("CUSUM", "shifts-D", {"burn_in": 3, "delta": 0, "threshold": 1, "direction": "positive"}, 2, 2),  # [5]
    ("CUSUM", "shifts-D", {"burn_in": 3, "delta": 0, "threshold": 1, "direction": "negative"}, 2, 2),  # [5]
    ("PageHinkley", "shifts-C", {"burn_in": 3, "delta": 0, "threshold": 1, "direction": "positive"}, 2, 3),  # [6]
    ("PageHinkley", "shifts-D", {"burn_in": 3, "delta": 0, "threshold": 1, "direction": "negative"}, 1, 2),  # [6]
    ("PageHinkley", "shifts-B", {"burn_in": 3, "delta": 0.5, "threshold": 2, "direction": "positive"}, 1, 2),  # [5]
    ("PageHinkley", "shifts-A", {"burn_in": 1, "delta": 0.5, "threshold": 5, "direction": "negative"}, 1, 2),  # [6]
]


def _kind_of(system, p):
    if system == "PageHinkley":
        return "ph"
    return "given" if p.get("target") is not None else "est"


def _model_closes_at(model_cls, params, prefix):
    """Index of the prefix event after which the specification ends the history
    (sd = 0 ValueError; first alarm with burn_in = 0 for CUSUM), else None."""
    from mc.numeric import Decider

    m = model_cls(**params)
    for i, x in enumerate(prefix):
        exp = m.step(x, Decider())
        if exp.get("error") is not None:
            return i
        if model_cls is CusumModel and m.burn_in == 0 and exp["state"] == "drift":
            return i
    return None


def _dfs_tasks(system, kind, params, depth, model_cls):
    out = []
    cid = _cid(kind, params)
    split = max(1, depth - SUBTREE[system])
    for prefix in itertools.product(ALPHABET, repeat=split):
        dead = _model_closes_at(model_cls, params, prefix)
        if dead is not None and any(x != ALPHABET[0] for x in prefix[dead + 1:]):
            continue  # the same closed history is represented by the prefix padded with ALPHABET[0]
        out.append(
            {
                "system": system,
                "cfg": {"id": cid, "params": params},
                "prefix": list(prefix),
                "depth": depth - split,
                "label": "%s|%s|d%d|%s" % (system, cid, depth, ",".join(map(str, prefix))),
                "cost": UNIT[system] * 4 ** (depth - split),
                "validate_every": 997,
            }
        )
    return out


def _dev_tasks(idx, system, dname, params, k):
    """All histories that differ from the default in <= k positions, split by the
    position and value of the first deviation."""
    default = DEV_DEFAULTS[dname]
    L = len(default)
    cid = "dev%d-%s-%s" % (idx, dname, _cid(_kind_of(system, params), params))
    base = {"system": system, "cfg": {"id": cid, "params": params}, "mode": "dev", "default": default,
            "menu": ALPHABET, "validate_every": 199}
    out = [dict(base, k=0, label="%s|%s|L%d|k%d|none" % (system, cid, L, k), cost=UNIT[system] * L)]
    if k >= 1:
        for j in range(L):
            for alt in ALPHABET:
                if alt == default[j]:
                    continue
                rest = L - j - 1
                n_hist = sum((3 ** i) * _binom(rest, i) for i in range(k))
                out.append(
                    dict(
                        base,
                        k=k,  # total budget; the explorer subtracts the deviation used by the prefix
                        prefix=default[:j] + [alt],
                        label="%s|%s|L%d|k%d|%d:%d" % (system, cid, L, k, j, alt),
                        cost=UNIT[system] * max(1, n_hist * max(1, rest) // 3),
                    )
                )
    return out


def _binom(n, r):
    import math

    return math.comb(n, r) if 0 <= r <= n else 0


def plan_depths(tier, seed):
    """{family: {cfg id: (params, depth)}}"""
    res = {}
    for fam, levels in PLAN[tier].items():
        system, kind, gridf, model_cls = FAMILIES[fam]
        grid = gridf()
        best = {}
        for keys, depth in levels:
            sub = grid if keys is None else _cover(grid, keys, seed)
            for p in sub:
                cid = _cid(kind, p)
                if cid not in best or best[cid][1] < depth:
                    best[cid] = (p, depth)
        res[fam] = best
    return res


def tasks(tier, seed):
    out = []
    for fam, best in plan_depths(tier, seed).items():
        system, kind, gridf, model_cls = FAMILIES[fam]
        for cid, (p, depth) in sorted(best.items()):
            out.extend(_dfs_tasks(system, kind, p, depth, model_cls))
    for i, (system, dname, p, kq, kt) in enumerate(DEV_CFGS):
        out.extend(_dev_tasks(i, system, dname, p, kq if tier == "quick" else kt))
    # the same CUSUM tests at level 3e7 (estimated and re-estimated statistics only: given ones stay exact)
    for p in OFFSET_CFGS:
        for t in _dfs_tasks("CUSUM", "est", p, 8 if tier == "quick" else 9, CusumModel):
            t["cfg"] = {"id": t["cfg"]["id"] + "@3e7", "params": p, "offset": 3.0e7}
            t["label"] = t["label"].replace("CUSUM|", "CUSUM|offset3e7|", 1)
            out.append(t)
    out.extend(_extension_tasks(tier))
    return out


# ------------------------------------------------------------------------------------------
# round-3 families (additional tasks; every task above is kept as it was)
# ------------------------------------------------------------------------------------------
def _C(burn_in, delta, threshold, direction, target=None, sd_hat=None):
    p = {"burn_in": burn_in, "delta": delta, "threshold": threshold, "direction": direction}
    if target is not None:
        p["target"] = target
        p["sd_hat"] = sd_hat
    return p


def _H(direction, burn_in, delta, threshold):
    return {"direction": direction, "burn_in": burn_in, "delta": delta, "threshold": threshold}


E1 = _C(2, 0.5, 1, None)
E2 = _C(3, 0, 2, None)
E3 = _C(2, 0, 2, "positive")
E4 = _C(3, 0.5, 1, "negative")

# (system, family, params, alphabet, feed, depth quick, depth thorough)
X_DFS = [
    # ---- CUSUM, value families: estimated / re-estimated statistics ----
    ("CUSUM", "val-neg", E1, "neg", None, 7, 8), ("CUSUM", "val-neg", E4, "neg", None, 6, 7),
    ("CUSUM", "val-frac", E2, "frac", None, 7, 8), ("CUSUM", "val-frac", E3, "frac", None, 6, 7),
    ("CUSUM", "val-mix", E1, "mix", None, 7, 8), ("CUSUM", "val-mix", E2, "mix", None, 6, 7),
    ("CUSUM", "val-lvl6", E2, "lvl6", None, 7, 8), ("CUSUM", "val-lvl6", E4, "lvl6", None, 6, 7),
    ("CUSUM", "val-nlvl7", E1, "nlvl7", None, 7, 8), ("CUSUM", "val-nlvl7", E3, "nlvl7", None, 6, 7),
    ("CUSUM", "val-tiny", E2, "tiny", None, 7, 8), ("CUSUM", "val-tiny", E1, "tiny", None, 6, 7),
    # ---- CUSUM, value families: given statistics (non-dyadic target / sd; one dyadic-closed at level 3e7) ----
    ("CUSUM", "val-lvl6", _C(1, 0.3, 1.5, None, 1000000.1, 0.7), "lvl6", None, 6, 7),
    ("CUSUM", "val-nlvl7", _C(0, 0, 2.5, "negative", -30000000.1, 1.7), "nlvl7", None, 6, 7),
    ("CUSUM", "val-mix", _C(3, 0.25, 0.75, "positive", 0.3, 0.3), "mix", None, 6, 7),
    ("CUSUM", "val-tiny", _C(1, 0.1, 2, None, 1e-06, 1.5e-06), "tiny", None, 6, 7),
    ("CUSUM", "val-lvl7", _C(1, 0.5, 2, None, 30000000, 1), "lvl7", None, 6, 7),  # exact arithmetic at 3e7: ties enforced
    ("CUSUM", "val-lvl7", _C(3, 0, 1, "negative", 30000001, 2), "lvl7", None, 6, 7),
    # ---- CUSUM, unusual parameters ----
    ("CUSUM", "par-h0", _C(1, 0.5, 0, None, 0, 1), "base", None, 6, 7),  # threshold 0
    ("CUSUM", "par-h0", _C(2, 0, 0, "positive"), "base", None, 6, 7),
    ("CUSUM", "par-h0", _C(2, 0, 0, None), "frac", None, 6, 7),  # threshold 0, delta 0, non-dyadic data: sums of ~0
    ("CUSUM", "par-dBig", _C(1, 5, 1, None, 0, 0.5), "base", None, 6, 7),  # slack larger than most z
    ("CUSUM", "par-dBig", _C(2, 5, 0.5, "negative"), "base", None, 6, 7),
    ("CUSUM", "par-bBig", _C(50, 0, 1, None, 0, 1), "base", None, 6, 7),  # burn-in longer than the history
    ("CUSUM", "par-bBig", _C(50, 0.5, 1, None), "base", None, 5, 6),
    ("CUSUM", "par-nd", _C(1, 0, 5, None, 0, 0.3), "base", None, 6, 7),  # given sd / target / delta non-dyadic
    ("CUSUM", "par-nd", _C(3, 0.5, 1, "negative", 1, 1.7), "base", None, 6, 7),
    ("CUSUM", "par-nd", _C(0, 0.005, 2, "positive", 0.1, 0.7), "base", None, 6, 7),
    ("CUSUM", "par-nd", _C(2, 0.005, 5, None), "base", None, 7, 8),  # default delta and threshold
    ("CUSUM", "par-nd", _C(3, 0.3, 0.7, None), "frac", None, 6, 7),  # fractional threshold
    # ---- CUSUM, containers / dtypes ----
    ("CUSUM", "feed-cont", E1, "frac", "cont", 7, 8),
    ("CUSUM", "feed-cont", _C(3, 0.25, 0.75, "positive", 0.3, 0.3), "mix", "cont", 6, 7),
    ("CUSUM", "feed-df", E2, "mix", "df", 6, 7),
    ("CUSUM", "feed-f32", _C(1, 0.5, 2, None, 0, 1), "base", "f32", 6, 7),  # float32 arithmetic is exact here: ties enforced
    ("CUSUM", "feed-f32", E1, "dy32", "f32", 6, 7),
    ("CUSUM", "feed-f32", E2, "dy32", "f32", 6, 7),
    ("CUSUM", "feed-int", _C(3, 0.5, 1, None, 1, 2), "base", "int", 6, 7),
    ("CUSUM", "feed-int", E2, "base", "int", 6, 7),
    ("CUSUM", "feed-int", E3, "u8", "u8", 6, 7),  # uint8-typed with estimated statistics (numpy's mean/std are float64)
    ("CUSUM", "feed-auto", E1, "imix", "auto", 6, 7),
    # uint8-typed with an integer target: x - target must not be evaluated in uint8 (defect found by this family,
    # repaired in the library since: the statistics are computed in double precision)
    ("CUSUM", "feed-narrow", _C(0, 0, 3, None, 100, 1), "u8", "u8", 4, 5),
    # ---- Page-Hinkley, value families (both directions) ----
    ("PageHinkley", "val-neg", _H("positive", 1, 0, 1), "neg", None, 6, 7),
    ("PageHinkley", "val-neg", _H("negative", 3, 0.5, 2), "neg", None, 6, 7),
    ("PageHinkley", "val-frac", _H("positive", 0, 0.01, 0.5), "frac", None, 6, 7),
    ("PageHinkley", "val-frac", _H("negative", 1, 0.3, 1), "frac", None, 5, 6),
    ("PageHinkley", "val-mix", _H("positive", 1, 0, 1), "mix", None, 6, 7),
    ("PageHinkley", "val-mix", _H("negative", 0, 0.01, 2), "mix", None, 6, 7),
    ("PageHinkley", "val-lvl6", _H("positive", 1, 0, 2e-06), "lvl6", None, 6, 7),
    ("PageHinkley", "val-lvl6", _H("negative", 0, 0.3, 1e-06), "lvl6", None, 5, 6),
    ("PageHinkley", "val-lvl7", _H("positive", 1, 0, 1e-07), "lvl7", None, 5, 6),
    ("PageHinkley", "val-lvl7", _H("negative", 1, 0.5, 5e-08), "lvl7", None, 6, 7),
    ("PageHinkley", "val-nlvl7", _H("positive", 1, 0, 1e-07), "nlvl7", None, 5, 6),
    ("PageHinkley", "val-nlvl7", _H("negative", 3, 0.5, 1e-07), "nlvl7", None, 5, 6),
    ("PageHinkley", "val-tiny", _H("positive", 1, 0, 1), "tiny", None, 6, 7),
    ("PageHinkley", "val-tiny", _H("negative", 0, 1e-07, 2), "tiny", None, 5, 6),
    # ---- Page-Hinkley, unusual parameters ----
    ("PageHinkley", "par-h0", _H("positive", 1, 0, 0), "base", None, 6, 7),  # threshold 0
    ("PageHinkley", "par-h0", _H("negative", 0, 0.5, 0), "frac", None, 5, 6),
    ("PageHinkley", "par-hfrac", _H("positive", 1, 0, 0.3), "base", None, 6, 7),  # fractional, non-dyadic threshold
    ("PageHinkley", "par-hfrac", _H("negative", 2, 0.01, 0.75), "base", None, 5, 6),
    ("PageHinkley", "par-dBig", _H("negative", 1, 5, 1), "base", None, 5, 6),  # delta larger than every deviation
    ("PageHinkley", "par-dBig", _H("positive", 0, 5, 1), "base", None, 5, 6),
    ("PageHinkley", "par-bBig", _H("positive", 50, 0, 1), "base", None, 5, 6),  # burn-in longer than the history
    # ---- Page-Hinkley, containers / dtypes ----
    ("PageHinkley", "feed-cont", _H("positive", 1, 0, 1), "frac", "cont", 6, 7),
    ("PageHinkley", "feed-df", _H("negative", 1, 0.5, 1), "mix", "df", 5, 6),
    ("PageHinkley", "feed-f32", _H("positive", 1, 0, 1), "dy32", "f32", 6, 7),
    ("PageHinkley", "feed-f32", _H("negative", 0, 0.5, 2), "base", "f32", 5, 6),
    ("PageHinkley", "feed-int", _H("negative", 0, 0.5, 2), "base", "int", 5, 6),
    ("PageHinkley", "feed-int", _H("positive", 1, 0, 0.01), "u8", "u8", 5, 6),
    ("PageHinkley", "feed-auto", _H("positive", 1, 0, 1), "imix", "auto", 5, 6),
    # ================= scale families (very small / very large measurement units) =================
    # CUSUM is invariant to the unit of the stream (z = (x - target) / sd); with estimated statistics the same
    # parameters apply at every scale, given statistics are scaled with the data.
    ("CUSUM", "val-nano", E1, "nano", None, 7, 8), ("CUSUM", "val-nano", E4, "nano", None, 6, 7),
    ("CUSUM", "val-nano", E3, "nneg", None, 6, 7),
    ("CUSUM", "val-nano", _C(1, 0.25, 2, None, 1e-09, 1.5e-09), "nano", None, 6, 7),
    ("CUSUM", "val-nano", _C(0, 0.1, 2.5, "positive", -4.2e-09, 1.7e-09), "nneg", None, 6, 7),
    ("CUSUM", "val-p2m30", _C(1, 0.5, 2, None, 0, 2.0 ** -30), "p2m30", None, 7, 8),  # exact arithmetic at 2^-30: ties enforced
    ("CUSUM", "val-p2m30", _C(3, 0, 1, "negative", 2.0 ** -30, 2.0 ** -29), "p2m30", None, 6, 7),
    ("CUSUM", "val-p2m30", E2, "p2m30", None, 6, 7),
    ("CUSUM", "val-big8", E2, "big8", None, 7, 8), ("CUSUM", "val-big8", E1, "big8", None, 6, 7),
    ("CUSUM", "val-big8", _C(1, 0.3, 1.5, None, 17000000.3, 210000000.0), "big8", None, 6, 7),
    ("CUSUM", "val-p2p27", _C(1, 0.5, 2, None, 0, 2 ** 27), "p2p27", None, 7, 8),  # exact arithmetic at 2^27
    ("CUSUM", "val-p2p27", _C(3, 0, 1, "positive", 2 ** 27, 2 ** 28), "p2p27", None, 6, 7),
    ("CUSUM", "val-p2p27", E2, "p2p27", None, 6, 7),
    ("CUSUM", "val-lvl8", E2, "lvl8", None, 7, 8), ("CUSUM", "val-lvl8", E4, "lvl8", None, 6, 7),
    ("CUSUM", "val-lvl8", _C(1, 0.3, 1.5, None, 100000000.1, 0.7), "lvl8", None, 6, 7),
    # Page-Hinkley is homogeneous: scaling the stream and delta by c scales every column by c and keeps the decisions
    ("PageHinkley", "val-nano", _H("positive", 1, 0, 1), "nano", None, 6, 7),
    ("PageHinkley", "val-nano", _H("negative", 3, 1e-10, 2), "nano", None, 6, 7),
    ("PageHinkley", "val-nano", _H("positive", 0, 1e-10, 0.5), "nneg", None, 5, 6),
    ("PageHinkley", "val-nano", _H("negative", 1, 0, 0), "nano", None, 5, 6),  # threshold 0 at scale 1e-9: both sides ~1e-9
    ("PageHinkley", "val-p2m30", _H("positive", 1, 0, 1), "p2m30", None, 6, 7),  # exact arithmetic: ties enforced
    ("PageHinkley", "val-p2m30", _H("negative", 0, 2.0 ** -31, 2), "p2m30", None, 6, 7),
    ("PageHinkley", "val-big8", _H("positive", 1, 0, 1), "big8", None, 6, 7),
    ("PageHinkley", "val-big8", _H("negative", 1, 3000000.3, 0.5), "big8", None, 5, 6),
    ("PageHinkley", "val-p2p27", _H("positive", 1, 2 ** 26, 1), "p2p27", None, 6, 7),
    ("PageHinkley", "val-p2p27", _H("negative", 0, 0, 2), "p2p27", None, 6, 7),
    ("PageHinkley", "val-lvl8", _H("positive", 1, 0, 2e-08), "lvl8", None, 6, 7),
    ("PageHinkley", "val-lvl8", _H("negative", 1, 0.5, 1e-08), "lvl8", None, 5, 6),
    # ================= round 4: the caller re-uses its containers (feeds of REUSE) =================
    # CUSUM keeps the whole stream and (re-)estimates mean / sd from its last burn_in entries: estimated statistics in
    # every direction, given statistics (the re-estimation after the first alarm), burn_in 2 and 3, rings shorter than
    # / as long as the burn-in.  On the small integers the arithmetic is exact: ties stay enforced.
    ("CUSUM", "reuse-cell", E1, "base", "r-c2", 7, 8), ("CUSUM", "reuse-cell", E2, "frac", "r-c1", 6, 7),
    ("CUSUM", "reuse-cell", E4, "base", "r-c1", 6, 7), ("CUSUM", "reuse-cell", E3, "mix", "r-c2", 6, 7),
    ("CUSUM", "reuse-cell", _C(2, 0.5, 1, None, 1, 2), "base", "r-c2", 6, 7),
    ("CUSUM", "reuse-cell", _C(2, 0, 1, "positive", 0, 1), "base", "r-c1", 7, 8),
    # a ring of R >= burn_in rows always holds the last burn_in observations (mean / sd do not care about their order):
    # rings are shorter than the burn-in (2 rows, burn-in 3), or are chunk buffers that the caller clears when it wraps
    # (3 rows, burn-in 2 and 3: the window straddles the refill).  Given statistics are first re-estimated after an
    # alarm; the L = 40 histories of the reuse-dev family take them through 4-6 epochs.
    ("CUSUM", "reuse-ring", E2, "base", "r-ring2/2", 7, 8), ("CUSUM", "reuse-ring", E4, "frac", "r-ring1/2", 6, 7),
    ("CUSUM", "reuse-ring", _C(2, 0.5, 1, "negative"), "base", "r-chunk3", 7, 8), ("CUSUM", "reuse-ring", E1, "mix", "r-chunk3-1d", 6, 7),
    ("CUSUM", "reuse-ring", E3, "base", "r-ring2/3", 6, 7),  # ring longer than the burn-in: decisions must not notice it
    ("CUSUM", "reuse-pd", E1, "frac", "r-ser", 6, 7), ("CUSUM", "reuse-pd", E2, "mix", "r-df", 6, 7),
    ("CUSUM", "reuse-pd", _C(2, 0, 2, "negative", 1, 1), "base", "r-ser", 6, 7),
    ("CUSUM", "reuse-pd", E2, "base", "r-serring/2", 6, 7), ("CUSUM", "reuse-pd", E4, "frac", "r-dfring/2", 6, 7),
    ("CUSUM", "reuse-typed", E1, "dy32", "r-c2f32", 6, 7), ("CUSUM", "reuse-typed", E2, "base", "r-c2i64", 6, 7),
    ("CUSUM", "reuse-typed", E3, "base", "r-ring1/2i64", 6, 7), ("CUSUM", "reuse-typed", E4, "dy32", "r-c1f32", 6, 7),
    ("CUSUM", "reuse-mix", E2, "base", "r-mix", 7, 8), ("CUSUM", "reuse-mix", E4, "frac", "r-mix", 6, 7),
    ("CUSUM", "reuse-scrub", E1, "base", "r-c2+nan", 6, 7), ("CUSUM", "reuse-scrub", E2, "frac", "r-ring2/3+nan", 6, 7),
    ("CUSUM", "reuse-scrub", _C(2, 0, 2, "negative", 1, 1), "base", "r-c1+nan", 6, 7),
    ("CUSUM", "reuse-scrub", E3, "mix", "r-ser+nan", 6, 7),
    # Page-Hinkley keeps every observation of the epoch for to_dataframe()["change_scores"]
    ("PageHinkley", "reuse-cell", _H("positive", 1, 0, 1), "base", "r-c2", 6, 7),
    ("PageHinkley", "reuse-cell", _H("negative", 0, 0.5, 2), "frac", "r-c1", 5, 6),
    ("PageHinkley", "reuse-ring", _H("positive", 1, 0, 1), "base", "r-ring2/2", 6, 7),
    ("PageHinkley", "reuse-ring", _H("negative", 1, 0.5, 1), "mix", "r-ring1/3", 5, 6),
    ("PageHinkley", "reuse-pd", _H("positive", 1, 0, 1), "frac", "r-ser", 5, 6),
    ("PageHinkley", "reuse-pd", _H("negative", 0, 0.5, 2), "mix", "r-df", 5, 6),
    ("PageHinkley", "reuse-pd", _H("positive", 1, 0, 1), "base", "r-dfring/3", 5, 6),
    ("PageHinkley", "reuse-pd", _H("negative", 1, 0.5, 1), "frac", "r-serring/3", 5, 6),
    ("PageHinkley", "reuse-typed", _H("positive", 1, 0, 1), "dy32", "r-c2f32", 5, 6),
    ("PageHinkley", "reuse-typed", _H("negative", 0, 0.5, 2), "base", "r-c2i64", 5, 6),
    ("PageHinkley", "reuse-mix", _H("positive", 1, 0, 1), "base", "r-mix", 6, 7),
    ("PageHinkley", "reuse-scrub", _H("positive", 1, 0, 1), "base", "r-c2+nan", 5, 6),
    ("PageHinkley", "reuse-scrub", _H("negative", 1, 0.5, 1), "frac", "r-ring2/3+nan", 5, 6),
]

# default parameters, L = 160: CUSUM() = burn_in 30, delta .005, threshold 5, two-sided; PageHinkley() = delta .01,
# threshold 20, burn_in 30, positive.  Level shifts are placed so that every epoch outlives its burn-in and alarms.
LONG_DEFAULTS = {
    "CUSUM": [0, 1] * 17 + [4] * 6 + [4, 1, 4, 4, 1, 4] * 6 + [-2, 0] * 5 + [0, 1, 0, -2] * 9 + [4] * 4 + [1, 4] * 17,
    "PageHinkley": [0, 1] * 17 + [4] * 8 + [1, 0] * 16 + [4] * 14 + [-2, 0, -2, 1] * 10 + [0, 1] * 10 + [4] * 12,
}
LONG_DEFAULTS = {k: v[:160] for k, v in LONG_DEFAULTS.items()}

FAM_ALARMS = {
    "cusum": [
        "val-neg", "val-frac", "val-mix", "val-lvl6", "val-lvl7", "val-nlvl7", "val-tiny",
        "par-h0", "par-dBig", "par-nd", "feed-cont", "feed-df", "feed-f32", "feed-int", "feed-auto", "long-default",
        "val-nano", "val-p2m30", "val-big8", "val-p2p27", "val-lvl8", "long-scale",
    ],
    "ph": [
        "val-neg", "val-frac", "val-mix", "val-lvl6", "val-lvl7", "val-nlvl7", "val-tiny",
        "par-h0", "par-hfrac", "par-dBig", "feed-cont", "feed-df", "feed-f32", "feed-int", "feed-auto", "long-default",
        "val-nano", "val-p2m30", "val-big8", "val-p2p27", "val-lvl8", "long-scale",
    ],
}
# burn-in longer than every history: alarms are impossible, that is the point
FAM_QUIET = {"cusum": ["par-bBig"], "ph": ["par-bBig"]}
FAM_NARROW = {"cusum": ["feed-narrow"], "ph": []}  # found the (since repaired) narrow-integer wrap-around
# round 4: the caller re-uses its containers (every family must step and alarm for both detectors)
FAM_REUSE = ["reuse-cell", "reuse-ring", "reuse-pd", "reuse-typed", "reuse-mix", "reuse-scrub", "reuse-dev", "long-reuse"]


def _x_cfg(system, fam, params, alpha, feed, L, tag):
    kind = _kind_of(system, params)
    cid = "%s:%s:%s%s" % (fam, tag, alpha, (":" + feed) if feed else "")
    cfg = {"id": cid, "params": params, "alphabet": alpha, "fam": fam}
    if feed:
        cfg["feed"] = feed
    if alpha in UNIT_LOG2:
        cfg["unit_log2"] = UNIT_LOG2[alpha]
    cfg["tol"] = _tol(alpha, L, feed)
    return cfg


def _x_dfs_tasks(system, fam, params, alpha, feed, depth):
    model_cls = CusumModel if system == "CUSUM" else PageHinkleyModel
    cfg = _x_cfg(system, fam, params, alpha, feed, depth, _cid(_kind_of(system, params), params))
    alphabet = ALPHABETS[alpha]
    split = max(1, depth - SUBTREE[system])
    out = []
    for prefix in itertools.product(alphabet, repeat=split):
        dead = _model_closes_at(model_cls, params, prefix)
        if dead is not None and any(x != alphabet[0] for x in prefix[dead + 1:]):
            continue
        out.append(
            {
                "system": system,
                "cfg": cfg,
                "prefix": list(prefix),
                "depth": depth - split,
                "label": "%s|%s|%s|d%d|%s" % (system, fam, cfg["id"], depth, ",".join(map(str, prefix))),
                "cost": UNIT[system] * 4 ** (depth - split) * 2,
                "validate_every": 997,
            }
        )
    return out


def _x_long_tasks(system, scale=None, parts=3):
    """``scale`` (a key of SCALES): the same history measured in another unit - CUSUM() keeps its default parameters
    (the test is on standardised observations), Page-Hinkley's delta (an amplitude in the unit of the data) is scaled
    with the data, its threshold (a multiple of the running mean) and burn-in stay at their defaults."""
    default = LONG_DEFAULTS[system]
    symbols = ALPHABET
    fam, alpha, params = "long-default", "base", {}
    if scale:
        u = SCALES[scale]
        fam, alpha = "long-scale", "base@" + scale
        default = [v * u for v in default]
        symbols = ALPHABETS[alpha]
        if system == "PageHinkley":
            params = {"delta": 0.01 * u}
    cfg = {"id": "%s:%s%s" % (fam, system, ("@" + scale) if scale else ""), "params": params, "alphabet": alpha, "fam": fam}
    cfg["tol"] = _tol(alpha, len(default))  # delta .005 / .01 are not dyadic: margins and the noise floor apply
    L = len(default)
    # one prefix-sharing task per third of the deviation positions (the deviation-free history is part of each)
    out = []
    thirds = [(0, 54), (54, 107), (107, L)]
    for a, b in thirds[:parts]:
        menu = [[x for x in symbols if x != default[i]] if a <= i < b else [] for i in range(L)]
        out.append(
            {
                "system": system,
                "cfg": cfg,
                "mode": "dev",
                "default": default,
                "menu": menu,
                "menu_per_pos": True,
                "k": 1,
                "label": "%s|%s%s|L%d|k1|dev@%d-%d" % (system, fam, ("@" + scale) if scale else "", L, a, b - 1),
                "cost": UNIT[system] * 3 * (b - a) * (L - (a + b) // 2),
                "validate_every": 97,
            }
        )
    return out


# long-reuse: the default-parameter L = 160 histories (burn-in 30) fed through re-used containers: one (1,1) cell, a
# 7-row ring (shorter than the burn-in: the re-estimation window has been overwritten), a 50-row chunk buffer that is
# cleared and refilled every 50 observations (longer than the burn-in: the window straddles the refill)
LONG_REUSE_FEEDS = ["r-c2", "r-ring2/7", "r-chunk50"]
# quick: replaced positions 3, 3 + stride, ...; thorough: every position
LONG_REUSE_STRIDE = {"quick": {"CUSUM": 8, "PageHinkley": 16}, "thorough": {"CUSUM": 1, "PageHinkley": 2}}


def _long_reuse_positions(system, tier):
    L = len(LONG_DEFAULTS[system])
    stride = LONG_REUSE_STRIDE[tier][system]
    return list(range(3 if stride > 1 else 0, L, stride))


def _x_long_reuse_tasks(system, feed, tier):
    default = LONG_DEFAULTS[system]
    L = len(default)
    fam = "long-reuse"
    cfg = {"id": "%s:%s:%s" % (fam, system, feed), "params": {}, "alphabet": "base", "fam": fam, "feed": feed,
           "tol": _tol("base", L)}
    where = _long_reuse_positions(system, tier)
    parts = [where] if tier == "quick" else [where[i::4] for i in range(4)]
    out = []
    for n, part in enumerate(parts):
        part = set(part)
        menu = [[x for x in ALPHABET if x != default[i]] if i in part else [] for i in range(L)]
        out.append(
            {
                "system": system,
                "cfg": cfg,
                "mode": "dev",
                "default": default,
                "menu": menu,
                "menu_per_pos": True,
                "k": 1,
                "label": "%s|%s|%s|L%d|k1|part%d" % (system, fam, feed, L, n),
                "cost": UNIT[system] * 3 * len(part) * L,
                "validate_every": 37,
            }
        )
    return out


# reuse-dev: the twelve L = 40 level-shift configurations of DEV_CFGS (4-6 alarms each: given statistics are
# re-estimated, estimated ones several times) fed through re-used containers, every history with <= k replaced positions
# (k = 1; thorough: 2 for CUSUM).  One feed per configuration, in the order of DEV_CFGS.
DEV_REUSE_FEEDS = ["r-c2", "r-ring2/2", "r-mix", "r-chunk3", "r-ser", "r-ring1/2", "r-mix", "r-dfring/2",
                   "r-mix", "r-ring2/3", "r-c1", "r-serring/3"]


def _x_reuse_dev_tasks(tier):
    out = []
    for i, (system, dname, p, _kq, _kt) in enumerate(DEV_CFGS):
        feed = DEV_REUSE_FEEDS[i]
        k = 2 if (tier != "quick" and system == "CUSUM") else 1
        cfg = _x_cfg(system, "reuse-dev", p, "base", feed, len(DEV_DEFAULTS[dname]),
                     "dev%d-%s-%s" % (i, dname, _cid(_kind_of(system, p), p)))
        for t in _dev_tasks(i, system, dname, p, k):
            t["cfg"] = cfg
            t["label"] = t["label"].replace(system + "|", "%s|reuse-dev|%s|" % (system, feed), 1)
            t["validate_every"] = 37
            t["cost"] = t["cost"] * 2
            out.append(t)
    return out


def _extension_tasks(tier):
    out = []
    out.extend(_x_reuse_dev_tasks(tier))
    for system, fam, params, alpha, feed, dq, dt in X_DFS:
        out.extend(_x_dfs_tasks(system, fam, params, alpha, feed, dq if tier == "quick" else dt))
    for feed in LONG_REUSE_FEEDS:
        out.extend(_x_long_reuse_tasks("CUSUM", feed, tier))
        out.extend(_x_long_reuse_tasks("PageHinkley", feed, tier))
    out.extend(_x_long_tasks("CUSUM"))
    out.extend(_x_long_tasks("PageHinkley"))
    for scale in SCALES:
        # quick: at the large unit only the first third of the deviation positions (they move every later epoch)
        parts = 1 if (tier == "quick" and scale == "1e8") else 3
        out.extend(_x_long_tasks("CUSUM", scale, parts))
        out.extend(_x_long_tasks("PageHinkley", scale, parts))
    return out


OFFSET_CFGS = [
    {"burn_in": 2, "delta": 0.5, "threshold": 1, "direction": None},
    {"burn_in": 3, "delta": 0, "threshold": 2, "direction": None},
    {"burn_in": 2, "delta": 0, "threshold": 2, "direction": "positive"},
]


REQUIRED = [
    "offset_level_steps",
    "cusum_alarm_twosided_upper",
    "cusum_alarm_twosided_lower",
    "cusum_alarm_positive",
    "cusum_alarm_negative",
    "cusum_alarm_estimated_stats",
    "cusum_alarm_reestimated_stats",
    "ph_alarm_positive",
    "ph_alarm_negative",
    "histories_reaching_3_alarms",
    "cusum_histories_reaching_3_alarms",
    "ph_histories_reaching_3_alarms",
    "histories_reaching_4_alarms",
    "cusum_alarm_in_epoch2",
    "cusum_alarm_in_epoch3plus",
    "ph_alarm_in_epoch2",
    "ph_alarm_in_epoch3plus",
    "exact_ties_enforced",
    "cusum_exact_ties_enforced",
    "ph_exact_ties_enforced",
    "burnin_boundary_alarm_at_first_eligible_sample",
    "burnin_boundary_test_fired_but_suppressed",
    "burnin_boundary_first_eligible_sample_quiet",
    "sd0_terminals",
    "ph_frame_rows_compared",
]
# round-3 families; neither detector uses randomness, so none of these counters depends on VERIF_SEED
for _s in ("cusum", "ph"):
    REQUIRED += ["fam_%s_%s_steps" % (_s, f) for f in FAM_ALARMS[_s] + FAM_QUIET[_s] + FAM_NARROW[_s]]
    REQUIRED += ["fam_%s_%s_alarms" % (_s, f) for f in FAM_ALARMS[_s]]

# round-4 families: every family steps and alarms for both detectors, and every role's container really was refilled in
# place (a container that pandas / numpy re-allocated on assignment would make its family vacuous: the counter
# ``reuse_container_reallocated:<role>`` is reported, its in-place twin is demanded)
for _s in ("cusum", "ph"):
    REQUIRED += ["fam_%s_%s_steps" % (_s, f) for f in FAM_REUSE]
    REQUIRED += ["fam_%s_%s_alarms" % (_s, f) for f in FAM_REUSE]
REQUIRED += ["reuse_calls"] + sorted("reuse_refilled_in_place:%s" % r for r in REUSE_ROLES)

# wall-clock safety net only (the machine is shared; bounds are sized by CPU seconds / 16)
TIME_BUDGET = {"quick": 3600, "thorough": 21600}


def describe(tier):
    depth_hist = {}
    for fam, best in plan_depths(tier, 0).items():
        h = {}
        for _, (_, d) in best.items():
            h["depth_%d" % d] = h.get("depth_%d" % d, 0) + 1
        depth_hist[fam] = h
    return {
        "rule": "every history over {-2,0,1,4} of the stated depth (prefix-shared DFS over the real detector, "
        "snapshots by deepcopy, no transposition merging: both detectors keep their history) for every "
        "configuration of the grids, and every length-40 level-shift history with <= k replaced positions; "
        "a history is non-trivial when at least one of its updates alarmed, hit an exact tie, fired inside "
        "the burn-in (suppressed) or ended in the documented sd=0 ValueError; histories are distinct by "
        "construction (distinct event sequences or configurations)",
        "bounds": {
            "alphabet": ALPHABET,
            "dfs_configurations_per_depth": depth_hist,
            "dfs_levels": {
                fam: [["whole grid" if k is None else ("one per " + "x".join(k) if k else "one configuration"), d] for k, d in lv]
                for fam, lv in PLAN[tier].items()
            },
            "covering_subsets": "one configuration per combination of the named parameters, the remaining "
            "parameters rotating with the combination index and VERIF_SEED",
            "parameters": {
                "direction": ["None", "positive", "negative"],
                "delta": DELTAS,
                "threshold": THRESHOLDS,
                "cusum_given_(target,sd_hat)": [list(x) for x in GIVEN_TS],
                "burn_in": {"CUSUM-given": BURN_GIVEN, "CUSUM-est": BURN_EST, "PageHinkley": BURN_PH},
            },
            "round3_families": {
                "value_alphabets": {k: ALPHABETS[k] for k in sorted(ALPHABETS)},
                "containers_and_dtypes": FEEDS,
                "dfs": [
                    {"system": sy, "family": fam, "params": pp, "alphabet": al, "feed": fd, "depth": dq if tier == "quick" else dt}
                    for sy, fam, pp, al, fd, dq, dt in X_DFS
                ],
                "long": "CUSUM() and PageHinkley() with default parameters on a level-shift history of length 160 over "
                "{-2,0,1,4}, every history with <= 1 replaced position",
                "round4_reuse": {
                    "what": "the caller keeps one container per role, refills it in place and passes the same object (or a "
                    "one-row view / slice of it) at every call; same oracle (the model sees the values only); snapshots are "
                    "rebuilt by replaying the logged calls on a fresh detector with fresh containers",
                    "feeds": {k: {"roles_cycled_with_position": v[0], "scrub_after_update": v[1]} for k, v in sorted(REUSE.items())},
                    "dfs": "the entries of 'dfs' above whose family starts with 'reuse-'",
                    "reuse_dev": [
                        {"system": sy, "default": dn, "params": pp, "feed": DEV_REUSE_FEEDS[i], "L": len(DEV_DEFAULTS[dn]),
                         "k": 2 if (tier != "quick" and sy == "CUSUM") else 1}
                        for i, (sy, dn, pp, _kq, _kt) in enumerate(DEV_CFGS)
                    ],
                    "long_reuse": {
                        "feeds": LONG_REUSE_FEEDS, "L": 160, "k": 1, "parameters": "defaults",
                        "replaced_positions": {sy: _long_reuse_positions(sy, tier) for sy in ("CUSUM", "PageHinkley")},
                    },
                },
                "long_scale": "the same two histories with every value multiplied by 1e-9 and by 1e8 (CUSUM(): default "
                "parameters; PageHinkley(delta=0.01*unit)): every history with <= 1 replaced position"
                + (" (unit 1e8: replaced positions 0-53 only)" if tier == "quick" else ""),
            },
            "deviation_mode": {
                "L": 40,
                "configurations": [
                    {"system": sy, "default": dn, "params": pp, "k": kq if tier == "quick" else kt}
                    for sy, dn, pp, kq, kt in DEV_CFGS
                ],
            },
        },
        "explanation": "states = tree nodes; traces_validated_against_impl = maximal executions on which the real "
        "detector and the Fraction model were compared after every update (CUSUM: drift_state and the "
        "sd=0 ValueError; PageHinkley: drift_state and all eight to_dataframe() columns, all rows, every step)",
        "assumptions": [
            "CUSUM with estimated statistics: the sums stay 0 for the first burn_in-1 observations and the "
            "statistic starts with the burn_in-th observation (DESIGN §4 C04); in every later epoch target/sd "
            "are the mean / population sd of the last burn_in observations fed and the sums restart at 0",
            "CUSUM burn_in=0: 're-estimated from the last burn_in observations' is undefined, the history is "
            "checked up to and including its first alarm and the branch closed; CUSUM(target=None, burn_in=0) "
            "is not explored",
            "sd = 0 past the burn-in is the documented ValueError (test_zero_sd) and ends the branch",
            "PageHinkley tests ph_difference > threshold * running mean (property anchor), also when the mean "
            "is negative",
            "comparisons are enforced strictly (ties included) whenever all operands are dyadic rationals so "
            "that float arithmetic is exact; otherwise relative margins <= 1e-9 follow the implementation "
            "(near_tie_steered); math.sqrt is trusted for irrational standard deviations",
            "only drift_state (and to_dataframe()) decide; total/since counters are recorded, not compared (C01)",
            "round-3 families: a step counts as exact arithmetic (ties enforced) only if every operand and intermediate "
            "of the detector's expression is representable in the significand of its arithmetic (53 bits; 24 for "
            "float32-typed streams); otherwise decisions whose two sides are closer than the family's absolute rounding "
            "noise (64*L*eps*max|x|; CUSUM: divided by sd) or than the relative margin follow the implementation; "
            "Page-Hinkley columns are compared within that noise (mean: /16, theta: *|threshold|/16), change_scores exactly",
            "CUSUM on a constant window of non-dyadic numbers: the exact standard deviation is 0, numpy's is rounding "
            "noise or 0 - raising the documented ValueError and not raising are both accepted and the branch is closed "
            "(round-3 families only; the legacy families enforce the ValueError)",
            "negative delta, negative thresholds, CUSUM(target=None, burn_in=0), float16 / boolean input are not explored "
            "(not documented as legal); the deviation-free L=160 history is executed once per third of the positions",
            "scale families (1e-9 ... 1e8): no absolute tolerance is used anywhere - the noise floor is 64*L*eps*max|x| of "
            "the family's own alphabet, change_scores must be the number fed, and in the power-of-two families (2^-30, "
            "2^27) float arithmetic is exact, so ties are enforced there as on the small integers",
            "round-4 reuse families: containers are float64 / float32 / int64 ndarrays (C-contiguous, rows passed whole or as "
            "basic-slice views), Series, one-column DataFrames and python lists; a ring of >= burn_in rows that is never "
            "cleared always holds CUSUM's re-estimation window, so CUSUM rings are shorter than the burn-in or are cleared "
            "when they wrap; not explored: the caller mutating the frame returned by to_dataframe(), the detector writing "
            "into the caller's container (neither is a statement of C04), read-only or non-contiguous inputs, parameters "
            "(target / sd_hat) passed as arrays that are mutated later",
            "manual reset() calls between updates, CUSUM(target given, sd_hat=None) / (target=None, sd_hat given) and "
            "negative slack are not explored: the property defines no expected behaviour for them",
        ],
    }
