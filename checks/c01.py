"""C01 — drift state, counters and warm-up follow the detector lifecycle contract.

Explored: for each of the 15 detectors, every sequence of accepted updates over
the driver's alphabet up to a depth (cheap detectors), or a long default history
with <= k deviations (expensive ones).  Oracle: a table-driven lifecycle monitor
(DESIGN §4 C01) evaluated after every call; the monitor derives everything it
expects from the fed events and from *public* observables only.
"""
import itertools
import math

from mc import rng
from mc.explorer import System, Violation, dev_split
from checks.drivers import DRIVERS, drift_prefixes

PROPERTY = "C01"

REC_DETECTORS = ("ADWIN", "ADWINAccuracy", "DDM", "EDDM", "STEPD", "LinearFourRates")

# exceptions that are documented / outside the input domain of the lifecycle contract
def _excluded(name, exc):
    s = "%s: %s" % (type(exc).__name__, exc)
    if name == "CUSUM" and isinstance(exc, ValueError) and "Standard deviation is 0" in s:
        return "cusum_zero_sd"
    if name == "PCACD" and "bandwidth" in s:
        return "pcacd_degenerate_kde"
    return None


class Lifecycle(System):
    def __init__(self, driver):
        self.d = driver
        self.name = driver.name

    # ------------------------------------------------------------------
    def init(self, cfg):
        p = cfg["params"]
        rng.seed_step(0, self.name, cfg["id"], "init")
        det = self.d.make(p)
        t, s = self.d.counters(det)
        mon = {
            "n": 0,  # accepted updates fed by the driver
            "extra": 0,  # documented extra counts (HDM detect_batch=1 proxy batches)
            "prev_state": None,
            "prev_since": s,
            "epoch_pos": 0,  # updates in the current epoch (monitor's own count)
            "epoch_idx": 0,
            "errors": 0,  # EDDM: errors in the epoch
            "W": 0,  # ADWIN: retained window width
            "have_ref": True,
            "drifts": 0,
            "consec": 0,
        }
        if self.name in ("HDDDM", "CDBD") and p.get("detect_batch") == 1:
            mon["extra"] = 1
            if (t, s) != (1, 1):
                # set_reference with detect_batch=1 counts the proxy batch
                mon["bad_init"] = (t, s)
        if self.name == "KdqTreeBatch" and p.get("_no_initial_ref"):
            mon["have_ref"] = False
        return {"det": det, "mon": mon}

    def alphabet(self, cfg, state, pos):
        if self.name == "MD3":
            return self.d.enabled(state["det"])
        return self.d.alphabet(cfg["params"])

    # ------------------------------------------------------------------
    def step(self, cfg, state, ev, pos, ctx):
        p = cfg["params"]
        det, mon = state["det"], state["mon"]
        name = self.name
        if "bad_init" in mon:
            raise Violation("counters", "%s: set_reference with detect_batch=1 should count the proxy batch once, counters=%r" % (name, mon["bad_init"]))
        is_update = not (name == "MD3" and ev in ("l_ok", "l_bad"))
        rng.seed_step(ctx.seed, name, cfg["id"], pos)
        try:
            self.d.feed(det, ev, p)
        except Exception as e:  # noqa
            why = _excluded(name, e)
            if why:
                ctx.count(why)
                ctx.terminal = True
                return {"excluded": why}
            raise Violation(
                "exception",
                "%s: accepted update raised %s: %s" % (name, type(e).__name__, str(e)[:200]),
                sig="exception:%s:%s" % (name, type(e).__name__),
            )
        obs = self.d.obs(det)
        st, t, s = obs["state"], obs["total"], obs["since"]

        def bad(sub, msg):
            raise Violation(sub, "%s %s (event %r at position %d, params %r)" % (name, msg, ev, pos, p), expected=None, observed=obs, sig="%s:%s" % (sub, name))

        # 1. state domain
        if st not in (None, "warning", "drift"):
            bad("state-domain", "drift_state=%r" % (st,))

        prev_drift = mon["prev_state"] == "drift" or (name in ("ADWIN", "ADWINAccuracy") and mon["prev_state"] is not None)
        if not is_update:
            # MD3 label: not an update
            if (t, s) != (mon["n"] + mon["extra"], mon["prev_since"]):
                bad("counters", "give_oracle_label changed the counters to total=%d since=%d" % (t, s))
            mon["prev_state"] = st
            if st == "drift":
                ctx.mark("drift_transitions")
                ctx.count("drift:%s" % name)
                if mon["epoch_idx"] >= 1:
                    ctx.count("drift_in_later_epoch:%s" % name)
                mon["drifts"] += 1
            return obs

        mon["n"] += 1
        # ---- 3. since-reset counter ------------------------------------
        if prev_drift:
            mon["epoch_pos"] = 1
            mon["epoch_idx"] += 1
            mon["errors"] = 0
            if name in ("HDDDM", "CDBD") and p.get("detect_batch") == 1:
                mon["extra"] += 1
            exp_since = self.d.restart
            if name in ("HDDDM", "CDBD") and p.get("detect_batch") == 1:
                exp_since = 2
            ctx.count("restarts")
            if mon["epoch_idx"] >= 2:
                ctx.count("third_epoch_restarts")
        else:
            mon["epoch_pos"] += 1
            exp_since = mon["prev_since"] + 1
        adopt = False
        if name == "KdqTreeStreaming":
            w = p["window_size"]
            e = mon["epoch_pos"]
            exp_since = e if e < w else e - w
            if e == w:
                ctx.count("kdq_reference_completions")
        if name == "KdqTreeBatch" and not mon["have_ref"]:
            adopt = True
            mon["have_ref"] = True
            exp_since = 0
            ctx.count("kdq_batch_adoptions")
        if name == "PCACD" and prev_drift:
            mon["epoch_pos"] = 0  # the sample that triggers the rebuild is discarded
        # 2. total counter
        exp_total = mon["n"] + mon["extra"]
        if t != exp_total:
            bad("counters", "total counter %d, expected %d after %d accepted updates" % (t, exp_total, mon["n"]))
        if s != exp_since:
            bad("counters", "since-reset counter %d, expected %d (previous state %r, previous value %d)" % (s, exp_since, mon["prev_state"], mon["prev_since"]))

        # ---- 4. warm-up ---------------------------------------------------
        if name == "EDDM" and ev == 1:
            mon["errors"] += 1
        W_before = mon["W"] + 1
        if st is not None:
            ok = True
            why = ""
            if name in ("PageHinkley", "CUSUM"):
                ok = s > p["burn_in"]
                why = "since=%d <= burn_in=%d" % (s, p["burn_in"])
            elif name == "DDM":
                ok = s >= p["n_threshold"]
                why = "since=%d < n_threshold" % s
            elif name == "EDDM":
                ok = mon["errors"] >= p["n_threshold"]
                why = "errors in epoch=%d < n_threshold" % mon["errors"]
            elif name == "STEPD":
                ok = s >= 2 * p["window_size"]
                why = "since=%d < 2*window_size" % s
            elif name == "LinearFourRates":
                ok = s > p["burn_in"] and s % p.get("subsample", 1) == 0
                why = "since=%d, burn_in=%d, subsample=%d" % (s, p["burn_in"], p.get("subsample", 1))
            elif name in ("ADWIN", "ADWINAccuracy"):
                ok = (
                    t % p["new_sample_thresh"] == 0
                    and W_before > p["window_size_thresh"]
                    and W_before >= 2 * p["subwindow_size_thresh"]
                )
                why = "total=%d, window=%d, schedule=%d, min window=%d, min subwindow=%d" % (
                    t, W_before, p["new_sample_thresh"], p["window_size_thresh"], p["subwindow_size_thresh"])
            elif name == "KdqTreeStreaming":
                w = p["window_size"]
                e = mon["epoch_pos"]
                ok = e >= 2 * w and (e - 2 * w + 1) > p["persistence"] * w
                why = "epoch sample %d, window_size=%d, persistence=%r" % (e, w, p["persistence"])
            elif name == "KdqTreeBatch":
                ok = not adopt
                why = "alarm on the update that adopts its input as reference"
            elif name in ("HDDDM", "CDBD"):
                ok = s >= max(2, p["detect_batch"])
                why = "since=%d < max(2, detect_batch)" % s
            elif name == "PCACD":
                w = p["window_size"]
                need = 2 * w + 1 if mon["epoch_idx"] == 0 else w + 1
                step = min(100, round(p["sample_period"] * w))
                ok = mon["epoch_pos"] >= need and (t - 1) % step == 0
                why = "epoch sample %d < %d or (total-1)=%d not on the step-%d schedule" % (mon["epoch_pos"], need, t - 1, step)
            if not ok:
                bad("warm-up", "reported %r before the documented minimum amount of data: %s" % (st, why))
            ctx.count("alarm_at_earliest_possible" if self._earliest(name, p, mon, s, t, W_before) else "alarm_later")

        # ---- 5. retraining_recs ---------------------------------------------
        if name in REC_DETECTORS:
            r = obs.get("recs")
            if st == "drift":
                if r is None or r[0] is None or r[1] is None:
                    bad("recs", "drift reported but retraining_recs=%r" % (r,))
                if not (r[0] <= r[1] and r[1] == t - 1):
                    bad("recs", "retraining_recs=%r must start no later than it ends and end at the current index %d" % (r, t - 1))
                if r[0] < r[1]:
                    ctx.count("recs_span_gt_1")
            if prev_drift:
                # the update following a drift clears the old recommendation
                if r is not None:
                    if r[1] is not None and r[1] != t - 1:
                        bad("recs", "old recommendation not cleared by the update following a drift: %r" % (r,))
                    if r[0] is not None and st is None:
                        bad("recs", "old recommendation not cleared by the update following a drift: %r" % (r,))
                    if r[0] is not None and r[0] < t - 1 and name not in ("ADWIN", "ADWINAccuracy"):
                        bad("recs", "recommendation %r starts before the current epoch (index %d)" % (r, t - 1))
                    if r[0] is None and r[1] is None:
                        ctx.count("recs_cleared")
            if name in ("ADWIN", "ADWINAccuracy"):
                if st == "drift":
                    mon["W"] = r[1] - r[0] + 1
                    if mon["W"] > W_before:
                        bad("recs", "retained window %d larger than the window before the cut %d" % (mon["W"], W_before))
                else:
                    mon["W"] = W_before

        if st == "drift":
            ctx.mark("drift_transitions")
            ctx.count("drift:%s" % name)
            if mon["epoch_idx"] >= 1:
                ctx.count("drift_in_later_epoch:%s" % name)
            mon["drifts"] += 1
            mon["consec"] += 1
            if mon["consec"] >= 2:
                ctx.count("back_to_back_drifts")
            if mon["drifts"] == 2:
                ctx.count("histories_reaching_2_drifts")
            if mon["drifts"] == 3:
                ctx.count("histories_reaching_3_drifts")
        else:
            mon["consec"] = 0
            if st == "warning":
                ctx.mark("warning_transitions")
        mon["prev_state"] = st
        mon["prev_since"] = s
        return obs

    @staticmethod
    def _earliest(name, p, mon, s, t, W):
        try:
            if name in ("PageHinkley", "CUSUM"):
                return s == p["burn_in"] + 1
            if name == "DDM":
                return s == p["n_threshold"]
            if name == "EDDM":
                return mon["errors"] == p["n_threshold"]
            if name == "STEPD":
                return s == 2 * p["window_size"]
            if name in ("HDDDM", "CDBD"):
                return s == max(2, p["detect_batch"])
            if name == "KdqTreeStreaming":
                w = p["window_size"]
                return mon["epoch_pos"] == 2 * w + math.floor(p["persistence"] * w)
            if name == "PCACD":
                w = p["window_size"]
                return mon["epoch_pos"] in (2 * w + 1, w + 1)
            if name in ("ADWIN", "ADWINAccuracy"):
                return W == max(p["window_size_thresh"] + 1, 2 * p["subwindow_size_thresh"])
        except Exception:
            pass
        return False


SYSTEMS = {name: Lifecycle(d) for name, d in DRIVERS.items()}

# mode / depth per detector and tier
PLAN = {
    # name: (quick depth, thorough depth, prefix split)
    "DDM": (12, 16, 2),
    "EDDM": (12, 16, 2),
    "STEPD": (12, 15, 2),
    "ADWINAccuracy": (12, 15, 2),
    "ADWIN": (8, 10, 2),
    "CUSUM": (7, 9, 1),
    "PageHinkley": (7, 9, 1),
    "LinearFourRates": (5, 7, 1),
    "KdqTreeStreaming": (8, 10, 3),
    "HDDDM": (4, 6, 1),
    "CDBD": (4, 6, 1),
    "KdqTreeBatch": (4, 5, 1),
    "NNDVI": (4, 6, 1),
    "MD3": (9, 12, 0),
}


def _pcacd_tasks(tier, cfgs):
    out = []
    for ci, p in enumerate(cfgs):
        w = p["window_size"]
        L = 5 * w + 2
        # default: two quiet windows then a jump to the outlier symbol and back
        default = [(i % 3) for i in range(2 * w)] + [3] * w + [(i % 3) for i in range(L - 3 * w)]
        out += dev_split(
            {
                "system": "PCACD",
                "cfg": {"id": ci, "params": p},
                "mode": "dev",
                "default": default,
                "menu": [0, 1, 2, 3],
                "k": 2 if tier == "quick" else 3,
                "label": "PCACD|%d|dev" % ci,
                "cost": 40,
                "validate_every": 101,
            }
        )
    return out


def tasks(tier, seed):
    out = []
    for name, d in DRIVERS.items():
        cfgs = d.all_configs(tier)
        if name == "PCACD":
            out += _pcacd_tasks(tier, cfgs)
            continue
        dq, dt, split = PLAN[name]
        depth = dq if tier == "quick" else dt
        for ci, p in enumerate(cfgs):
            if name == "MD3":
                prefixes = [()]
            else:
                prefixes = list(itertools.product(d.alphabet(p), repeat=split))
            # scripted starts from non-initial states: shortest histories ending in a drift, then the full suffix depth
            after = [] if name in ("DDM", "ADWIN", "CUSUM", "PageHinkley") else drift_prefixes(name, p, maxlen=8 if d.kind == "stream" else 3, limit=2, seeder=(lambda pos, n=name, i=ci: rng.seed_step(0 if pos == "init" else seed, n, i, pos)))
            for pre in after:
                out.append(
                    {
                        "system": name,
                        "cfg": {"id": ci, "params": p},
                        "prefix": list(pre),
                        "depth": depth if name == "LinearFourRates" else max(2, depth - 2),
                        "label": "%s|%d|after-drift:%s" % (name, ci, ",".join(map(str, pre))),
                        "cost": 2 * {"KdqTreeBatch": 30, "LinearFourRates": 20, "HDDDM": 10, "CDBD": 8, "NNDVI": 8, "KdqTreeStreaming": 10}.get(name, 1),
                        "validate_every": 211,
                    }
                )
            for pre in prefixes:
                out.append(
                    {
                        "system": name,
                        "cfg": {"id": ci, "params": p},
                        "prefix": list(pre),
                        "depth": depth - len(pre),
                        "label": "%s|%d|%s" % (name, ci, ",".join(map(str, pre))),
                        "cost": {"KdqTreeBatch": 30, "LinearFourRates": 20, "HDDDM": 10, "CDBD": 8, "NNDVI": 8, "KdqTreeStreaming": 10}.get(name, 1),
                        "validate_every": 211,
                    }
                )
    return out


# per-detector counters are demanded for every detector whose alarms do not depend on random draws with only a few
# dozen occurrences (LinearFourRates: tens of drifts inside the bound, seed dependent - reported, not demanded)
_NOT_DEMANDED = ("LinearFourRates",)
REQUIRED = ["drift:%s" % n for n in DRIVERS if n not in _NOT_DEMANDED] + ["drift_in_later_epoch:%s" % n for n in DRIVERS if n not in _NOT_DEMANDED] + [
    "drift_transitions",
    "warning_transitions",
    "restarts",
    "third_epoch_restarts",
    "back_to_back_drifts",
    "histories_reaching_3_drifts",
    "alarm_at_earliest_possible",
    "kdq_reference_completions",
    "kdq_batch_adoptions",
    "recs_cleared",
    "recs_span_gt_1",
]


def describe(tier):
    return {
        "rule": "per detector and parameter set: every sequence of accepted updates over the driver alphabet up to the "
        "depth in bounds (PCACD: default history with <= k deviations, all run to completion); a history is "
        "non-trivial when at least one update reported warning or drift; histories are distinct event sequences",
        "bounds": {
            "depth": {k: (v[0] if tier == "quick" else v[1]) for k, v in PLAN.items()},
            "PCACD": "deviation-bounded, L=5w+2, k=%d" % (2 if tier == "quick" else 3),
            "alphabets": {k: list(map(str, d.symbols)) for k, d in DRIVERS.items()},
            "parameter_sets": {k: len(d.all_configs(tier)) for k, d in DRIVERS.items()},
        },
        "explanation": "lifecycle monitor (state domain, total counter, since-reset counter incl. detector specific restart "
        "values, warm-up table, retraining_recs) evaluated after every call on the real detector; states are tree nodes",
        "assumptions": [
            "CUSUM's documented ValueError for a zero standard deviation and sklearn's rejection of a zero KDE bandwidth "
            "(PCACD 'kl' on a degenerate window) end a branch and are counted, not judged",
            "MD3 runs with a deterministic threshold classifier and a user margin function; only legal calls are made here (C19 covers refusals)",
            "numpy's global RNG is re-seeded from (VERIF_SEED, detector, configuration, position) before every call",
        ],
    }
