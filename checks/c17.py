"""C17 — a stricter confidence setting never makes a detector alarm earlier.

For every detector family a ladder of 3-4 values of the detection parameter
(loosest first) is run in lock-step on every history of the driver alphabet up
to a depth, all under the same seed schedule.  Oracle (exact, differential):
for every ordered pair (looser, stricter) the first drift of the stricter run is
never earlier than the first drift of the looser run.  Warning clause: with only
the warning threshold loosened, drift positions are identical on the whole
history and every warning of the tighter run is a warning of the looser one.
"""
import itertools

from mc import rng
from mc.explorer import System, Violation, dev_split
from checks.drivers import DRIVERS

PROPERTY = "C17"


class Mono(System):
    def __init__(self, driver):
        self.d = driver
        self.name = driver.name

    def _params(self, cfg, v):
        p = dict(cfg["base"])
        p[cfg["param"]] = v
        return p

    def init(self, cfg):
        dets = []
        for v in cfg["values"]:
            rng.seed_step(0, self.name, cfg["id"], "init")
            dets.append(self.d.make(self._params(cfg, v)))
        return {"dets": dets, "first": [None] * len(dets), "diff": False}

    def alphabet(self, cfg, state, pos):
        return self.d.alphabet(cfg["base"])

    def step(self, cfg, state, ev, pos, ctx):
        dets, first = state["dets"], state["first"]
        vals = cfg["values"]
        states = []
        for i, det in enumerate(dets):
            if cfg["kind"] == "drift" and first[i] is not None:
                states.append("done")
                continue
            if cfg.get("salt") is None:
                rng.seed_step(ctx.seed, self.name, cfg["id"], pos)
            else:  # the same ladder under a further seed schedule
                rng.seed_step(ctx.seed, self.name, cfg["id"], "salt", cfg["salt"], pos)
            try:
                self.d.feed(det, ev, self._params(cfg, vals[i]))
            except ValueError as e:
                if self.name == "CUSUM" and "Standard deviation is 0" in str(e):
                    ctx.terminal = True
                    ctx.count("cusum_zero_sd")
                    return {"excluded": "cusum_zero_sd"}
                raise
            states.append(det.drift_state)
        if cfg["kind"] == "drift":
            for i, s in enumerate(states):
                if s == "drift" and first[i] is None:
                    first[i] = pos
            # ordered pairs (looser j, stricter k), j < k
            for k in range(len(vals)):
                if first[k] == pos:
                    for j in range(k):
                        if first[j] is None:
                            raise Violation(
                                "monotone-drift",
                                "%s: %s=%r reports its first drift at update %d although the looser %s=%r has not reported drift yet (base %r)"
                                % (self.name, cfg["param"], vals[k], pos, cfg["param"], vals[j], cfg["base"]),
                                expected={"first_drift_looser": first[j]},
                                observed={"first_drift_stricter": first[k], "first": first},
                                sig="mono:%s:%s:loose=%r" % (self.name, cfg["param"], vals[j]),
                            )
            live = [i for i in range(len(vals)) if first[i] is None]
            if any(first[i] is not None for i in range(len(vals))) and live:
                if not state["diff"]:
                    state["diff"] = True
                    ctx.mark("histories_distinguishing_settings")
                    ctx.count("distinguished:" + self.name)
            if not live:
                ctx.terminal = True
                ctx.count("all_settings_alarmed")
            return {"states": states, "first": list(first)}
        # warning clause: values ordered tighter -> looser warning threshold
        drifts = [s == "drift" for s in states]
        if any(drifts) and not all(drifts):
            raise Violation(
                "warning-frame",
                "%s: changing only %s changed when drift is reported at update %d: states %r for values %r"
                % (self.name, cfg["param"], pos, states, vals),
                observed={"states": states}, sig="warnframe:%s" % self.name,
            )
        for k in range(len(vals)):
            for j in range(k):
                # j tighter, k looser
                if states[j] == "warning" and states[k] != "warning":
                    raise Violation(
                        "warning-monotone",
                        "%s: loosening %s from %r to %r removed the warning at update %d (states %r)"
                        % (self.name, cfg["param"], vals[j], vals[k], pos, states),
                        observed={"states": states}, sig="warnmono:%s" % self.name,
                    )
        if len(set(states)) > 1:
            ctx.mark("warning_sets_differ")
        if any(drifts):
            ctx.count("warning_clause_drifts")
        return {"states": states}


SYSTEMS = {n: Mono(d) for n, d in DRIVERS.items() if n not in ("MD3", "PCACD", "ADWINAccuracy")}

# (system, kind, base params, parameter, ladder loosest..strictest, quick depth, thorough depth)
LADDERS = [
    ("ADWIN", "drift", {"max_buckets": 2, "new_sample_thresh": 1, "window_size_thresh": 0, "subwindow_size_thresh": 1}, "delta", [1.0, 0.3, 0.002], 8, 10),
    ("ADWIN", "drift", {"max_buckets": 1, "new_sample_thresh": 2, "window_size_thresh": 2, "subwindow_size_thresh": 1, "conservative_bound": True}, "delta", [1.0, 0.5, 0.05], 8, 10),
    ("CUSUM", "drift", {"target": 0, "sd_hat": 1, "burn_in": 1, "delta": 0.5}, "threshold", [1, 2, 5], 7, 9),
    ("CUSUM", "drift", {"target": None, "sd_hat": None, "burn_in": 2, "delta": 0, "direction": "negative"}, "threshold", [0.5, 1, 3], 7, 9),
    ("PageHinkley", "drift", {"delta": 0.0, "burn_in": 1}, "threshold", [0, 1, 5, 20], 7, 9),
    # same ladder without 0: branches cut by the known finding above stay covered for the positive pairs
    ("PageHinkley", "drift", {"delta": 0.0, "burn_in": 1}, "threshold", [1, 5, 20], 7, 9),
    ("PageHinkley", "drift", {"delta": 0.5, "burn_in": 0, "direction": "negative"}, "threshold", [0.5, 1, 5], 7, 9),
    # longer burn-in: the looser setting crosses its threshold inside the burn-in, the stricter does not
    ("PageHinkley", "drift", {"delta": 0.0, "burn_in": 3}, "threshold", [0.5, 1, 5], 7, 9),
    ("PageHinkley", "drift", {"delta": 0.0, "burn_in": 3, "direction": "negative"}, "threshold", [0.5, 1, 5], 7, 9),
    ("CUSUM", "drift", {"target": 1, "sd_hat": 2, "burn_in": 3, "delta": 0}, "threshold", [0.5, 1, 3], 7, 9),
    ("DDM", "drift", {"n_threshold": 2, "warning_scale": 1}, "drift_scale", [1.5, 2, 3], 13, 16),
    ("EDDM", "drift", {"n_threshold": 2, "warning_thresh": 0.95}, "drift_thresh", [0.9, 0.7, 0.5], 13, 16),
    ("STEPD", "drift", {"window_size": 2, "alpha_warning": 0.5}, "alpha_drift", [0.3, 0.1, 0.003], 11, 14),
    ("LinearFourRates", "drift", {"time_decay_factor": 0.6, "warning_level": 0.3, "burn_in": 1, "num_mc": 20}, "detect_level", [0.2, 0.1, 0.02], 5, 6),
    ("KdqTreeStreaming", "drift", {"window_size": 2, "persistence": 0.5, "bootstrap_samples": 8, "count_ubound": 1}, "alpha", [0.6, 0.3, 0.05], 8, 9),
    ("KdqTreeBatch", "drift", {"bootstrap_samples": 10, "count_ubound": 1}, "alpha", [0.6, 0.3, 0.05], 3, 4),
    ("NNDVI", "drift", {"k_nn": 2, "sampling_times": 8}, "alpha", [0.6, 0.3, 0.01], 3, 4),
    ("HDDDM", "drift", {"detect_batch": 2, "statistic": "tstat", "subsets": 3}, "significance", [0.5, 0.2, 0.05], 4, 5),
    ("HDDDM", "drift", {"detect_batch": 3, "statistic": "stdev", "subsets": 3}, "significance", [0.5, 1, 2], 4, 5),
    ("CDBD", "drift", {"detect_batch": 1, "statistic": "stdev", "subsets": 3}, "significance", [0.5, 1, 2], 4, 5),
    ("CDBD", "drift", {"detect_batch": 3, "statistic": "tstat", "subsets": 3}, "significance", [0.5, 0.2, 0.05], 4, 5),
    # the same ladders in other regions: level 3e7 / scale 1e-3 inputs, other containers, significance levels above 1/2,
    # alpha * bootstrap_samples below 1/2, a warning level stricter than every detect level
    ("CUSUM", "drift", {"target": None, "sd_hat": None, "burn_in": 2, "delta": 0.5, "_offset": 3.0e7}, "threshold", [0.5, 1, 3], 7, 9),
    ("PageHinkley", "drift", {"delta": 0.0, "burn_in": 2, "_scale": 0.001, "_container": "DataFrame"}, "threshold", [0.5, 1, 5], 7, 8),
    ("STEPD", "drift", {"window_size": 2, "alpha_warning": 0.95}, "alpha_drift", [0.9, 0.7, 0.55, 0.2], 11, 14),
    ("LinearFourRates", "drift", {"time_decay_factor": 0.6, "warning_level": 0.01, "burn_in": 1, "num_mc": 20}, "detect_level", [0.3, 0.1, 0.02], 5, 6),
    ("KdqTreeStreaming", "drift", {"window_size": 2, "persistence": 0.0, "bootstrap_samples": 10, "count_ubound": 1, "_container": "DataFrame2"}, "alpha", [0.6, 0.2, 0.04, 0.0], 8, 9),
    ("KdqTreeBatch", "drift", {"bootstrap_samples": 10, "count_ubound": 2, "_container": "DataFrame"}, "alpha", [0.7, 0.2, 0.04], 3, 4),
    ("NNDVI", "drift", {"k_nn": 2, "sampling_times": 8, "_container": "DataFrame"}, "alpha", [0.6, 0.3, 0.01], 3, 4),
    ("HDDDM", "drift", {"detect_batch": 1, "statistic": "tstat", "subsets": 3, "_container": "DataFrame"}, "significance", [0.5, 0.2, 0.05], 4, 5),
    # fine ladders for the detectors whose threshold is a quantile of simulated / permuted / bootstrapped statistics:
    # neighbouring levels on both sides of 1/(number of simulated statistics), so that the thresholds of two members lie
    # close together and anything that makes the simulated statistics themselves depend on the level (another number of
    # draws, another order, a level-dependent seed) shows as an inversion; each is run under three seed schedules ("salts")
    ("NNDVI", "drift", {"k_nn": 2, "sampling_times": 8, "_salts": 48}, "alpha", [0.3, 0.14, 0.125, 0.12, 0.11, 0.1, 0.05], 4, 5),
    ("KdqTreeBatch", "drift", {"bootstrap_samples": 10, "count_ubound": 1, "_salts": 2}, "alpha", [0.3, 0.12, 0.1, 0.09, 0.05], 3, 4),
    ("KdqTreeStreaming", "drift", {"window_size": 2, "persistence": 0.5, "bootstrap_samples": 8, "count_ubound": 1, "_salts": 2}, "alpha", [0.3, 0.14, 0.125, 0.12, 0.05], 8, 9),
    ("LinearFourRates", "drift", {"time_decay_factor": 0.6, "warning_level": 0.3, "burn_in": 1, "num_mc": 20, "_salts": 2}, "detect_level", [0.2, 0.06, 0.05, 0.04, 0.02], 5, 6),
    ("HDDDM", "drift", {"detect_batch": 2, "statistic": "tstat", "subsets": 3, "_salts": 2}, "significance", [0.3, 0.06, 0.05, 0.04, 0.01], 4, 5),
    ("CDBD", "drift", {"detect_batch": 1, "statistic": "stdev", "subsets": 3, "_salts": 2}, "significance", [1, 1.9, 2, 2.1, 3], 4, 5),
    # batches of 600 rows (degrees of freedom beyond 1000, a pooled reference of thousands of rows) with significance
    # levels on both sides of 1/2 - anything that switches to another formula "for large samples" is invisible on 6 rows
    ("HDDDM", "drift", {"detect_batch": 1, "statistic": "tstat", "subsets": 3, "_menu": "large"}, "significance", [0.95, 0.8, 0.5, 0.2, 0.05, 0.001], 4, 5),
    ("CDBD", "drift", {"detect_batch": 2, "statistic": "tstat", "subsets": 3, "_menu": "large"}, "significance", [0.95, 0.8, 0.5, 0.2, 0.05, 0.001], 4, 5),
    ("HDDDM", "drift", {"detect_batch": 3, "statistic": "stdev", "subsets": 3, "_menu": "large", "_container": "DataFrame"}, "significance", [0.1, 0.5, 1, 3], 4, 5),
    ("KdqTreeBatch", "drift", {"bootstrap_samples": 10, "_menu": "large"}, "alpha", [0.6, 0.3, 0.1, 0.01], 3, 3),
    # warning clause: ladder tightest..loosest warning threshold
    # (ladders deliberately cross the drift value: a warning threshold stricter than the drift threshold is legal)
    ("DDM", "warning", {"n_threshold": 2, "drift_scale": 2}, "warning_scale", [3, 2.5, 1.5, 1], 13, 16),
    ("EDDM", "warning", {"n_threshold": 2, "drift_thresh": 0.7}, "warning_thresh", [0.5, 0.6, 0.8, 0.95], 13, 16),
    ("STEPD", "warning", {"window_size": 2, "alpha_drift": 0.1}, "alpha_warning", [0.01, 0.05, 0.3, 0.5], 11, 14),
    ("STEPD", "warning", {"window_size": 3, "alpha_drift": 0.3}, "alpha_warning", [0.05, 0.2, 0.45], 11, 14),
    ("LinearFourRates", "warning", {"time_decay_factor": 0.6, "detect_level": 0.1, "burn_in": 1, "num_mc": 20}, "warning_level", [0.02, 0.05, 0.2, 0.4], 5, 6),
]
# long histories (deviation-bounded: the default history with every choice of <= k positions replaced by another
# symbol, all run to completion) for ladders that end in the legal extreme of the parameter: delta = 0 is documented
# ("0 <= delta <= 1") and is the strictest setting; values such as 1e-300 lie between it and everything else, and the
# cut they imply is only beaten by windows of several dozen samples
# (system, kind, base, parameter, ladder, default history, menu, k quick, k thorough)
LONG = [
    ("ADWIN", "drift", {}, "delta", [1e-3, 1e-12, 1e-100, 1e-300, 0.0], [0] * 64 + [5] * 96, [0, 1, 5], 1, 2),
    ("ADWIN", "drift", {"conservative_bound": True, "_scale": 0.2}, "delta", [1e-3, 1e-12, 1e-100, 1e-300, 0.0], [0] * 64 + [5] * 96, [0, 1, 5], 1, 2),
    ("ADWIN", "drift", {"new_sample_thresh": 8, "window_size_thresh": 4, "subwindow_size_thresh": 2, "max_buckets": 3}, "delta", [1.0, 1e-2, 1e-20, 1e-200, 5e-324, 0.0], [0] * 40 + [5] * 72, [0, 1, 5], 1, 2),
    ("STEPD", "drift", {"window_size": 10, "alpha_warning": 0.05}, "alpha_drift", [0.003, 1e-12, 1e-300, 0.0], [0] * 30 + [1] * 30, [0, 1], 1, 2),
    ("NNDVI", "drift", {"k_nn": 2, "sampling_times": 8}, "alpha", [0.3, 1e-3, 1e-12, 0.0], [0, 0, 1, 2, 0, 3, 1], [0, 1, 2, 3], 1, 2),
    ("HDDDM", "drift", {"detect_batch": 2, "statistic": "tstat", "subsets": 3}, "significance", [0.2, 1e-3, 1e-12, 0.0], [0, 0, 1, 2, 0, 3, 1], [0, 1, 2, 3], 1, 2),
    ("KdqTreeBatch", "drift", {"bootstrap_samples": 10, "count_ubound": 1}, "alpha", [0.3, 1e-3, 1e-12, 0.0], [0, 0, 1, 2, 0, 3], [0, 1, 2, 3], 1, 1),
]
COST = {"KdqTreeBatch": 30, "LinearFourRates": 20, "HDDDM": 10, "CDBD": 8, "NNDVI": 8, "KdqTreeStreaming": 10}


def tasks(tier, seed):
    out = []
    for li, (name, kind, base, param, vals, dq, dt) in enumerate(LADDERS):
        d = DRIVERS[name]
        depth = dq if tier == "quick" else dt
        split = 2 if len(d.alphabet(base)) <= 3 else 1
        for salt in ([None] if "_salts" not in base else list(range(base["_salts"]))):
            cfg = {"id": li, "base": base, "param": param, "values": vals, "kind": kind, "salt": salt}
            for pre in itertools.product(d.alphabet(base), repeat=split):
                out.append(
                    {
                        "system": name,
                        "cfg": cfg,
                        "prefix": list(pre),
                        "depth": depth - split,
                        "label": "%s|%d:%s%s|%s" % (name, li, param, "" if salt is None else "|salt%d" % salt, ",".join(map(str, pre))),
                        "cost": COST.get(name, 1),
                        "validate_every": 211,
                    }
                )
    for li, (name, kind, base, param, vals, default, menu, kq, kt) in enumerate(LONG):
        cfg = {"id": 1000 + li, "base": base, "param": param, "values": vals, "kind": kind, "salt": None}
        out += dev_split(
            {
                "system": name,
                "cfg": cfg,
                "mode": "dev",
                "default": list(default),
                "menu": list(menu),
                "k": kq if tier == "quick" else kt,
                "label": "%s|long%d:%s" % (name, li, param),
                "cost": COST.get(name, 1) * 4,
                "validate_every": 53,
            }
        )
    return out


def REQUIRED(tier):
    req = ["histories_distinguishing_settings", "warning_sets_differ", "warning_clause_drifts"]
    # demanded only where the count cannot depend on VERIF_SEED (the stochastic families are reported, not demanded)
    req += ["distinguished:" + n for n in sorted({l[0] for l in LADDERS if l[1] == "drift"}) if not DRIVERS[n].stochastic]
    return req


def describe(tier):
    return {
        "rule": "per ladder every history of the driver alphabet up to the depth in bounds, all ladder values advanced in "
        "lock-step under the same seed schedule; all ordered (looser, stricter) pairs are judged at once; non-trivial = "
        "history on which at least two settings behave differently",
        "bounds": {
            "ladders": [
                {"detector": l[0], "clause": l[1], "parameter": l[3], "values": l[4], "depth": l[5] if tier == "quick" else l[6], "base": l[2]}
                for l in LADDERS
            ],
            "long_ladders": [
                {"detector": l[0], "clause": l[1], "parameter": l[3], "values": l[4], "base": l[2], "history_length": len(l[5]),
                 "deviations_k": l[7] if tier == "quick" else l[8], "menu": l[6]}
                for l in LONG
            ],
        },
        "explanation": "differential oracle between real objects only; a run stops being advanced after its first drift "
        "(first-drift clause) and a branch ends when every setting has alarmed",
        "assumptions": [
            "same numpy seed before the corresponding call of every ladder member",
            "CUSUM's documented zero-standard-deviation ValueError ends a branch",
        ],
    }
