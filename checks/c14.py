"""C14 — uniform input validation; rejected inputs do no harm; containers don't matter.

Two explorations over the real detectors (DESIGN §4 C14), both twin oracles:

* ``inject-<Detector>`` — fault injection.  A valid base history (every
  sequence of length <= 3 over a 2-symbol menu, extended by a fixed tail that
  contains a drift and, for batch detectors, a ``set_reference``) receives ONE
  malformed call at every position, for every fault kind, every container of
  the malformed call and every container of its two neighbours.  The running
  detector D sees everything, the twin T never sees the malformed call.
  Oracle: (i) the malformed call raises ValueError; (ii) it is not counted and
  leaves the public observables alone; (iii) every later valid call is accepted
  by both and D's observables equal T's bit-for-bit; (iv) "malformed" is
  decided by a tiny specification of what the accepted calls established
  (width by the first accepted input, names by the first accepted DataFrame),
  so the width/name rule is exercised for every order of container types.
* ``equiv-<Detector>`` — container equivalence.  Every assignment of the
  applicable containers to the positions of a valid history must reproduce the
  observation trace of the all-2-D-ndarray run.

Tasks: one per detector x parameter set x base history x default container x
chunk of injection positions (``cfg["pos"]``); the alphabet offers the malformed
calls only at those positions, a non-default container only to the two
neighbours of the malformed call, and every path contains exactly one
malformed call.

Events (JSON): ``["v", sym, container]`` valid call (``sym`` = menu symbol or
``["ref", i]``), ``["f", kind, container]`` malformed call.
"""
import itertools
import math

import numpy as np
import pandas as pd

from mc import rng
from mc.explorer import HarnessError, System, Violation, jsonable
from checks.drivers import BATCH_1D, BATCH_2D, DRIVERS, PCA_POINTS

PROPERTY = "C14"

INJ = ("list", "ndarray", "DataFrame")
NAMES = ["a", "b", "c"]
OTHER = ["x", "y", "z"]
R2_BATCH = "df-width-after-ndarray:BatchDetector"


# ----------------------------------------------------------------------------
# helpers
# ----------------------------------------------------------------------------
def _same(a, b):
    """bit-for-bit equality of JSON-able observation values (NaN == NaN)."""
    if isinstance(a, float) and isinstance(b, float):
        return a == b or (math.isnan(a) and math.isnan(b))
    if isinstance(a, (list, tuple)) and isinstance(b, (list, tuple)):
        return len(a) == len(b) and all(_same(x, y) for x, y in zip(a, b))
    if isinstance(a, dict) and isinstance(b, dict):
        return a.keys() == b.keys() and all(_same(a[k], b[k]) for k in a)
    return (type(a) == type(b) and a == b) or (a is None and b is None)


def pack(arr, cont, names=None, row=False):
    """``arr`` (2-D float array) in the requested container.

    ``row`` = streaming convention: 1-D containers hold the single row;
    otherwise (batch convention) 1-D containers hold the single column."""
    arr = np.array(arr, dtype=float)
    r, c = arr.shape
    if cont == "ndarray":
        return arr.copy()
    if cont == "DataFrame":
        return pd.DataFrame(arr.copy(), columns=list(names or NAMES[:c]))
    if cont == "list2":
        return arr.tolist()
    if cont == "list":
        if row and r == 1:
            return arr[0].tolist()
        return arr.tolist()
    flat = arr[0] if row else arr[:, 0]
    if (row and r != 1) or (not row and c != 1):
        raise HarnessError("container %s cannot hold a %dx%d input" % (cont, r, c))
    if cont == "list1":
        return flat.tolist()
    if cont == "nd1":
        return flat.copy()
    if cont == "Series":
        return pd.Series(flat.copy())
    if cont == "scalar":
        if r != 1 or c != 1:
            raise HarnessError("scalar container needs a 1x1 input")
        return float(arr[0, 0])
    raise HarnessError("unknown container %r" % (cont,))


def pack_y(vals, cont):
    """label observation(s) ``vals`` (list of ints) in the requested container."""
    if cont == "scalar":
        return int(vals[0])
    if cont in ("list", "list1"):
        return [int(v) for v in vals]
    if cont == "nd1":
        return np.array(vals)
    if cont in ("ndarray", "nd2"):
        return np.array(vals).reshape(-1, 1)
    if cont == "Series":
        return pd.Series(vals)
    if cont == "DataFrame":
        return pd.DataFrame({"y": list(vals)})
    raise HarnessError("unknown container %r" % (cont,))


# ----------------------------------------------------------------------------
# adapters: how one detector family is called with a given container
# ----------------------------------------------------------------------------
class Adapter:
    base = "StreamingDetector"
    kind = "stream"
    width = None  # feature width of the valid inputs (None: X is not validated)
    univariate = False
    inj_containers = INJ
    canonical = "ndarray"
    quick_prefix = 3  # quick tier: enumerated prefix length of the base histories (slow detectors: 1)
    thorough_prefix = 3  # thorough tier (slow detectors: 2)
    params = ()
    menu = (0, 1)
    tail = ()
    eq_hist = ()

    def __init__(self, name):
        self.name = name
        self.d = DRIVERS[name]
        self.stochastic = self.d.stochastic

    def make(self, p):
        return self.d.cls(**self.d.ctor(p))

    def bases(self, tier):
        """every sequence of length <= 3 over the menu, extended by the fixed tail."""
        out = []
        for n in range(0, (self.quick_prefix if tier == "quick" else self.thorough_prefix) + 1):
            for s in itertools.product(self.menu, repeat=n):
                b = list(s) + list(self.tail[n:])
                if b not in out:
                    out.append(b)
        return out

    def is_ref(self, sym):
        return isinstance(sym, (list, tuple))

    # -- what an accepted valid call establishes (the specification side) -----
    def establishes(self, sym, cont):
        if self.width is None:
            return None, None
        return self.width, (NAMES[: self.width] if cont == "DataFrame" else None)

    def domain_error(self, exc):
        """documented refusals of VALID input that depend on the detector's state, not on the input's shape."""
        return self.name == "CUSUM" and isinstance(exc, ValueError) and "Standard deviation is 0" in str(exc)

    # -- observables -----------------------------------------------------------
    def public(self, det):
        return jsonable(self.d.obs(det))

    # -- faults ------------------------------------------------------------------
    def faults(self, est, det):
        """[(kind, container)] of the calls that are malformed given ``est``."""
        raise NotImplementedError

    def eq_containers(self, sym):
        raise NotImplementedError


class UniStream(Adapter):
    """ADWIN, CUSUM, PageHinkley: update(X) with one value."""

    width = 1
    univariate = True

    def arr(self, sym):
        return [[float(sym)]]

    def call(self, det, sym, cont, p):
        det.update(pack(self.arr(sym), cont, row=True))

    def faults(self, est, det):
        out = []
        for c in INJ:
            out.append(("two_rows", c))
            out.append(("two_rows_other_width", c))
            out.append(("multicol", c))
        out.append(("two_rows_renamed", "DataFrame"))
        if est["names"] is not None:
            out.append(("renamed", "DataFrame"))
        return out

    def fault(self, det, kind, cont, p):
        if kind == "two_rows":
            X = pack([[1.0], [2.0]], cont, row=True)
        elif kind == "two_rows_other_width":
            X = pack([[1.0, 2.0, 3.0], [4.0, 5.0, 6.0]], cont, row=True)
        elif kind == "multicol":
            X = pack([[1.0, 2.0, 3.0]], cont, row=True)
        elif kind == "two_rows_renamed":
            X = pack([[1.0], [2.0]], cont, names=OTHER[:1], row=True)
        elif kind == "renamed":
            X = pack([[1.0]], cont, names=OTHER[:1], row=True)
        else:
            raise HarnessError(kind)
        det.update(X)

    def eq_containers(self, sym):
        return ["ndarray", "scalar", "list", "nd1", "Series", "DataFrame"]


class YStream(Adapter):
    """DDM, EDDM, STEPD, ADWINAccuracy, LinearFourRates: update(y_true, y_pred)."""

    def labels(self, sym):
        if self.name == "LinearFourRates":
            return divmod(sym, 2)
        return 1, (0 if sym else 1)

    def call(self, det, sym, cont, p):
        yt, yp = self.labels(sym)
        det.update(y_true=pack_y([yt], cont), y_pred=pack_y([yp], cont))

    def faults(self, est, det):
        return [(k, c) for k in ("y_true_multi", "y_pred_multi", "y_both_multi") for c in INJ]

    def fault(self, det, kind, cont, p):
        yt = pack_y([1, 0] if kind in ("y_true_multi", "y_both_multi") else [1], cont)
        yp = pack_y([0, 0] if kind in ("y_pred_multi", "y_both_multi") else [1], cont)
        det.update(y_true=yt, y_pred=yp)

    def eq_containers(self, sym):
        return ["ndarray", "scalar", "list", "nd1", "Series", "DataFrame"]


class MvStream(Adapter):
    """KdqTreeStreaming, PCACD: update(X) with one row of two features."""

    width = 2

    def arr(self, sym):
        if self.name == "PCACD":
            return [PCA_POINTS[sym]]
        return [[float(sym), float(sym % 2)]]

    def call(self, det, sym, cont, p):
        det.update(pack(self.arr(sym), cont, row=True))

    def faults(self, est, det):
        out = []
        for c in INJ:
            out.append(("two_rows", c))
            out.append(("two_rows_other_width", c))
            if est["width"] is not None:
                out.append(("wrong_width", c))
        out.append(("two_rows_renamed", "DataFrame"))
        if est["names"] is not None:
            out.append(("renamed", "DataFrame"))
            # the established labels in another order / one of them repeated: the right width, only known labels,
            # but different names column by column (features are read by position)
            out.append(("reordered", "DataFrame"))
            out.append(("duplicated", "DataFrame"))
        return out

    def fault(self, det, kind, cont, p):
        if kind == "reordered":
            det.update(pack([[1.0, 2.0]], cont, names=[NAMES[1], NAMES[0]], row=True))
            return
        if kind == "duplicated":
            det.update(pack([[1.0, 2.0]], cont, names=[NAMES[0], NAMES[0]], row=True))
            return
        if kind == "two_rows":
            X = pack([[1.0, 2.0], [3.0, 4.0]], cont, row=True)
        elif kind == "two_rows_other_width":
            X = pack([[1.0], [2.0]], cont, row=True)  # the row passed as a column
        elif kind == "wrong_width":
            X = pack([[1.0, 2.0, 3.0]], cont, row=True)
        elif kind == "two_rows_renamed":
            X = pack([[1.0, 2.0], [3.0, 4.0]], cont, names=OTHER[:2], row=True)
        elif kind == "renamed":
            X = pack([[1.0, 2.0]], cont, names=OTHER[:2], row=True)
        else:
            raise HarnessError(kind)
        det.update(X)

    def eq_containers(self, sym):
        return ["ndarray", "list", "nd1", "Series", "DataFrame"]


class Batch(Adapter):
    """HDDDM, KdqTreeBatch, NNDVI (two features), CDBD (one feature).

    The detector is constructed bare; the base history itself starts with the
    reference (``["ref", 0]``), so that position 0 is really the first call."""

    base = "BatchDetector"
    kind = "batch"
    METHODS = ("update", "set_reference")

    def __init__(self, name):
        super().__init__(name)
        self.univariate = name == "CDBD"
        self.width = 1 if self.univariate else 2
        self.menu_data = BATCH_1D if self.univariate else BATCH_2D

    def arr(self, sym):
        return self.menu_data[sym[1] if self.is_ref(sym) else sym]

    def call(self, det, sym, cont, p):
        X = pack(self.arr(sym), cont)
        if self.is_ref(sym):
            det.set_reference(X)
        else:
            det.update(X)

    def bases(self, tier):
        return [[["ref", 0]] + b for b in super().bases(tier)]

    def faults(self, est, det):
        out = []
        for m in self.METHODS:
            for c in INJ:
                out.append(("one_row@" + m, c))
                out.append(("one_row_other_width@" + m, c))
                if self.univariate:
                    out.append(("multicol@" + m, c))
                elif est["width"] is not None:
                    out.append(("wrong_width@" + m, c))
            out.append(("one_row_renamed@" + m, "DataFrame"))
            if est["names"] is not None:
                out.append(("renamed@" + m, "DataFrame"))
                if not self.univariate and self.width >= 2:
                    out.append(("reordered@" + m, "DataFrame"))
                    out.append(("duplicated@" + m, "DataFrame"))
        return out

    def fault(self, det, kind, cont, p):
        kind, method = kind.split("@")
        w = self.width
        full = np.arange(4 * w, dtype=float).reshape(4, w)
        wide = np.arange(12, dtype=float).reshape(4, 3)
        if kind == "one_row":
            X = pack(full[:1], "list2" if cont == "list" else cont)
        elif kind == "one_row_other_width":
            X = pack(wide[:1], "list2" if cont == "list" else cont)
        elif kind in ("wrong_width", "multicol"):
            X = pack(wide, cont)
        elif kind == "one_row_renamed":
            X = pack(full[:1], cont, names=OTHER[:w])
        elif kind == "renamed":
            X = pack(full, cont, names=OTHER[:w])
        elif kind == "reordered":
            X = pack(full, cont, names=list(reversed(NAMES[:w])))
        elif kind == "duplicated":
            X = pack(full, cont, names=[NAMES[0]] * w)
        else:
            raise HarnessError(kind)
        getattr(det, method)(X)

    def eq_containers(self, sym):
        if self.univariate:
            return ["ndarray", "list", "DataFrame", "nd1", "list1", "Series"]
        return ["ndarray", "list", "DataFrame"]

    def public(self, det):
        o = {"state": det.drift_state, "total": int(det.total_batches), "since": int(det.batches_since_reset)}
        if self.name in ("HDDDM", "CDBD"):
            cd = getattr(det, "current_distance", None)
            rn = getattr(det, "reference_n", None)
            o["current_distance"] = None if cd is None else float(cd)
            o["reference_n"] = None if rn is None else int(rn)
            for attr in ("distances", "epsilon_values", "thresholds"):
                o[attr] = {int(k): float(v) for k, v in getattr(det, attr).items()}
        return jsonable(o)


class NNDVIBatch(Batch):
    def public(self, det):
        o = {"state": det.drift_state, "total": int(det.total_batches), "since": int(det.batches_since_reset)}
        rb = getattr(det, "reference_batch", None)
        o["reference_batch"] = None if rb is None else np.asarray(rb).tolist()
        return jsonable(o)


class MD3Adapter(Adapter):
    """MD3 (legacy base class): only what its own API validates — one record per
    ``update`` / ``give_oracle_label`` and the column set of a labelled sample."""

    base = "DriftDetector"
    inj_containers = ("DataFrame",)
    canonical = "DataFrame"

    def make(self, p):
        return self.d.make(p)

    def call(self, det, sym, cont, p):
        names = ("l_ok", "l_bad") if det.waiting_for_oracle else ("u_in", "u_out")
        self.d.feed(det, names[sym], p)

    def faults(self, est, det):
        if det.waiting_for_oracle:
            return [(k, "DataFrame") for k in ("two_rows@label", "renamed@label", "extra_column@label", "missing_column@label")]
        return [("two_rows@update", "DataFrame")]

    def fault(self, det, kind, cont, p):
        thr = det.classifier.thr_
        if kind == "two_rows@update":
            det.update(pd.DataFrame({"x0": [thr + 0.1, thr + 5.0], "x1": [0.0, 0.0]}))
        elif kind == "two_rows@label":
            det.give_oracle_label(pd.DataFrame({"x0": [thr + 1.0, thr - 1.0], "x1": [1.0, 1.0], "y": [1, 0]}))
        elif kind == "renamed@label":
            det.give_oracle_label(pd.DataFrame({"z0": [thr + 1.0], "x1": [1.0], "y": [1]}))
        elif kind == "extra_column@label":
            det.give_oracle_label(pd.DataFrame({"x0": [thr + 1.0], "x1": [1.0], "x2": [0.0], "y": [1]}))
        elif kind == "missing_column@label":
            det.give_oracle_label(pd.DataFrame({"x0": [thr + 1.0], "y": [1]}))
        else:
            raise HarnessError(kind)

    def public(self, det):
        o = self.d.obs(det)
        o["oracle_rows"] = 0 if det.oracle_data is None else int(len(det.oracle_data))
        return jsonable(o)


def _mk(cls, name, **kw):
    a = cls(name)
    for k, v in kw.items():
        setattr(a, k, v)
    return a


_ADWIN_P = {"delta": 1.0, "max_buckets": 2, "new_sample_thresh": 1, "window_size_thresh": 0, "subwindow_size_thresh": 1}

ADAPTERS = {
    a.name: a
    for a in (
        _mk(YStream, "DDM", params=[{"n_threshold": 2, "warning_scale": 0.5, "drift_scale": 1.5},
                                    {"n_threshold": 3, "warning_scale": 1, "drift_scale": 2}],
            menu=(0, 1), tail=[0, 0, 1, 0, 1], eq_hist=[[0, 0, 1, 1], [1, 0, 0, 0]]),
        _mk(YStream, "EDDM", params=[{"n_threshold": 1, "warning_thresh": 0.95, "drift_thresh": 0.9}],
            menu=(0, 1), tail=[1, 0, 1, 1, 0, 1], eq_hist=[[1, 0, 1, 1], [0, 1, 1, 0]]),
        _mk(YStream, "STEPD", params=[{"window_size": 1, "alpha_warning": 0.5, "alpha_drift": 0.49},
                                      {"window_size": 2, "alpha_warning": 0.3, "alpha_drift": 0.1}],
            menu=(0, 1), tail=[0, 0, 1, 0, 1, 1], eq_hist=[[0, 0, 1, 0], [0, 1, 1, 1]]),
        _mk(YStream, "ADWINAccuracy", params=[_ADWIN_P],
            menu=(0, 1), tail=[0, 0, 0, 0, 1, 1, 1, 1, 1, 1, 1, 0], eq_hist=[[0, 0, 1, 1], [1, 0, 1, 0]]),
        _mk(YStream, "LinearFourRates", params=[{"time_decay_factor": 0.7, "warning_level": 0.4, "detect_level": 0.1, "burn_in": 2, "num_mc": 8, "subsample": 1}],
            menu=(0, 1), tail=[0, 0, 1, 3, 0, 1], eq_hist=[[0, 0, 1, 3], [3, 0, 1, 2]]),
        _mk(UniStream, "ADWIN", params=[_ADWIN_P, {"delta": 0.3, "max_buckets": 5, "new_sample_thresh": 1, "window_size_thresh": 2, "subwindow_size_thresh": 2, "conservative_bound": True}],
            menu=(0, 5), tail=[0, 0, 5, 0, 5], eq_hist=[[0, 5, 0, 0], [5, 5, 0, 5]]),
        _mk(UniStream, "CUSUM", params=[{"target": 0, "sd_hat": 1, "burn_in": 2, "delta": 0.5, "threshold": 1},
                                        {"target": 1, "sd_hat": 2, "burn_in": 3, "delta": 0, "threshold": 2, "direction": "positive"}],
            menu=(0, 4), tail=[0, 1, 4, 0, 4, 1], eq_hist=[[0, 1, 4, 0], [0, 4, 4, 1]]),
        _mk(UniStream, "PageHinkley", params=[{"delta": 0.0, "threshold": 1, "burn_in": 0}],
            menu=(1, 4), tail=[1, 1, 4, 1, 4, 4], eq_hist=[[1, 1, 4, 4], [1, 1, 1, 4]]),
        _mk(MvStream, "KdqTreeStreaming", params=[{"window_size": 2, "persistence": 0.0, "alpha": 0.6, "bootstrap_samples": 4, "count_ubound": 1}],
            menu=(0, 5), tail=[0, 5, 0, 0, 0, 5], eq_hist=[[0, 5, 0, 0]]),
        _mk(MvStream, "PCACD", params=[{"window_size": 4, "sample_period": 0.25, "divergence_metric": "kl", "delta": 0.0, "ev_threshold": 0.99},
                                       {"window_size": 4, "sample_period": 0.25, "divergence_metric": "intersection", "delta": 0.0, "ev_threshold": 0.99}],
            menu=(0, 1), tail=[0, 1, 0, 2, 0, 1, 2, 3, 3, 3, 0, 1], eq_hist=[[0, 1, 2, 0]]),
        _mk(Batch, "HDDDM", params=[{"detect_batch": 1, "statistic": "stdev", "significance": 0.5, "subsets": 3},
                                    {"detect_batch": 2, "statistic": "tstat", "significance": 0.5, "subsets": 3}],
            menu=(0, 1), tail=[0, 1, ["ref", 1], 1, 0], eq_hist=[[["ref", 0], 0, 1, 1]]),
        _mk(Batch, "CDBD", params=[{"detect_batch": 1, "statistic": "stdev", "significance": 0.5, "subsets": 3},
                                   {"detect_batch": 2, "statistic": "tstat", "significance": 0.5, "subsets": 3}],
            menu=(0, 1), tail=[0, 1, ["ref", 1], 1, 0], eq_hist=[[["ref", 0], 0, 1, 1]]),
        _mk(Batch, "KdqTreeBatch", params=[{"alpha": 0.6, "bootstrap_samples": 4, "count_ubound": 2}, {"alpha": 0.3, "bootstrap_samples": 6, "count_ubound": 1}],
            menu=(0, 1), tail=[0, 1, ["ref", 1], 1, 0], eq_hist=[[["ref", 0], 0, 1, 1]]),
        _mk(NNDVIBatch, "NNDVI", params=[{"k_nn": 2, "sampling_times": 8, "alpha": 0.3}],
            menu=(0, 1), tail=[0, 1, ["ref", 1], 1, 0], eq_hist=[[["ref", 0], 0, 1, 1]]),
        _mk(MD3Adapter, "MD3", params=[{"sensitivity": 0.5, "k": 2, "oracle_data_length_required": 2}],
            menu=(0, 1), tail=[0, 1, 1, 1, 0, 1, 1], eq_hist=[]),
    )
}


# ----------------------------------------------------------------------------
# fault injection
# ----------------------------------------------------------------------------
class Inject(System):
    def __init__(self, ad):
        self.ad = ad
        self.name = "inject-" + ad.name

    def init(self, cfg):
        p = cfg["params"]
        rng.seed_step(0, self.name, cfg["id"], "init")
        D = self.ad.make(p)
        rng.seed_step(0, self.name, cfg["id"], "init")
        T = self.ad.make(p)
        return {
            "D": D,
            "T": T,
            "k": 0,  # valid calls made so far = index of the next base event
            "faulted": False,
            "must_fault": False,
            "after": 0,  # valid calls made since the malformed one
            "est": {"width": None, "names": None},
            "prev_ref": False,
            "site": None,
        }

    def alphabet(self, cfg, state, pos):
        base, c0 = cfg["base"], cfg["c0"]
        k = state["k"]
        conts = self.ad.inj_containers
        if state["faulted"]:
            if k >= len(base):
                return []
            if state["after"] == 0:
                return [["v", base[k], c] for c in conts]
            return [["v", base[k], c0]]
        lo, hi = cfg.get("pos") or (0, len(base))  # injection positions handled by this task
        evs = []
        if not state["must_fault"] and k < len(base) and k + 1 <= hi:
            # c0: the history goes on; any other container: this is the left neighbour of the malformed call
            evs += [["v", base[k], c] for c in conts if c == c0 or k + 1 >= lo]
        if lo <= k <= hi:
            evs += [["f", kind, c] for kind, c in self.ad.faults(state["est"], state["D"])]
        return evs

    # -- call-site class of a malformed call (signature of what it causes) -------
    def site(self, kind, cont, state):
        est = state["est"]
        width_only = kind.split("@")[0] in ("wrong_width", "multicol")
        if width_only and cont == "DataFrame" and est["names"] is None and est["width"] is not None:
            return "df-width-after-ndarray:" + self.ad.base
        return "%s/%s/%s:%s" % (kind, cont, "first" if state["k"] == 0 else "later", self.ad.base)

    @staticmethod
    def _sig(sub, site):
        return site if site == R2_BATCH else sub + ":" + site

    def step(self, cfg, state, ev, pos, ctx):
        if ev[0] == "v":
            return self._valid(cfg, state, ev, ctx)
        return self._fault(cfg, state, ev, ctx)

    def _seed(self, cfg, state, ctx):
        # a malformed call is made under the seed of the valid call it precedes, so a
        # post-drift re-initialisation draws the same numbers whichever call performs it
        if self.ad.stochastic:
            rng.seed_step(ctx.seed, self.ad.name, cfg["id"], state["k"])

    def _valid(self, cfg, state, ev, ctx):
        ad, p = self.ad, cfg["params"]
        _, sym, cont = ev
        D, T = state["D"], state["T"]
        d_exc = t_exc = None
        self._seed(cfg, state, ctx)
        try:
            ad.call(D, sym, cont, p)
        except Exception as e:  # noqa: BLE001
            d_exc = e
        self._seed(cfg, state, ctx)
        try:
            ad.call(T, sym, cont, p)
        except Exception as e:  # noqa: BLE001
            t_exc = e
        what = "%s call #%d (%s as %s)" % (ad.name, state["k"], "set_reference" if ad.is_ref(sym) else "update", cont)
        t_dom = t_exc is not None and ad.domain_error(t_exc)
        d_dom = d_exc is not None and ad.domain_error(d_exc)
        if t_dom and d_dom:
            # a documented, state-dependent refusal that has nothing to do with the shape of the input
            # (CUSUM: "standard deviation is 0" after re-estimating from the last burn_in values)
            ctx.terminal = True
            ctx.count("agreed_domain_error:" + ad.name)
            return {"exception": type(t_exc).__name__, "domain_error": True}
        if t_dom or d_dom:
            if not state["faulted"]:
                raise HarnessError("HARNESS-NONDET: two identical runs of %s differ (%r vs %r)" % (ad.name, d_exc, t_exc))
            raise Violation(
                "later-differs",
                "%s: after the rejected malformed call (%s) the valid %s %s but the twin that never saw the malformed "
                "call %s" % (ad.name, state["site"], what, "raised %r" % d_exc if d_exc else "was accepted",
                             "raised %r" % t_exc if t_exc else "accepted it"),
                expected=repr(t_exc), observed=repr(d_exc), sig=self._sig("later-differs", state["site"]),
            )
        if t_exc is not None:
            raise Violation(
                "valid-call-rejected",
                "%s: a detector that had only ever received valid input raised %r on valid %s" % (ad.name, t_exc, what),
                expected="accepted", observed=repr(t_exc),
                sig="valid-call-rejected:%s:%s:%s" % (ad.name, cont, type(t_exc).__name__),
            )
        if d_exc is not None:
            raise Violation(
                "later-valid-rejected",
                "%s: after the rejected malformed call (%s) the valid %s raised %r; the twin that never saw the "
                "malformed call accepted it" % (ad.name, state["site"], what, d_exc),
                expected="accepted", observed=repr(d_exc),
                sig=self._sig("later-valid-rejected", state["site"]),
            )
        od, ot = ad.public(D), ad.public(T)
        if state.get("pending") and not ad.is_ref(sym):
            state["pending"] = False
        if state.get("pending"):
            # the rejected call performed the pending post-drift re-initialisation early and no update has been
            # accepted since: the twin still shows the old drift flag / since-reset counter until its next update
            ot = dict(ot, state=od["state"], since=od["since"])
            ctx.count("set_reference_compared_while_reset_pending")
        if not _same(od, ot):
            bad = sorted(k for k in set(od) | set(ot) if not _same(od.get(k), ot.get(k)))
            if not state["faulted"]:
                raise HarnessError("HARNESS-NONDET: two identical runs of %s differ on %s" % (ad.name, bad))
            raise Violation(
                "later-differs",
                "%s: %d valid call(s) after the rejected malformed call (%s) the observables %s differ from the twin "
                "that never saw it (%s)" % (ad.name, state["after"] + 1, state["site"], bad, what),
                expected={k: ot.get(k) for k in bad}, observed={k: od.get(k) for k in bad},
                sig=self._sig("later-differs", state["site"]),
            )
        w, names = ad.establishes(sym, cont)
        est = state["est"]
        if est["width"] is None:
            est["width"] = w
        if est["names"] is None and names is not None:
            est["names"] = names
        if state["faulted"]:
            state["after"] += 1
            ctx.count("later_accepted_calls_compared")
            ctx.count("later_compared:" + ad.name)
            if state["after"] == 1:
                ctx.count("next_container:" + cont)
        elif cont != cfg["c0"]:
            state["must_fault"] = True
        state["k"] += 1
        state["prev_ref"] = ad.is_ref(sym)
        if od["state"] == "drift":
            ctx.count("drift_in_valid_history")
        return od

    def _fault(self, cfg, state, ev, ctx):
        ad, p = self.ad, cfg["params"]
        _, kind, cont = ev
        D = state["D"]
        k = state["k"]
        site = self.site(kind, cont, state)
        before = ad.public(D)
        exc = None
        self._seed(cfg, state, ctx)
        try:
            ad.fault(D, kind, cont, p)
        except HarnessError:
            raise
        except Exception as e:  # noqa: BLE001
            exc = e
        try:
            after = ad.public(D)
        except Exception as e:  # noqa: BLE001
            after = {"unobservable": repr(e)}
        est = state["est"]
        ctxt = "%s, malformed call '%s' as %s at position %d (established so far: width %s, names %s)" % (
            ad.name, kind, cont, k, est["width"], est["names"])
        moved = {x: [before.get(x), after.get(x)] for x in ("total", "since", "state") if before.get(x) != after.get(x)}
        if exc is None:
            raise Violation(
                "malformed-accepted",
                "%s was accepted (no exception)%s" % (ctxt, "; counters/state moved: %s" % moved if moved else ""),
                expected="ValueError", observed={"exception": None, "moved": moved},
                sig=self._sig("malformed-accepted", site),
            )
        if not isinstance(exc, ValueError):
            raise Violation(
                "malformed-wrong-exception",
                "%s raised %s instead of ValueError: %s%s" % (ctxt, type(exc).__name__, str(exc)[:120], "; counters/state moved: %s" % moved if moved else ""),
                expected="ValueError", observed={"exception": repr(exc)[:200], "moved": moved},
                sig=self._sig("malformed-raised-%s" % type(exc).__name__, site),
            )
        pending = before["state"] == "drift"
        if after.get("total") != before["total"] and not pending:
            raise Violation(
                "rejected-call-counted",
                "%s raised ValueError but was counted: %s" % (ctxt, moved),
                expected=before, observed=after, sig=self._sig("rejected-call-counted", site),
            )
        if not _same(after, before):
            if pending:
                # the detector performed its pending post-drift re-initialisation before validating;
                # what that means for later calls is judged by (iii)
                ctx.count("rejections_that_performed_pending_reset")
                state["pending"] = True
            else:
                bad = sorted(x for x in set(before) | set(after) if not _same(before.get(x), after.get(x)))
                raise Violation(
                    "rejected-call-changed-state",
                    "%s raised ValueError but changed the public observables %s" % (ctxt, bad),
                    expected={x: before.get(x) for x in bad}, observed={x: after.get(x) for x in bad},
                    sig=self._sig("rejected-call-changed-state", site),
                )
        L = len(cfg["base"])
        ctx.mark("rejections")
        ctx.count("rejected_at_first_call" if k == 0 else ("rejected_at_end" if k == L else "rejected_in_middle"))
        if before["state"] == "drift":
            ctx.count("rejected_right_after_drift")
            ctx.count("rejected_right_after_drift:" + ad.name)
        if before["state"] == "warning":
            ctx.count("rejected_in_warning_state")
        if state["prev_ref"]:
            ctx.count("rejected_right_after_set_reference")
            ctx.count("rejected_right_after_set_reference:" + ad.name)
        ctx.count("kind:" + kind.split("@")[0])
        if "@" in kind:
            ctx.count("method:" + kind.split("@")[1])
        ctx.count("container:" + cont)
        ctx.count("rejections:" + ad.name)
        if est["width"] is not None and kind.split("@")[0] in ("wrong_width", "multicol"):
            ctx.count("width_rule:%s_after_%s" % (cont, "DataFrame" if est["names"] is not None else "array"))
        if kind.split("@")[0] in ("renamed", "reordered", "duplicated"):
            ctx.count("name_rule_rejections")
        state["faulted"] = True
        state["site"] = site
        state["after"] = 0
        o = dict(after)
        o["rejected"] = kind
        return o


# ----------------------------------------------------------------------------
# container equivalence
# ----------------------------------------------------------------------------
class Equiv(System):
    def __init__(self, ad):
        self.ad = ad
        self.name = "equiv-" + ad.name

    def init(self, cfg):
        rng.seed_step(0, self.name, cfg["id"], "init")
        return {"D": self.ad.make(cfg["params"]), "ref": None}

    def alphabet(self, cfg, state, pos):
        h = cfg["hist"]
        if pos >= len(h):
            return []
        return [["v", h[pos], c] for c in self.ad.eq_containers(h[pos])]

    def _reference(self, cfg, seed):
        ad, p = self.ad, cfg["params"]
        rng.seed_step(0, self.name, cfg["id"], "init")
        R = ad.make(p)
        out = []
        for i, sym in enumerate(cfg["hist"]):
            if ad.stochastic:
                rng.seed_step(seed, ad.name, cfg["id"], i)
            ad.call(R, sym, ad.canonical, p)
            out.append(ad.public(R))
        return out

    def step(self, cfg, state, ev, pos, ctx):
        ad, p = self.ad, cfg["params"]
        if state["ref"] is None:
            state["ref"] = self._reference(cfg, ctx.seed)
        _, sym, cont = ev
        D = state["D"]
        if ad.stochastic:
            rng.seed_step(ctx.seed, ad.name, cfg["id"], pos)
        try:
            ad.call(D, sym, cont, p)
        except Exception as e:  # noqa: BLE001
            raise Violation(
                "container-rejected",
                "%s: valid call #%d (%s) passed as %s raised %r; the same values as 2-D ndarray are accepted"
                % (ad.name, pos, "set_reference" if ad.is_ref(sym) else "update", cont, e),
                expected="accepted", observed=repr(e),
                sig="container-rejected:%s:%s:%s" % (ad.name, cont, type(e).__name__),
            )
        od, exp = ad.public(D), state["ref"][pos]
        if not _same(od, exp):
            bad = sorted(k for k in set(od) | set(exp) if not _same(od.get(k), exp.get(k)))
            raise Violation(
                "container-differs",
                "%s: observables %s after call #%d differ from the all-ndarray run (this call passed as %s)" % (ad.name, bad, pos, cont),
                expected={k: exp.get(k) for k in bad}, observed={k: od.get(k) for k in bad},
                sig="container-differs:%s:%s" % (ad.name, cont),
            )
        ctx.count("equiv_compared_steps")
        ctx.count("equiv_container:" + cont)
        if cont != ad.canonical:
            ctx.mark("equiv_noncanonical_calls")
        if od["state"] == "drift":
            ctx.count("equiv_drift_steps")
            ctx.count("equiv_drift_steps:" + ad.name)
        return od


SYSTEMS = {}
for _a in ADAPTERS.values():
    SYSTEMS["inject-" + _a.name] = Inject(_a)
    if _a.eq_hist:
        SYSTEMS["equiv-" + _a.name] = Equiv(_a)

for _n in ("KdqTreeStreaming", "KdqTreeBatch", "HDDDM", "CDBD", "NNDVI", "PCACD"):
    ADAPTERS[_n].quick_prefix = 1
    ADAPTERS[_n].thorough_prefix = 2

SLOW = {"KdqTreeStreaming": 30, "KdqTreeBatch": 60, "HDDDM": 30, "CDBD": 20, "NNDVI": 10, "PCACD": 20, "LinearFourRates": 8, "MD3": 10}


def _params(ad, tier):
    return ad.params if tier == "thorough" else ad.params[:1]


def tasks(tier, seed):
    out = []
    for name, ad in ADAPTERS.items():
        if name == "MD3":
            defaults = ("DataFrame",)
        elif tier != "thorough":
            defaults = ("ndarray",)
        elif ad.quick_prefix < 3:  # slow detectors
            defaults = ("ndarray", "DataFrame")
        else:
            defaults = ("ndarray", "DataFrame", "list")
        for pi, p in enumerate(_params(ad, tier)):
            for bi, base in enumerate(ad.bases(tier)):
                L = len(base)
                n = 1 if name.startswith("Kdq") else 2 if name in SLOW else 3 if L > 6 else L + 1
                chunks = [(i, min(i + n - 1, L)) for i in range(0, L + 1, n)]
                for c0 in defaults:
                    for lo, hi in chunks:
                        out.append({
                            "system": "inject-" + name,
                            "cfg": {"id": pi, "params": p, "base": base, "c0": c0, "pos": [lo, hi]},
                            "prefix": [],
                            "depth": L + 1,
                            "label": "inject-%s|%d|base%d|%s|pos%d-%d" % (name, pi, bi, c0, lo, hi),
                            "cost": SLOW.get(name, 1) * L,
                            "validate_every": 97,
                        })
            for hi, h in enumerate(ad.eq_hist):
                cs = ad.eq_containers(h[0])
                for c in cs:
                    out.append({
                        "system": "equiv-" + name,
                        "cfg": {"id": pi, "params": p, "hist": h},
                        "prefix": [["v", h[0], c]],
                        "depth": len(h) - 1,
                        "label": "equiv-%s|%d|hist%d|%s" % (name, pi, hi, c),
                        "cost": SLOW.get(name, 1),
                        "validate_every": 97,
                    })
    return out


_DRIFTERS = [n for n in ADAPTERS]
_KINDS = ["two_rows", "two_rows_other_width", "two_rows_renamed", "one_row", "one_row_other_width", "one_row_renamed",
          "wrong_width", "multicol", "renamed", "y_true_multi", "y_pred_multi", "y_both_multi",
          "extra_column", "missing_column", "reordered", "duplicated"]

TIME_BUDGET = {"quick": 1800, "thorough": 9000}  # safety net for a heavily shared machine; ~25 CPU-s/core quick

REQUIRED = (
    ["rejections", "rejected_at_first_call", "rejected_in_middle", "rejected_at_end", "rejected_right_after_drift",
     "rejected_right_after_set_reference", "later_accepted_calls_compared", "name_rule_rejections",
     "width_rule:list_after_array", "width_rule:ndarray_after_array", "width_rule:ndarray_after_DataFrame",
     "width_rule:list_after_DataFrame", "width_rule:DataFrame_after_DataFrame",
     "method:update", "method:set_reference", "equiv_compared_steps", "equiv_drift_steps"]
    + ["kind:" + k for k in _KINDS]
    + ["container:" + c for c in INJ]
    + ["next_container:" + c for c in INJ]
    + ["equiv_container:" + c for c in ("scalar", "list", "nd1", "ndarray", "Series", "DataFrame", "list1")]
    + ["rejections:" + n for n in ADAPTERS]
    + ["later_compared:" + n for n in ADAPTERS]
    + ["rejected_right_after_drift:" + n for n in _DRIFTERS]
    + ["rejected_right_after_set_reference:" + n for n, a in ADAPTERS.items() if a.kind == "batch"]
)


def describe(tier):
    return {
        "rule": "inject-*: per detector and parameter set, every base history (all sequences of length <= 3 over a "
        "2-symbol menu + fixed tail) x ONE malformed call at every position 0..L x every applicable fault kind x "
        "container of the malformed call x container of its left and right neighbour (other valid calls use the "
        "default container: ndarray in quick; ndarray, DataFrame and (fast detectors) list in thorough); equiv-*: every assignment "
        "of the applicable containers to the positions of the listed valid histories; non-trivial = history with a "
        "rejected malformed call resp. a non-ndarray container",
        "bounds": {
            "base_history_length": {n: len(a.bases(tier)[0]) for n, a in ADAPTERS.items()},
            "base_histories": {n: len(a.bases(tier)) for n, a in ADAPTERS.items()},
            "parameter_sets": {n: len(_params(a, tier)) for n, a in ADAPTERS.items()},
            "injection_containers": {n: list(a.inj_containers) for n, a in ADAPTERS.items()},
            "equivalence_containers": {n: a.eq_containers(a.eq_hist[0][0]) for n, a in ADAPTERS.items() if a.eq_hist},
            "equivalence_histories": {n: a.eq_hist for n, a in ADAPTERS.items() if a.eq_hist},
        },
        "explanation": "twin oracle between two real objects: D receives the malformed call, T never does; compared "
        "bit-for-bit after every later valid call: drift_state, both counters, retraining_recs, mean/variance (ADWIN), "
        "accuracies (STEPD), Page-Hinkley to_dataframe(), HDM current_distance/reference_n/distances/epsilon_values/"
        "thresholds, PCACD num_pcs, NNDVI reference_batch, MD3 margin density/waiting flag/oracle rows. A call is "
        "malformed relative to a 2-field specification state (width fixed by the first accepted input, names by the "
        "first accepted DataFrame); a rejected call establishes nothing.",
        "assumptions": [
            "a malformed call made while drift_state == 'drift' may perform the detector's pending post-drift "
            "re-initialisation before it is rejected (most update() methods reset first and validate second); the "
            "snapshot right after such a rejection is not judged (counted as rejections_that_performed_pending_reset), "
            "its consequences are judged by the comparison of all later calls with the twin; until the next accepted "
            "update the twin still shows the old drift flag / since-reset counter, so set_reference calls made in "
            "between are compared on everything except these two fields",
            "CUSUM's documented refusal 'Standard deviation is 0' (raised identically by detector and twin on a valid "
            "value after a re-estimation from constant data) ends a history and is not judged",
            "numpy's global RNG is re-seeded before every call of a stochastic detector with a seed derived from the "
            "number of valid calls made so far; the malformed call runs under the seed of the valid call it precedes",
            "MD3 is exercised only for what its own API validates (one record per update / give_oracle_label, column "
            "set of a labelled sample); its protocol errors belong to C19",
            "X passed to detectors that ignore it (DDM, EDDM, STEPD, LFR, ADWINAccuracy) and y passed to detectors that "
            "ignore it are not validated by the library and are not injected",
        ],
    }
