"""C14 — uniform input validation; rejected inputs do no harm; containers don't matter.

Explorations over the real detectors (DESIGN §4 C14), all twin / differential oracles:

* ``inject-<Detector>`` — fault injection.  A valid base history (every
  sequence of length <= 3 over a 2-symbol menu, extended by a fixed tail that
  contains a drift and, for batch detectors, a ``set_reference``) receives ONE
  malformed call at every position, for every fault kind, every container of
  the malformed call and every container of its two neighbours.  The running
  detector D sees everything, the twin T never sees the malformed call.
  Oracle: (i) the malformed call raises ValueError; (ii) it is not counted and
  leaves the public observables alone; (iii) every later valid call is accepted
  by both and D's observables equal T's bit-for-bit; (iv) "malformed" is
  decided by a tiny specification of what the accepted calls established
  (width by the first accepted input, names by the first accepted DataFrame),
  so the width/name rule is exercised for every order of container types.
* ``equiv-<Detector>`` — container equivalence.  Every assignment of the
  applicable containers to the positions of a valid history must reproduce the
  observation trace of the all-2-D-ndarray run.

* ``inject-SEns-*`` / ``inject-BEns-*`` (round 3b) -- the same fault injection for ensembles.  A
  StreamingEnsemble / BatchEnsemble is a detector of the respective base class; a call that one of its members
  refuses must leave no trace in the ensemble's verdict and counters, in any member, or (through the outputs of
  later accepted calls) in the state of its election.  Families: one column per member through positional
  selectors (SEns-cols, BEns-cols), all members on the same input without selectors (SEns-one, BEns-all: the width
  and univariate rules apply), a member that reads X next to one that reads the labels in both orders (SEns-xy);
  elections: ConfirmedElection with several (sensitivity, wait_time), simple majority, minimum and ordered
  approval.  The histories make members alarm at different times so that the malformed call falls inside the
  waiting periods of a ConfirmedElection.
* ``reuse-<Detector>`` (round 3b) -- container equivalence for caller-owned containers that are REUSED: the caller
  keeps one preallocated object per role and shape (2-D / 1-D ndarray, Series, DataFrame, flat / nested list; several
  dtypes) and overwrites it in place before every call in which it is used.  Every assignment of {fresh 2-D
  ndarray, the reused object} to the positions of a valid history must reproduce the trace of the all-fresh run
  of the same dtype.  Each of the 2^L assignments is executed from scratch (``reuse_enum``): deep-copied snapshots
  would cut the link between a detector and the caller's buffer that this family looks for.

* ``inject-shape-<Detector>`` (round 4) -- the inject-* scheme and oracle for the LAYOUTS in which a wrong number of
  observations / values can arrive: labels with 2, 3, 4 or 0 observations as flat / column / row / nested / list-of-arrays /
  3-D / 2 x 2 containers (list, tuple, ndarray, Series, DataFrame; ``Y_SHAPES``), in y_true, y_pred or both; X with
  3 or 0 rows, rows given as tuples or lists of arrays, the wrong number of values in 1-D containers, a bare value
  to a multivariate or a batch detector, a univariate batch given as one row.  The valid neighbours of the
  malformed call arrive as bare numbers / 0-dimensional arrays / tuples / nested lists (``shape_neighbours``).
* ``equivx-<Detector>`` (round 4) -- container equivalence for numpy scalars, 0-dimensional ndarrays, tuples, nested
  lists / tuples and lists of arrays (``eqx_containers``).

* ``readout-<Detector>`` (round 5) -- a read-out (every property / public attribute, every public argument-free method,
  ``to_plotly_dataframe`` with and without arguments) called at any position of a valid history: the observables stay, later
  valid calls (the next one in every container) are accepted and equal the never-read twin's, a malformed call right after
  the read-out is refused without trace.
* ``shared-<P>+<Q>`` (round 5) -- two detectors (same / different class, same / different width; streaming pairs, batch
  pairs) with DIFFERENT established column names live in one process; the caller hands ONE frame (same object / same
  columns Index / copy) to both, in both orders: the owner accepts, the other refuses without trace; each is judged by a
  solo run of its own history in a pristine process state.

Tasks: one per detector x parameter set x base history x default container x
chunk of injection positions (``cfg["pos"]``); the alphabet offers the malformed
calls only at those positions, a non-default container only to the two
neighbours of the malformed call, and every path contains exactly one
malformed call.

Events (JSON): ``["v", sym, container]`` valid call (``sym`` = menu symbol or
``["ref", i]``), ``["f", kind, container]`` malformed call.
"""
import itertools
import math
import time
from collections import Counter

import numpy as np
import pandas as pd

from mc import rng
from mc.explorer import Ctx, HarnessError, System, Violation, artefact, jsonable, run_path
from checks.drivers import BATCH_1D, BATCH_2D, DRIVERS, PCA_POINTS

from menelaus.change_detection import ADWIN as _ADWIN, PageHinkley as _PH
from menelaus.concept_drift import DDM as _DDM
from menelaus.data_drift import CDBD as _CDBD, HDDDM as _HDDDM, NNDVI as _NNDVI
from menelaus.ensemble import (BatchEnsemble, ConfirmedElection, MinimumApprovalElection, OrderedApprovalElection,
                               SimpleMajorityElection, StreamingEnsemble)

PROPERTY = "C14"

INJ = ("list", "ndarray", "DataFrame")
NAMES = ["a", "b", "c"]
OTHER = ["x", "y", "z"]
R2_BATCH = "df-width-after-ndarray:BatchDetector"


# ----------------------------------------------------------------------------
# helpers
# ----------------------------------------------------------------------------
def _same(a, b):
    """bit-for-bit equality of JSON-able observation values (NaN == NaN)."""
    if isinstance(a, float) and isinstance(b, float):
        return a == b or (math.isnan(a) and math.isnan(b))
    if isinstance(a, (list, tuple)) and isinstance(b, (list, tuple)):
        return len(a) == len(b) and all(_same(x, y) for x, y in zip(a, b))
    if isinstance(a, dict) and isinstance(b, dict):
        return a.keys() == b.keys() and all(_same(a[k], b[k]) for k in a)
    return (type(a) == type(b) and a == b) or (a is None and b is None)


def pack(arr, cont, names=None, row=False):
    """``arr`` (2-D float array) in the requested container.

    ``row`` = streaming convention: 1-D containers hold the single row;
    otherwise (batch convention) 1-D containers hold the single column."""
    arr = np.array(arr, dtype=float)
    r, c = arr.shape
    if cont == "ndarray":
        return arr.copy()
    if cont == "DataFrame":
        return pd.DataFrame(arr.copy(), columns=list(names or NAMES[:c]))
    if cont == "list2":
        return arr.tolist()
    if cont == "tuple2":
        return tuple(tuple(x) for x in arr.tolist())
    if cont == "list.of-nd":
        return [x.copy() for x in arr]
    if cont == "list":
        if row and r == 1:
            return arr[0].tolist()
        return arr.tolist()
    flat = arr[0] if row else arr[:, 0]
    if (row and r != 1) or (not row and c != 1):
        raise HarnessError("container %s cannot hold a %dx%d input" % (cont, r, c))
    if cont == "list1":
        return flat.tolist()
    if cont == "nd1":
        return flat.copy()
    if cont == "Series":
        return pd.Series(flat.copy())
    if cont == "tuple":
        return tuple(flat.tolist())
    if cont in ("scalar", "npscalar", "nd0"):
        if r != 1 or c != 1:
            raise HarnessError("scalar container needs a 1x1 input")
        # python number / numpy scalar / 0-dimensional ndarray
        return float(arr[0, 0]) if cont == "scalar" else np.float64(arr[0, 0]) if cont == "npscalar" else np.array(arr[0, 0])
    raise HarnessError("unknown container %r" % (cont,))


# round 4: every SHAPE in which label(s) can arrive.  "<container>.<layout>"; the number of observations is the length of
# ``vals`` (0 = an empty container of that layout)
def y_shape(form, vals):
    a = np.array([int(v) for v in vals], dtype=np.int64)
    k = len(a)
    if form == "list.flat":
        return a.tolist()
    if form == "tuple.flat":
        return tuple(a.tolist())
    if form == "nd.flat":
        return a.copy()
    if form == "Series.flat":
        return pd.Series(a.copy())
    if form == "list.col":
        return a.reshape(k, 1).tolist()
    if form == "nd.col":
        return a.reshape(k, 1)
    if form == "DataFrame.col":
        return pd.DataFrame({"y": a.copy()})
    if form == "list.row":
        return [a.tolist()]
    if form == "tuple.row":
        return (tuple(a.tolist()),)
    if form == "list.of-nd":
        return [a.copy()]
    if form == "nd.row":
        return a.reshape(1, k)
    if form == "DataFrame.row":
        return pd.DataFrame(a.reshape(1, k), columns=["y%d" % i for i in range(k)])
    if form == "nd.3d-row":
        return a.reshape(1, 1, k)
    if form == "nd.3d-col":
        return a.reshape(1, k, 1)
    if form in ("nd.2x2", "list.2x2", "DataFrame.2x2"):
        if k != 4:
            raise HarnessError("a 2x2 label container needs four values")
        sq = a.reshape(2, 2)
        return sq if form == "nd.2x2" else sq.tolist() if form == "list.2x2" else pd.DataFrame(sq, columns=["y0", "y1"])
    raise HarnessError("unknown label layout %r" % (form,))


_ROW_FORMS = ("list.row", "tuple.row", "list.of-nd", "nd.row", "DataFrame.row")
_FLAT_FORMS = ("list.flat", "tuple.flat", "nd.flat", "Series.flat")
_COL_FORMS = ("list.col", "nd.col", "DataFrame.col")
# (layout, number of observations): every layout with two observations; three observations and none at all in the
# layouts that differ in what len() / shape[0] / shape[1] / size say about them; four observations as a 2 x 2 block
Y_SHAPES = (
    [(f, 2) for f in _FLAT_FORMS + _COL_FORMS + _ROW_FORMS + ("nd.3d-row", "nd.3d-col")]
    + [(f, 3) for f in ("nd.flat", "Series.flat", "nd.col", "nd.row", "list.row", "DataFrame.row")]
    + [(f, 4) for f in ("nd.2x2", "list.2x2", "DataFrame.2x2")]
    + [(f, 0) for f in ("list.flat", "tuple.flat", "nd.flat", "Series.flat", "nd.row", "nd.col", "list.row", "DataFrame.row", "DataFrame.col")]
)
_YT_VALS, _YP_VALS = [1, 0, 1, 0], [0, 0, 1, 1]


def y_shape_faults():
    """[(kind, "<layout>/<k>")]: one of the two label arguments (both, for two observations) carries k != 1 observations"""
    out = []
    for form, k in Y_SHAPES:
        c = "%s/%d" % (form, k)
        out.append(("y_true_multi" if k else "y_true_empty", c))
        out.append(("y_pred_multi" if k else "y_pred_empty", c))
        if k == 2:
            out.append(("y_both_multi", c))
    return out


def y_fault_args(kind, cont):
    """(y_true, y_pred) of a malformed label call; the argument that is not malformed is the python number 1"""
    if "/" in cont:
        form, k = cont.split("/")
        mk = lambda vals: y_shape(form, vals[: int(k)])  # noqa: E731
    else:
        mk = lambda vals: pack_y(vals[:2], cont)  # noqa: E731
    yt = mk(_YT_VALS) if kind.startswith(("y_true", "y_both")) else (1 if "/" in cont else pack_y([1], cont))
    yp = mk(_YP_VALS) if kind.startswith(("y_pred", "y_both")) else (1 if "/" in cont else pack_y([1], cont))
    return yt, yp


def pack_y(vals, cont):
    """label observation(s) ``vals`` (list of ints) in the requested container."""
    if cont == "scalar":
        return int(vals[0])
    if cont == "npscalar":
        return np.int64(vals[0])
    if cont == "nd0":
        return np.array(int(vals[0]))
    if cont == "tuple":
        return tuple(int(v) for v in vals)
    if cont == "list2":
        return [[int(v)] for v in vals]
    if cont in ("list", "list1"):
        return [int(v) for v in vals]
    if cont == "nd1":
        return np.array(vals)
    if cont in ("ndarray", "nd2"):
        return np.array(vals).reshape(-1, 1)
    if cont == "Series":
        return pd.Series(vals)
    if cont == "DataFrame":
        return pd.DataFrame({"y": list(vals)})
    raise HarnessError("unknown container %r" % (cont,))


# ----------------------------------------------------------------------------
# adapters: how one detector family is called with a given container
# ----------------------------------------------------------------------------
class Adapter:
    base = "StreamingDetector"
    kind = "stream"
    width = None  # feature width of the valid inputs (None: X is not validated)
    univariate = False
    inj_containers = INJ
    canonical = "ndarray"
    quick_prefix = 3  # quick tier: enumerated prefix length of the base histories (slow detectors: 1)
    thorough_prefix = 3  # thorough tier (slow detectors: 2)
    params = ()
    menu = (0, 1)
    tail = ()
    eq_hist = ()

    def __init__(self, name):
        self.name = name
        self.d = DRIVERS[name]
        self.stochastic = self.d.stochastic

    def make(self, p):
        return self.d.cls(**self.d.ctor(p))

    def bases(self, tier, nmax=None):
        """every sequence of length <= 3 over the menu, extended by the fixed tail."""
        out = []
        if nmax is None:
            nmax = self.quick_prefix if tier == "quick" else self.thorough_prefix
        for n in range(0, nmax + 1):
            for s in itertools.product(self.menu, repeat=n):
                b = list(s) + list(self.tail[n:])
                if b not in out:
                    out.append(b)
        return out

    def is_ref(self, sym):
        return isinstance(sym, (list, tuple))

    # -- what an accepted valid call establishes (the specification side) -----
    def establishes(self, sym, cont):
        if self.width is None:
            return None, None
        return self.width, (NAMES[: self.width] if cont == "DataFrame" else None)

    def domain_error(self, exc):
        """documented refusals of VALID input that depend on the detector's state, not on the input's shape."""
        return self.name == "CUSUM" and isinstance(exc, ValueError) and "Standard deviation is 0" in str(exc)

    def param_sets(self, tier):
        return list(self.params) if tier == "thorough" else list(self.params[: self.quick_params])

    quick_params = 1  # quick tier: how many of ``params`` are explored
    is_ensemble = False
    reuse_params = None  # extra parameter sets of the reuse-* family (both tiers)
    reuse_kinds = ()  # caller-owned containers that can be overwritten in place and passed again
    reuse_dtypes = ("f8", "f4", "i8")

    # -- observables -----------------------------------------------------------
    def public(self, det):
        return jsonable(self.d.obs(det))

    def mask_pending(self, od, ot, pending):
        """observables of the twin with the fields that may lag behind until its next accepted update (see
        Inject._valid) replaced by the detector's"""
        return dict(ot, state=od["state"], since=od["since"])

    # -- reuse-* family: one caller-owned object per role and shape, overwritten in place before every call ----
    def reuse_shapes(self, sym):
        """{role: 2-D float array of the values this call carries}"""
        return {"X": np.array(self.arr(sym), dtype=float)}

    row = True  # 1-D containers hold the single row (streaming) / the single column (batch)
    py = float  # python type of the numbers in list containers

    def call_obj(self, det, sym, objs):
        det.update(objs["X"])

    # -- faults ------------------------------------------------------------------
    def faults(self, est, det):
        """[(kind, container)] of the calls that are malformed given ``est``."""
        raise NotImplementedError

    def eq_containers(self, sym):
        raise NotImplementedError

    # -- round 4: inject-shape-* / equivx-* ----------------------------------------
    def shape_faults(self, est, det):
        """[(kind, container)] of the inject-shape-* family: the malformed calls in the layouts (row / column / flat /
        nested / empty, tuples, 1-D containers) that ``faults`` does not use.  Empty = the adapter has no such family."""
        return []

    shape_neighbours = INJ  # containers of the two valid neighbours of the malformed call in inject-shape-*

    def eqx_containers(self, sym):
        """containers of the equivx-* family: the canonical one and the one-observation containers ``eq_containers``
        does not use (numpy scalar, 0-dimensional ndarray, tuple, nested list, list of arrays)"""
        return []


class UniStream(Adapter):
    """ADWIN, CUSUM, PageHinkley: update(X) with one value."""

    width = 1
    univariate = True
    reuse_kinds = ("nd2", "nd1", "Series", "DataFrame", "list1", "list2")

    def arr(self, sym):
        return [[float(sym)]]

    def call(self, det, sym, cont, p):
        det.update(pack(self.arr(sym), cont, row=True))

    def faults(self, est, det):
        out = []
        for c in INJ:
            out.append(("two_rows", c))
            out.append(("two_rows_other_width", c))
            out.append(("multicol", c))
        out.append(("two_rows_renamed", "DataFrame"))
        if est["names"] is not None:
            out.append(("renamed", "DataFrame"))
        return out

    def shape_faults(self, est, det):
        out = [("multicol", c) for c in ("nd1", "Series", "tuple")]  # several values in a 1-D container
        out += [("two_values", c) for c in ("list", "ndarray", "DataFrame", "nd1", "Series", "tuple")]
        out += [("three_rows", c) for c in INJ + ("tuple2", "list.of-nd")]
        out += [("two_rows", c) for c in ("tuple2", "list.of-nd")]
        out += [("no_rows", c) for c in ("ndarray", "DataFrame")]
        return out

    shape_neighbours = ("ndarray", "scalar", "nd0")

    def eqx_containers(self, sym):
        return ["ndarray", "npscalar", "nd0", "tuple", "list2", "list.of-nd"]

    def fault(self, det, kind, cont, p):
        if kind == "two_rows":
            X = pack([[1.0], [2.0]], cont, row=True)
        elif kind == "three_rows":
            X = pack([[1.0], [2.0], [3.0]], cont, row=True)
        elif kind == "no_rows":
            X = pack(np.zeros((0, 1)), cont, row=True)
        elif kind == "two_values":
            X = pack([[1.0, 2.0]], cont, row=True)
        elif kind == "two_rows_other_width":
            X = pack([[1.0, 2.0, 3.0], [4.0, 5.0, 6.0]], cont, row=True)
        elif kind == "multicol":
            X = pack([[1.0, 2.0, 3.0]], cont, row=True)
        elif kind == "two_rows_renamed":
            X = pack([[1.0], [2.0]], cont, names=OTHER[:1], row=True)
        elif kind == "renamed":
            X = pack([[1.0]], cont, names=OTHER[:1], row=True)
        else:
            raise HarnessError(kind)
        det.update(X)

    def eq_containers(self, sym):
        return ["ndarray", "scalar", "list", "nd1", "Series", "DataFrame"]


class YStream(Adapter):
    """DDM, EDDM, STEPD, ADWINAccuracy, LinearFourRates: update(y_true, y_pred)."""

    reuse_kinds = ("nd1", "nd2", "Series", "DataFrame", "list1")
    reuse_dtypes = ("i8", "i4", "u1")  # labels are integers (what other encodings do is C16's subject)
    py = int

    def labels(self, sym):
        if self.name == "LinearFourRates":
            return divmod(sym, 2)
        return 1, (0 if sym else 1)

    def reuse_shapes(self, sym):
        yt, yp = self.labels(sym)
        return {"yt": np.array([[float(yt)]]), "yp": np.array([[float(yp)]])}

    def call_obj(self, det, sym, objs):
        det.update(y_true=objs["yt"], y_pred=objs["yp"])

    def call(self, det, sym, cont, p):
        yt, yp = self.labels(sym)
        det.update(y_true=pack_y([yt], cont), y_pred=pack_y([yp], cont))

    def faults(self, est, det):
        return [(k, c) for k in ("y_true_multi", "y_pred_multi", "y_both_multi") for c in INJ]

    def shape_faults(self, est, det):
        return y_shape_faults()

    shape_neighbours = ("ndarray", "scalar", "nd0")

    def fault(self, det, kind, cont, p):
        yt, yp = y_fault_args(kind, cont)
        det.update(y_true=yt, y_pred=yp)

    def eq_containers(self, sym):
        return ["ndarray", "scalar", "list", "nd1", "Series", "DataFrame"]

    def eqx_containers(self, sym):
        return ["ndarray", "npscalar", "nd0", "tuple", "list2"]


class MvStream(Adapter):
    """KdqTreeStreaming, PCACD: update(X) with one row of two features."""

    width = 2
    reuse_kinds = ("nd2", "nd1", "Series", "DataFrame", "list1", "list2")

    def arr(self, sym):
        if self.name == "PCACD":
            return [PCA_POINTS[sym]]
        return [[float(sym), float(sym % 2)]]

    def call(self, det, sym, cont, p):
        det.update(pack(self.arr(sym), cont, row=True))

    def faults(self, est, det):
        out = []
        for c in INJ:
            out.append(("two_rows", c))
            out.append(("two_rows_other_width", c))
            if est["width"] is not None:
                out.append(("wrong_width", c))
        out.append(("two_rows_renamed", "DataFrame"))
        if est["names"] is not None:
            out.append(("renamed", "DataFrame"))
            # the established labels in another order / one of them repeated: the right width, only known labels,
            # but different names column by column (features are read by position)
            out.append(("reordered", "DataFrame"))
            out.append(("duplicated", "DataFrame"))
        return out

    def shape_faults(self, est, det):
        out = [("three_rows", c) for c in INJ + ("tuple2", "list.of-nd")]
        out += [("two_rows", c) for c in ("tuple2", "list.of-nd")]
        out += [("no_rows", c) for c in ("ndarray", "DataFrame")]
        if est["width"] is not None:
            # another number of values in a 1-D container; the two rows of a malformed call given flat (twice the width)
            out += [("wrong_width", c) for c in ("nd1", "Series", "tuple")]
            out += [("two_rows_flat", c) for c in ("list", "ndarray", "DataFrame", "nd1", "Series", "tuple")]
            out += [("one_value", c) for c in ("scalar", "nd0", "list", "ndarray", "DataFrame", "nd1", "Series", "tuple")]
        return out

    shape_neighbours = ("ndarray", "tuple", "list2")

    def eqx_containers(self, sym):
        return ["ndarray", "tuple", "list2", "tuple2", "list.of-nd"]

    def fault(self, det, kind, cont, p):
        if kind in ("three_rows", "no_rows", "two_rows_flat", "one_value"):
            arr = {"three_rows": [[1.0, 2.0], [3.0, 4.0], [5.0, 6.0]], "no_rows": np.zeros((0, 2)),
                   "two_rows_flat": [[1.0, 2.0, 3.0, 4.0]], "one_value": [[1.0]]}[kind]
            det.update(pack(arr, cont, row=True))
            return
        if kind == "reordered":
            det.update(pack([[1.0, 2.0]], cont, names=[NAMES[1], NAMES[0]], row=True))
            return
        if kind == "duplicated":
            det.update(pack([[1.0, 2.0]], cont, names=[NAMES[0], NAMES[0]], row=True))
            return
        if kind == "two_rows":
            X = pack([[1.0, 2.0], [3.0, 4.0]], cont, row=True)
        elif kind == "two_rows_other_width":
            X = pack([[1.0], [2.0]], cont, row=True)  # the row passed as a column
        elif kind == "wrong_width":
            X = pack([[1.0, 2.0, 3.0]], cont, row=True)
        elif kind == "two_rows_renamed":
            X = pack([[1.0, 2.0], [3.0, 4.0]], cont, names=OTHER[:2], row=True)
        elif kind == "renamed":
            X = pack([[1.0, 2.0]], cont, names=OTHER[:2], row=True)
        else:
            raise HarnessError(kind)
        det.update(X)

    def eq_containers(self, sym):
        return ["ndarray", "list", "nd1", "Series", "DataFrame"]


class Batch(Adapter):
    """HDDDM, KdqTreeBatch, NNDVI (two features), CDBD (one feature).

    The detector is constructed bare; the base history itself starts with the
    reference (``["ref", 0]``), so that position 0 is really the first call."""

    base = "BatchDetector"
    kind = "batch"
    METHODS = ("update", "set_reference")
    row = False
    reuse_dtypes = ("f8", "f4")  # the batch menus hold halves and quarters: exact in float32, not integral

    def __init__(self, name):
        super().__init__(name)
        self.univariate = name == "CDBD"
        self.width = 1 if self.univariate else 2
        self.menu_data = BATCH_1D if self.univariate else BATCH_2D
        self.reuse_kinds = ("nd2", "DataFrame", "list2") + (("nd1", "Series", "list1") if self.univariate else ())

    def call_obj(self, det, sym, objs):
        if self.is_ref(sym):
            det.set_reference(objs["X"])
        else:
            det.update(objs["X"])

    def arr(self, sym):
        return self.menu_data[sym[1] if self.is_ref(sym) else sym]

    def call(self, det, sym, cont, p):
        X = pack(self.arr(sym), cont)
        if self.is_ref(sym):
            det.set_reference(X)
        else:
            det.update(X)

    def bases(self, tier, nmax=None):
        return [[["ref", 0]] + b for b in super().bases(tier, nmax)]

    def faults(self, est, det):
        out = []
        for m in self.METHODS:
            for c in INJ:
                out.append(("one_row@" + m, c))
                out.append(("one_row_other_width@" + m, c))
                if self.univariate:
                    out.append(("multicol@" + m, c))
                elif est["width"] is not None:
                    out.append(("wrong_width@" + m, c))
            out.append(("one_row_renamed@" + m, "DataFrame"))
            if est["names"] is not None:
                out.append(("renamed@" + m, "DataFrame"))
                if not self.univariate and self.width >= 2:
                    out.append(("reordered@" + m, "DataFrame"))
                    out.append(("duplicated@" + m, "DataFrame"))
        return out

    def shape_faults(self, est, det):
        out = []
        for m in self.METHODS:
            # a single value, bare or in a 1-D container (batch convention: 1-D = one column): one observation
            out += [("one_value@" + m, c) for c in ("scalar", "nd0", "nd1", "Series", "list1", "tuple")]
            out += [("one_row@" + m, c) for c in ("tuple2", "list.of-nd")]
            out += [("no_rows@" + m, c) for c in ("ndarray", "DataFrame")]
            if self.univariate:
                # four observations of a univariate detector given as ONE ROW: one observation of four features
                out += [("row_of_values@" + m, c) for c in ("ndarray", "list2", "DataFrame", "tuple2", "list.of-nd")]
            elif est["width"] is not None:
                # a 1-D container is one column: another width than the two established
                out += [("flat_column@" + m, c) for c in ("nd1", "Series", "list1", "tuple")]
        return out

    shape_neighbours = ("ndarray", "tuple2", "list.of-nd")

    def eqx_containers(self, sym):
        return ["ndarray", "tuple2", "list.of-nd"] + (["tuple"] if self.univariate else [])

    def fault(self, det, kind, cont, p):
        kind, method = kind.split("@")
        w = self.width
        full = np.arange(4 * w, dtype=float).reshape(4, w)
        wide = np.arange(12, dtype=float).reshape(4, 3)
        if kind == "one_value":
            X = pack([[1.0]], cont)
        elif kind == "no_rows":
            X = pack(np.zeros((0, w)), cont)
        elif kind == "row_of_values":
            X = pack([[0.0, 1.0, 2.0, 3.0]], cont)
        elif kind == "flat_column":
            X = pack([[0.0], [1.0], [2.0], [3.0]], cont)
        elif kind == "one_row":
            X = pack(full[:1], "list2" if cont == "list" else cont)
        elif kind == "one_row_other_width":
            X = pack(wide[:1], "list2" if cont == "list" else cont)
        elif kind in ("wrong_width", "multicol"):
            X = pack(wide, cont)
        elif kind == "one_row_renamed":
            X = pack(full[:1], cont, names=OTHER[:w])
        elif kind == "renamed":
            X = pack(full, cont, names=OTHER[:w])
        elif kind == "reordered":
            X = pack(full, cont, names=list(reversed(NAMES[:w])))
        elif kind == "duplicated":
            X = pack(full, cont, names=[NAMES[0]] * w)
        else:
            raise HarnessError(kind)
        getattr(det, method)(X)

    def eq_containers(self, sym):
        if self.univariate:
            return ["ndarray", "list", "DataFrame", "nd1", "list1", "Series"]
        return ["ndarray", "list", "DataFrame"]

    def public(self, det):
        o = {"state": det.drift_state, "total": int(det.total_batches), "since": int(det.batches_since_reset)}
        if self.name in ("HDDDM", "CDBD"):
            cd = getattr(det, "current_distance", None)
            rn = getattr(det, "reference_n", None)
            o["current_distance"] = None if cd is None else float(cd)
            o["reference_n"] = None if rn is None else int(rn)
            for attr in ("distances", "epsilon_values", "thresholds"):
                o[attr] = {int(k): float(v) for k, v in getattr(det, attr).items()}
        return jsonable(o)


class NNDVIBatch(Batch):
    def public(self, det):
        o = {"state": det.drift_state, "total": int(det.total_batches), "since": int(det.batches_since_reset)}
        rb = getattr(det, "reference_batch", None)
        o["reference_batch"] = None if rb is None else np.asarray(rb).tolist()
        return jsonable(o)


class MD3Adapter(Adapter):
    """MD3 (legacy base class): only what its own API validates — one record per
    ``update`` / ``give_oracle_label`` and the column set of a labelled sample."""

    base = "DriftDetector"
    inj_containers = ("DataFrame",)
    canonical = "DataFrame"

    def make(self, p):
        return self.d.make(p)

    def call(self, det, sym, cont, p):
        names = ("l_ok", "l_bad") if det.waiting_for_oracle else ("u_in", "u_out")
        self.d.feed(det, names[sym], p)

    def faults(self, est, det):
        if det.waiting_for_oracle:
            return [(k, "DataFrame") for k in ("two_rows@label", "renamed@label", "extra_column@label", "missing_column@label")]
        return [("two_rows@update", "DataFrame")]

    def fault(self, det, kind, cont, p):
        thr = det.classifier.thr_
        if kind == "two_rows@update":
            det.update(pd.DataFrame({"x0": [thr + 0.1, thr + 5.0], "x1": [0.0, 0.0]}))
        elif kind == "two_rows@label":
            det.give_oracle_label(pd.DataFrame({"x0": [thr + 1.0, thr - 1.0], "x1": [1.0, 1.0], "y": [1, 0]}))
        elif kind == "renamed@label":
            det.give_oracle_label(pd.DataFrame({"z0": [thr + 1.0], "x1": [1.0], "y": [1]}))
        elif kind == "extra_column@label":
            det.give_oracle_label(pd.DataFrame({"x0": [thr + 1.0], "x1": [1.0], "x2": [0.0], "y": [1]}))
        elif kind == "missing_column@label":
            det.give_oracle_label(pd.DataFrame({"x0": [thr + 1.0], "y": [1]}))
        else:
            raise HarnessError(kind)

    def public(self, det):
        o = self.d.obs(det)
        o["oracle_rows"] = 0 if det.oracle_data is None else int(len(det.oracle_data))
        return jsonable(o)


# ----------------------------------------------------------------------------
# ensembles: StreamingEnsemble / BatchEnsemble are detectors too (they inherit the base classes); a call that one of
# their members refuses must leave no trace in the ensemble, its members or its election
# ----------------------------------------------------------------------------
_ADWIN_SMALL = {"delta": 1.0, "max_buckets": 2, "new_sample_thresh": 1, "window_size_thresh": 0, "subwindow_size_thresh": 1}
_MEMBER = {
    "ph": lambda: _PH(delta=0.0, threshold=0.5, burn_in=1),  # alarms on the sample of a jump
    "ph_late": lambda: _PH(delta=0.0, threshold=1, burn_in=0),  # alarms one or two samples later
    "adwin": lambda: _ADWIN(**_ADWIN_SMALL),
    "ddm": lambda: _DDM(n_threshold=2, warning_scale=0.5, drift_scale=1.5),
    "cdbd": lambda: _CDBD(detect_batch=1, statistic="stdev", significance=0.5, subsets=3),
    "cdbd2": lambda: _CDBD(detect_batch=2, statistic="tstat", significance=0.5, subsets=3),
    "hdddm": lambda: _HDDDM(detect_batch=1, statistic="stdev", significance=0.5, subsets=3),
    "nndvi": lambda: _NNDVI(k_nn=2, sampling_times=8, alpha=0.3),
}
_Y_MEMBERS = ("ddm",)  # members that read y_true / y_pred and ignore X; all others read X and ignore y


def _election(spec):
    kind, args = spec[0], spec[1:]
    return {"majority": SimpleMajorityElection, "minimum": MinimumApprovalElection,
            "ordered": OrderedApprovalElection, "confirmed": ConfirmedElection}[kind](*args)


def _column(i):
    """column selector by position that understands every container the ensemble is fed with"""
    def select(X):
        if isinstance(X, pd.DataFrame):
            return X.iloc[:, [i]]
        a = np.asarray(X)
        return a[:, [i]] if a.ndim == 2 else a.reshape(1, -1)[:, [i]]
    return select


class EnsMixin:
    """params = {"members": [[key, member type, column or None], ...], "election": [kind, args...]}"""

    is_ensemble = True
    stochastic = False
    quick_prefix = 2
    thorough_prefix = 3

    def _init(self, name, width, stochastic=False):
        self.name = name
        self.d = None
        self.width = width
        self.stochastic = stochastic

    def make(self, p):
        members = {k: _MEMBER[t]() for k, t, _ in p["members"]}
        selectors = {k: _column(c) for k, _, c in p["members"] if c is not None}
        ens = self.ens_cls(members, _election(p["election"]), selectors)
        # harness note on the object (the ensemble's own column_selectors is a defaultdict that grows when it is read)
        ens._c14_has_selectors = bool(selectors)
        return ens

    @staticmethod
    def has(det, what):
        ys = [isinstance(m, _DDM) for m in det.detectors.values()]
        return any(ys) if what == "y" else not all(ys)

    def selected(self, det):
        return det._c14_has_selectors

    @staticmethod
    def waiting(det):
        """a ConfirmedElection inside a waiting period (some member's alarm is being remembered)"""
        return any(getattr(det.election, "wait_period_counters", None) or ())

    def public(self, det):
        tot, since = ("total_samples", "samples_since_reset") if self.kind == "stream" else ("total_batches", "batches_since_reset")
        o = {"state": det.drift_state, "total": int(getattr(det, tot)), "since": int(getattr(det, since)),
             "drift_states": dict(det.drift_states),
             "recs": {k: (None if v is None else list(v)) for k, v in det.retraining_recs.items()},
             "members": {k: {"state": m.drift_state, "total": int(getattr(m, tot)), "since": int(getattr(m, since))}
                         for k, m in det.detectors.items()}}
        return jsonable(o)

    def mask_pending(self, od, ot, pending):
        ot = dict(ot, members=dict(ot["members"]), drift_states=dict(ot["drift_states"]))
        for k in pending:
            ot["members"][k] = dict(ot["members"][k], state=od["members"][k]["state"], since=od["members"][k]["since"])
            ot["drift_states"][k] = od["drift_states"][k]
        return ot


class EnsStream(EnsMixin, Adapter):
    """StreamingEnsemble.  ``rows`` = menu of (feature row, error?) pairs; members read one column each through a
    positional selector (width 3) or all read the single feature (width 1, no selectors); y is passed only when a
    member reads it."""

    base = "StreamingEnsemble"
    kind = "stream"
    ens_cls = StreamingEnsemble

    def __init__(self, name, width=3, rows=()):
        self._init(name, width)
        self.rows = rows

    def arr(self, sym):
        return [list(map(float, self.rows[sym][0]))]

    def _y(self, det, sym=None):
        if not self.has(det, "y"):
            return None, None
        return 1, (0 if sym is not None and self.rows[sym][1] else 1)

    def call(self, det, sym, cont, p):
        yt, yp = self._y(det, sym)
        det.update(pack(self.arr(sym), cont, row=True), yt, yp)

    def faults(self, est, det):
        out = []
        if self.has(det, "X"):
            for c in INJ:
                out.append(("two_rows", c))
                if not self.selected(det):
                    # with selectors every member sees its own column whatever the width of X: not injected
                    out.append(("two_rows_other_width", c))
                    out.append(("multicol", c))
            out.append(("two_rows_renamed", "DataFrame"))
            if est["names"] is not None:
                out.append(("renamed", "DataFrame"))
        if self.has(det, "y"):
            out += [(k, c) for k in ("y_true_multi", "y_pred_multi", "y_both_multi") for c in INJ]
        return out

    def shape_faults(self, est, det):
        # the ensemble validates the labels itself before any member sees them (and the members once more)
        return y_shape_faults() if self.has(det, "y") else []

    def fault(self, det, kind, cont, p):
        w = self.width
        one = np.arange(1.0, w + 1.0).reshape(1, w)
        two = np.arange(1.0, 2 * w + 1.0).reshape(2, w)
        yt, yp = self._y(det)
        if kind == "two_rows":
            X = pack(two, cont, row=True)
        elif kind == "two_rows_other_width":
            X = pack([[1.0, 2.0, 3.0], [4.0, 5.0, 6.0]], cont, row=True)
        elif kind == "multicol":
            X = pack([[1.0, 2.0, 3.0]], cont, row=True)
        elif kind == "two_rows_renamed":
            X = pack(two, cont, names=OTHER[:w], row=True)
        elif kind == "renamed":
            X = pack(one, cont, names=OTHER[:w], row=True)
        elif kind.startswith("y_"):
            X = pack(self.arr(0), "ndarray", row=True)
            yt, yp = y_fault_args(kind, cont)
        else:
            raise HarnessError(kind)
        det.update(X, yt, yp)


class EnsBatch(EnsMixin, Batch):
    """BatchEnsemble over two-feature batches (BATCH_2D): members read one column each (positional selectors) or all
    read both features (no selectors)."""

    base = "BatchDetector"  # the members' BatchDetector._validate_X is the call site of every refusal
    ens_cls = BatchEnsemble
    quick_prefix = 1
    thorough_prefix = 2
    reuse_kinds = ()

    def __init__(self, name):
        self._init(name, 2, stochastic=True)
        self.univariate = False
        self.menu_data = BATCH_2D

    def faults(self, est, det):
        out = []
        for m in self.METHODS:
            for c in INJ:
                out.append(("one_row@" + m, c))
                if not self.selected(det):
                    out.append(("one_row_other_width@" + m, c))
                    if est["width"] is not None:
                        out.append(("wrong_width@" + m, c))
            out.append(("one_row_renamed@" + m, "DataFrame"))
            if est["names"] is not None:
                out.append(("renamed@" + m, "DataFrame"))
        return out


def _mk(cls, name, **kw):
    a = cls if name is None else cls(name)  # (ready-made adapter, None) or (class, detector name)
    for k, v in kw.items():
        setattr(a, k, v)
    return a


_ADWIN_P = {"delta": 1.0, "max_buckets": 2, "new_sample_thresh": 1, "window_size_thresh": 0, "subwindow_size_thresh": 1}

ADAPTERS = {
    a.name: a
    for a in (
        _mk(YStream, "DDM", params=[{"n_threshold": 2, "warning_scale": 0.5, "drift_scale": 1.5},
                                    {"n_threshold": 3, "warning_scale": 1, "drift_scale": 2}],
            menu=(0, 1), tail=[0, 0, 1, 0, 1], eq_hist=[[0, 0, 1, 1], [1, 0, 0, 0]]),
        _mk(YStream, "EDDM", params=[{"n_threshold": 1, "warning_thresh": 0.95, "drift_thresh": 0.9}],
            menu=(0, 1), tail=[1, 0, 1, 1, 0, 1], eq_hist=[[1, 0, 1, 1], [0, 1, 1, 0]]),
        _mk(YStream, "STEPD", params=[{"window_size": 1, "alpha_warning": 0.5, "alpha_drift": 0.49},
                                      {"window_size": 2, "alpha_warning": 0.3, "alpha_drift": 0.1}],
            menu=(0, 1), tail=[0, 0, 1, 0, 1, 1], eq_hist=[[0, 0, 1, 0], [0, 1, 1, 1]]),
        _mk(YStream, "ADWINAccuracy", params=[_ADWIN_P],
            menu=(0, 1), tail=[0, 0, 0, 0, 1, 1, 1, 1, 1, 1, 1, 0], eq_hist=[[0, 0, 1, 1], [1, 0, 1, 0]]),
        _mk(YStream, "LinearFourRates", params=[{"time_decay_factor": 0.7, "warning_level": 0.4, "detect_level": 0.1, "burn_in": 2, "num_mc": 8, "subsample": 1}],
            menu=(0, 1), tail=[0, 0, 1, 3, 0, 1], eq_hist=[[0, 0, 1, 3], [3, 0, 1, 2]]),
        _mk(UniStream, "ADWIN", params=[_ADWIN_P, {"delta": 0.3, "max_buckets": 5, "new_sample_thresh": 1, "window_size_thresh": 2, "subwindow_size_thresh": 2, "conservative_bound": True}],
            menu=(0, 5), tail=[0, 0, 5, 0, 5], eq_hist=[[0, 5, 0, 0], [5, 5, 0, 5]]),
        _mk(UniStream, "CUSUM", params=[{"target": 0, "sd_hat": 1, "burn_in": 2, "delta": 0.5, "threshold": 1},
                                        {"target": 1, "sd_hat": 2, "burn_in": 3, "delta": 0, "threshold": 2, "direction": "positive"}],
            menu=(0, 4), tail=[0, 1, 4, 0, 4, 1], eq_hist=[[0, 1, 4, 0], [0, 4, 4, 1]]),
        _mk(UniStream, "PageHinkley", params=[{"delta": 0.0, "threshold": 1, "burn_in": 0}],
            menu=(1, 4), tail=[1, 1, 4, 1, 4, 4], eq_hist=[[1, 1, 4, 4], [1, 1, 1, 4]]),
        _mk(MvStream, "KdqTreeStreaming", params=[{"window_size": 2, "persistence": 0.0, "alpha": 0.6, "bootstrap_samples": 4, "count_ubound": 1}],
            menu=(0, 5), tail=[0, 5, 0, 0, 0, 5], eq_hist=[[0, 5, 0, 0]]),
        _mk(MvStream, "PCACD", params=[{"window_size": 4, "sample_period": 0.25, "divergence_metric": "kl", "delta": 0.0, "ev_threshold": 0.99},
                                       {"window_size": 4, "sample_period": 0.25, "divergence_metric": "intersection", "delta": 0.0, "ev_threshold": 0.99}],
            menu=(0, 1), tail=[0, 1, 0, 2, 0, 1, 2, 3, 3, 3, 0, 1], eq_hist=[[0, 1, 2, 0]]),
        _mk(Batch, "HDDDM", params=[{"detect_batch": 1, "statistic": "stdev", "significance": 0.5, "subsets": 3},
                                    {"detect_batch": 2, "statistic": "tstat", "significance": 0.5, "subsets": 3}],
            menu=(0, 1), tail=[0, 1, ["ref", 1], 1, 0], eq_hist=[[["ref", 0], 0, 1, 1]]),
        _mk(Batch, "CDBD", params=[{"detect_batch": 1, "statistic": "stdev", "significance": 0.5, "subsets": 3},
                                   {"detect_batch": 2, "statistic": "tstat", "significance": 0.5, "subsets": 3}],
            menu=(0, 1), tail=[0, 1, ["ref", 1], 1, 0], eq_hist=[[["ref", 0], 0, 1, 1]]),
        _mk(Batch, "KdqTreeBatch", params=[{"alpha": 0.6, "bootstrap_samples": 4, "count_ubound": 2}, {"alpha": 0.3, "bootstrap_samples": 6, "count_ubound": 1}],
            menu=(0, 1), tail=[0, 1, ["ref", 1], 1, 0], eq_hist=[[["ref", 0], 0, 1, 1]]),
        _mk(NNDVIBatch, "NNDVI", params=[{"k_nn": 2, "sampling_times": 8, "alpha": 0.3}],
            menu=(0, 1), tail=[0, 1, ["ref", 1], 1, 0], eq_hist=[[["ref", 0], 0, 1, 1]]),
        _mk(MD3Adapter, "MD3", params=[{"sensitivity": 0.5, "k": 2, "oracle_data_length_required": 2}],
            menu=(0, 1), tail=[0, 1, 1, 1, 0, 1, 1], eq_hist=[]),
    )
}

# -- ensembles (inject-* only).  The histories make the members alarm at different times, so that a ConfirmedElection
# is inside a waiting period (its per-member counters are the only election state) at most injection positions.
_COLS3 = [["a", "ph", 0], ["b", "ph", 1], ["c", "adwin", 2]]
_ONE3 = [["p", "ph", None], ["q", "ph_late", None], ["r", "adwin", None]]
ENSEMBLES = {
    a.name: a
    for a in (
        # one column per member; rows: calm / feature a jumps / features b and c jump
        _mk(EnsStream("SEns-cols", 3, rows=[([1, 1, 1], 0), ([4, 1, 1], 0), ([1, 4, 4], 0)]),
            None, quick_params=3, menu=(0, 1, 2), tail=[0, 0, 1, 0, 2, 0, 0],
            params=[{"members": _COLS3, "election": ["confirmed", 2, 2]},
                    {"members": [["a", "ph", 0], ["b", "ph_late", 1], ["c", "ph", 2]], "election": ["confirmed", 1, 1]},
                    {"members": _COLS3, "election": ["majority"]},
                    {"members": _COLS3, "election": ["confirmed", 2, 3]},
                    {"members": _COLS3, "election": ["confirmed", 3, 3]},
                    {"members": _COLS3, "election": ["confirmed", 2, 0]},
                    {"members": _COLS3, "election": ["minimum", 2]},
                    {"members": _COLS3, "election": ["ordered", 1, 1]}]),
        # every member reads the single feature (no selectors): the width / univariate rules apply to the ensemble's X
        _mk(EnsStream("SEns-one", 1, rows=[([1], 0), ([4], 0)]),
            None, quick_params=2, quick_prefix=3, menu=(0, 1), tail=[0, 0, 1, 0, 1, 1, 0],
            params=[{"members": _ONE3, "election": ["confirmed", 2, 2]},
                    {"members": _ONE3, "election": ["confirmed", 1, 2]},
                    {"members": _ONE3, "election": ["majority"]},
                    {"members": _ONE3, "election": ["minimum", 1]},
                    {"members": _ONE3, "election": ["ordered", 1, 1]}]),
        # a member that reads X next to a member that reads the labels, in both orders; rows: (x, error?)
        _mk(EnsStream("SEns-xy", 1, rows=[([1], 0), ([4], 0), ([1], 1), ([4], 1)]),
            None, quick_params=2, menu=(0, 1, 2, 3), tail=[0, 2, 1, 0, 3, 2, 0],
            params=[{"members": [["x", "ph", None], ["y", "ddm", None]], "election": ["confirmed", 2, 2]},
                    {"members": [["y", "ddm", None], ["x", "ph", None]], "election": ["minimum", 1]},
                    {"members": [["x", "adwin", None], ["y", "ddm", None], ["z", "ph_late", None]], "election": ["majority"]}]),
        _mk(EnsBatch("BEns-cols"),
            None, quick_params=1, quick_prefix=0, thorough_prefix=1, menu=(0, 1, 2), tail=[0, 1, ["ref", 1], 2, 0],
            params=[{"members": [["a", "cdbd", 0], ["b", "cdbd", 1]], "election": ["confirmed", 2, 1]},
                    {"members": [["a", "cdbd", 0], ["b", "cdbd2", 1]], "election": ["majority"]},
                    {"members": [["a", "cdbd", 0], ["b", "cdbd", 1]], "election": ["confirmed", 1, 2]}]),
        _mk(EnsBatch("BEns-all"),
            None, quick_params=1, quick_prefix=0, thorough_prefix=1, menu=(0, 1), tail=[0, 1, ["ref", 1], 1, 0],
            params=[{"members": [["h", "hdddm", None], ["n", "nndvi", None]], "election": ["confirmed", 1, 1]},
                    {"members": [["h", "hdddm", None], ["n", "nndvi", None]], "election": ["majority"]}]),
    )
}


# ----------------------------------------------------------------------------
# fault injection
# ----------------------------------------------------------------------------
class Inject(System):
    family = ""  # counter prefix of a sub-family ("" = the original inject-* family)

    def __init__(self, ad):
        self.ad = ad
        self.name = "inject-" + ad.name

    def _conts(self, cfg):
        """containers offered to the two valid neighbours of the malformed call"""
        return self.ad.inj_containers

    def _faults(self, state):
        return self.ad.faults(state["est"], state["D"])

    def init(self, cfg):
        p = cfg["params"]
        rng.seed_step(0, self.name, cfg["id"], "init")
        D = self.ad.make(p)
        rng.seed_step(0, self.name, cfg["id"], "init")
        T = self.ad.make(p)
        return {
            "D": D,
            "T": T,
            "k": 0,  # valid calls made so far = index of the next base event
            "faulted": False,
            "must_fault": False,
            "after": 0,  # valid calls made since the malformed one
            "est": {"width": None, "names": None},
            "prev_ref": False,
            "site": None,
        }

    def alphabet(self, cfg, state, pos):
        base, c0 = cfg["base"], cfg["c0"]
        k = state["k"]
        conts = self._conts(cfg)
        if state["faulted"]:
            if k >= len(base):
                return []
            if state["after"] == 0:
                return [["v", base[k], c] for c in conts]
            return [["v", base[k], c0]]
        lo, hi = cfg.get("pos") or (0, len(base))  # injection positions handled by this task
        evs = []
        if not state["must_fault"] and k < len(base) and k + 1 <= hi:
            # c0: the history goes on; any other container: this is the left neighbour of the malformed call
            evs += [["v", base[k], c] for c in conts if c == c0 or k + 1 >= lo]
        if lo <= k <= hi:
            evs += [["f", kind, c] for kind, c in self._faults(state)]
        return evs

    # -- call-site class of a malformed call (signature of what it causes) -------
    def site(self, kind, cont, state):
        est = state["est"]
        width_only = kind.split("@")[0] in ("wrong_width", "multicol")
        if width_only and cont == "DataFrame" and est["names"] is None and est["width"] is not None:
            return "df-width-after-ndarray:" + self.ad.base
        return "%s/%s/%s:%s" % (kind, cont, "first" if state["k"] == 0 else "later", self.ad.base)

    @staticmethod
    def _sig(sub, site):
        return site if site == R2_BATCH else sub + ":" + site

    def step(self, cfg, state, ev, pos, ctx):
        if ev[0] == "v":
            return self._valid(cfg, state, ev, ctx)
        return self._fault(cfg, state, ev, ctx)

    def _seed(self, cfg, state, ctx):
        # a malformed call is made under the seed of the valid call it precedes, so a
        # post-drift re-initialisation draws the same numbers whichever call performs it
        if self.ad.stochastic:
            rng.seed_step(ctx.seed, self.ad.name, cfg["id"], state["k"])

    def _valid(self, cfg, state, ev, ctx):
        ad, p = self.ad, cfg["params"]
        _, sym, cont = ev
        D, T = state["D"], state["T"]
        d_exc = t_exc = None
        self._seed(cfg, state, ctx)
        try:
            ad.call(D, sym, cont, p)
        except Exception as e:  # noqa: BLE001
            d_exc = e
        self._seed(cfg, state, ctx)
        try:
            ad.call(T, sym, cont, p)
        except Exception as e:  # noqa: BLE001
            t_exc = e
        what = "%s call #%d (%s as %s)" % (ad.name, state["k"], "set_reference" if ad.is_ref(sym) else "update", cont)
        t_dom = t_exc is not None and ad.domain_error(t_exc)
        d_dom = d_exc is not None and ad.domain_error(d_exc)
        if t_dom and d_dom:
            # a documented, state-dependent refusal that has nothing to do with the shape of the input
            # (CUSUM: "standard deviation is 0" after re-estimating from the last burn_in values)
            ctx.terminal = True
            ctx.count("agreed_domain_error:" + ad.name)
            return {"exception": type(t_exc).__name__, "domain_error": True}
        if t_dom or d_dom:
            if not state["faulted"]:
                raise HarnessError("HARNESS-NONDET: two identical runs of %s differ (%r vs %r)" % (ad.name, d_exc, t_exc))
            raise Violation(
                "later-differs",
                "%s: after the rejected malformed call (%s) the valid %s %s but the twin that never saw the malformed "
                "call %s" % (ad.name, state["site"], what, "raised %r" % d_exc if d_exc else "was accepted",
                             "raised %r" % t_exc if t_exc else "accepted it"),
                expected=repr(t_exc), observed=repr(d_exc), sig=self._sig("later-differs", state["site"]),
            )
        if t_exc is not None:
            raise Violation(
                "valid-call-rejected",
                "%s: a detector that had only ever received valid input raised %r on valid %s" % (ad.name, t_exc, what),
                expected="accepted", observed=repr(t_exc),
                sig="valid-call-rejected:%s:%s:%s" % (ad.name, cont, type(t_exc).__name__),
            )
        if d_exc is not None:
            raise Violation(
                "later-valid-rejected",
                "%s: after the rejected malformed call (%s) the valid %s raised %r; the twin that never saw the "
                "malformed call accepted it" % (ad.name, state["site"], what, d_exc),
                expected="accepted", observed=repr(d_exc),
                sig=self._sig("later-valid-rejected", state["site"]),
            )
        od, ot = ad.public(D), ad.public(T)
        if state.get("pending") and not ad.is_ref(sym):
            state["pending"] = False
        if state.get("pending"):
            # the rejected call performed the pending post-drift re-initialisation early and no update has been
            # accepted since: the twin still shows the old drift flag / since-reset counter until its next update
            ot = ad.mask_pending(od, ot, state["pending"])
            ctx.count("set_reference_compared_while_reset_pending")
        if not _same(od, ot):
            bad = sorted(k for k in set(od) | set(ot) if not _same(od.get(k), ot.get(k)))
            if not state["faulted"]:
                raise HarnessError("HARNESS-NONDET: two identical runs of %s differ on %s" % (ad.name, bad))
            raise Violation(
                "later-differs",
                "%s: %d valid call(s) after the rejected malformed call (%s) the observables %s differ from the twin "
                "that never saw it (%s)" % (ad.name, state["after"] + 1, state["site"], bad, what),
                expected={k: ot.get(k) for k in bad}, observed={k: od.get(k) for k in bad},
                sig=self._sig("later-differs", state["site"]),
            )
        w, names = ad.establishes(sym, cont)
        est = state["est"]
        if est["width"] is None:
            est["width"] = w
        if est["names"] is None and names is not None:
            est["names"] = names
        if state["faulted"]:
            state["after"] += 1
            ctx.count("later_accepted_calls_compared")
            ctx.count("later_compared:" + ad.name)
            if ad.is_ensemble and ad.waiting(T):
                ctx.count("later_compared_while_election_waiting")
            if state["after"] == 1:
                ctx.count("next_container:" + cont)
                if self.family:
                    ctx.count(self.family + "_next_container:" + cont)
            if self.family:
                ctx.count(self.family + "_later_compared:" + ad.name)
        elif cont != cfg["c0"]:
            state["must_fault"] = True
        state["k"] += 1
        state["prev_ref"] = ad.is_ref(sym)
        if od["state"] == "drift":
            ctx.count("drift_in_valid_history")
        return od

    def _judge_ensemble_rejection(self, state, before, after, ctxt, site, moved, ctx):
        """(ii) for ensembles: the ensemble's own counters and verdict stay; a member may only have performed its own
        pending post-drift re-initialisation (it was in drift, it is not counted)."""
        if after.get("total") != before["total"]:
            raise Violation("rejected-call-counted", "%s raised ValueError but was counted: %s" % (ctxt, moved),
                            expected=before, observed=after, sig=self._sig("rejected-call-counted", site))
        top = sorted(x for x in ("state", "since") if not _same(before.get(x), after.get(x)))
        if top:
            raise Violation(
                "rejected-call-changed-state",
                "%s raised ValueError but changed the ensemble's %s" % (ctxt, top),
                expected={x: before.get(x) for x in top}, observed={x: after.get(x) for x in top},
                sig=self._sig("rejected-call-changed-state", site))
        pend = []
        bm, am = before["members"], after.get("members") or {}
        for k in bm:
            if _same(bm[k], am.get(k)):
                continue
            if bm[k]["state"] == "drift" and am.get(k, {}).get("total") == bm[k]["total"]:
                pend.append(k)
                continue
            raise Violation(
                "ensemble-member-updated-by-rejected-call",
                "%s raised ValueError after member %r had already processed the call: member %s -> %s (the members "
                "are updated one after the other; the ones in front of the refusing member keep the sample)"
                % (ctxt, k, bm[k], am.get(k)),
                expected={k: bm[k]}, observed={k: am.get(k)},
                sig="ensemble-member-updated-by-rejected-call:" + self.ad.ens_cls.__name__ + (
                    # the only refusal an ensemble cannot foresee from its own input: the first call ever carries several
                    # columns and a univariate member (no selector) refuses it
                    ":univariate-guard-at-first-call" if site.startswith("multicol/") and "/first:" in site else ""))
        if pend:
            ctx.count("rejections_that_performed_pending_reset")
            ctx.count("ensemble_member_pending_resets")
            state["pending"] = pend

    def _fault(self, cfg, state, ev, ctx):
        ad, p = self.ad, cfg["params"]
        _, kind, cont = ev
        D = state["D"]
        k = state["k"]
        site = self.site(kind, cont, state)
        before = ad.public(D)
        exc = None
        self._seed(cfg, state, ctx)
        try:
            ad.fault(D, kind, cont, p)
        except HarnessError:
            raise
        except Exception as e:  # noqa: BLE001
            exc = e
        try:
            after = ad.public(D)
        except Exception as e:  # noqa: BLE001
            after = {"unobservable": repr(e)}
        est = state["est"]
        ctxt = "%s, malformed call '%s' as %s at position %d (established so far: width %s, names %s)" % (
            ad.name, kind, cont, k, est["width"], est["names"])
        moved = {x: [before.get(x), after.get(x)] for x in ("total", "since", "state") if before.get(x) != after.get(x)}
        if exc is None:
            raise Violation(
                "malformed-accepted",
                "%s was accepted (no exception)%s" % (ctxt, "; counters/state moved: %s" % moved if moved else ""),
                expected="ValueError", observed={"exception": None, "moved": moved},
                sig=self._sig("malformed-accepted", site),
            )
        if not isinstance(exc, ValueError):
            raise Violation(
                "malformed-wrong-exception",
                "%s raised %s instead of ValueError: %s%s" % (ctxt, type(exc).__name__, str(exc)[:120], "; counters/state moved: %s" % moved if moved else ""),
                expected="ValueError", observed={"exception": repr(exc)[:200], "moved": moved},
                sig=self._sig("malformed-raised-%s" % type(exc).__name__, site),
            )
        pending = before["state"] == "drift"
        if ad.is_ensemble:
            self._judge_ensemble_rejection(state, before, after, ctxt, site, moved, ctx)
        elif after.get("total") != before["total"] and not pending:
            raise Violation(
                "rejected-call-counted",
                "%s raised ValueError but was counted: %s" % (ctxt, moved),
                expected=before, observed=after, sig=self._sig("rejected-call-counted", site),
            )
        elif not _same(after, before):
            if pending:
                # the detector performed its pending post-drift re-initialisation before validating;
                # what that means for later calls is judged by (iii)
                ctx.count("rejections_that_performed_pending_reset")
                state["pending"] = True
            else:
                bad = sorted(x for x in set(before) | set(after) if not _same(before.get(x), after.get(x)))
                raise Violation(
                    "rejected-call-changed-state",
                    "%s raised ValueError but changed the public observables %s" % (ctxt, bad),
                    expected={x: before.get(x) for x in bad}, observed={x: after.get(x) for x in bad},
                    sig=self._sig("rejected-call-changed-state", site),
                )
        L = len(cfg["base"])
        ctx.mark("rejections")
        ctx.count("rejected_at_first_call" if k == 0 else ("rejected_at_end" if k == L else "rejected_in_middle"))
        if before["state"] == "drift":
            ctx.count("rejected_right_after_drift")
            ctx.count("rejected_right_after_drift:" + ad.name)
        if before["state"] == "warning":
            ctx.count("rejected_in_warning_state")
        if state["prev_ref"]:
            ctx.count("rejected_right_after_set_reference")
            ctx.count("rejected_right_after_set_reference:" + ad.name)
        ctx.count("kind:" + kind.split("@")[0])
        if "@" in kind:
            ctx.count("method:" + kind.split("@")[1])
        ctx.count("container:" + cont)
        ctx.count("rejections:" + ad.name)
        if self.family:
            f = self.family
            ctx.count(f + "_rejections")
            ctx.count(f + "_rejections:" + ad.name)
            ctx.count(f + "_kind:" + kind.split("@")[0])
            ctx.count(f + "_layout:" + cont)
            ctx.count(f + "_rejected_at_first_call" if k == 0 else f + "_rejected_later")
            if before["state"] == "drift":
                ctx.count(f + "_rejected_right_after_drift")
        if ad.is_ensemble and ad.waiting(D):
            ctx.count("rejected_while_election_waiting:" + ad.name)
        if est["width"] is not None and kind.split("@")[0] in ("wrong_width", "multicol"):
            ctx.count("width_rule:%s_after_%s" % (cont, "DataFrame" if est["names"] is not None else "array"))
        if kind.split("@")[0] in ("renamed", "reordered", "duplicated"):
            ctx.count("name_rule_rejections")
        state["faulted"] = True
        state["site"] = site
        state["after"] = 0
        o = dict(after)
        o["rejected"] = kind
        return o


class InjectShape(Inject):
    """``inject-shape-<Detector>`` (round 4): the same injection scheme and oracle; the malformed calls are the ones of
    ``Adapter.shape_faults`` -- the wrong number of observations / values in every LAYOUT it can arrive in (flat, column,
    row, nested, 3-D, 2 x 2 block, empty; lists, tuples, lists of arrays, 1-D / 2-D ndarrays, Series, DataFrames) -- and
    the two valid neighbours of the malformed call use ``Adapter.shape_neighbours`` (bare numbers, 0-dimensional arrays,
    tuples, nested lists: the containers whose np.ndim / len differ from the 2-D ndarray's)."""

    family = "shape"

    def __init__(self, ad):
        self.ad = ad
        self.name = "inject-shape-" + ad.name

    def _conts(self, cfg):
        return cfg.get("nb") or self.ad.shape_neighbours

    def _faults(self, state):
        return self.ad.shape_faults(state["est"], state["D"])



# ----------------------------------------------------------------------------
# round 5: read-outs in the middle of a history
# ----------------------------------------------------------------------------
LABELS = ["height", "width", "depth"]  # plot labels: neither the names of the data (NAMES) nor those of the renamed faults
_MUTATORS = ("update", "set_reference", "reset")
_PLOT_ARGS = ("", "labels", "labels-index", "names", "other", "build-only", "depth1", "positional")


def readout_menu(ad):
    """[(name, argument id)]: "attributes" (every property and every public instance attribute is read) and every public
    method of the detector's class other than update / set_reference / reset that can be called without arguments;
    to_plotly_dataframe also with every argument set of ``_PLOT_ARGS``"""
    import inspect
    cls = ad.d.cls
    out = [("attributes", "")]
    for x in sorted(dir(cls)):
        if x.startswith("_") or x in _MUTATORS or isinstance(inspect.getattr_static(cls, x), property):
            continue
        f = getattr(cls, x)
        if not callable(f):
            continue
        if any(q.default is q.empty and q.kind in (q.POSITIONAL_ONLY, q.POSITIONAL_OR_KEYWORD)
               for q in list(inspect.signature(f).parameters.values())[1:]):
            continue
        out += [(x, a) for a in (_PLOT_ARGS if x == "to_plotly_dataframe" else ("",))]
    return out


def readout_call(ad, det, name, arg):
    import inspect
    if name == "attributes":
        for x in sorted(set(dir(type(det))) | set(vars(det))):
            if x.startswith("_"):
                continue
            if x in vars(det) or isinstance(inspect.getattr_static(type(det), x, None), property):
                repr(getattr(det, x, None))
        return
    w = ad.width or 1
    args, kw = (), {}
    if arg == "labels":
        kw = {"input_cols": LABELS[:w]}
    elif arg == "labels-index":
        kw = {"input_cols": pd.Index(LABELS[:w])}
    elif arg == "names":
        kw = {"input_cols": NAMES[:w]}
    elif arg == "other":
        kw = {"input_cols": OTHER[:w]}
    elif arg == "build-only":
        kw = {"tree_id2": None}
    elif arg == "depth1":
        kw = {"max_depth": 1}
    elif arg == "positional":
        args = ("build", "test", 1, LABELS[:w])
    elif arg:
        raise HarnessError("unknown read-out argument set %r" % (arg,))
    getattr(det, name)(*args, **kw)


class ReadOut(Inject):
    """``readout-<Detector>`` (round 5): a read-out (``readout_menu``) is called on D at any position of a valid history;
    T, the twin, is never read.  Judged exactly like a rejected call: the read-out leaves the public observables alone,
    every later valid call (the next one in every container) is accepted and gives T's observables bit-for-bit, and a
    malformed call made right after the read-out is refused with ValueError without trace (``Inject._fault``)."""

    family = "readout"

    def __init__(self, ad):
        self.ad = ad
        self.name = "readout-" + ad.name

    def site(self, kind, cont, state):
        s = super().site(kind, cont, state)
        return s if s == R2_BATCH or not state.get("readout") else "after-" + state["readout"] + ":" + s

    def step(self, cfg, state, ev, pos, ctx):
        if ev[0] == "r":
            return self._readout(cfg, state, ev, ctx)
        try:
            return super().step(cfg, state, ev, pos, ctx)
        except Violation as v:
            if state.get("readout") and state.get("rd_only"):
                raise Violation(v.sub, v.msg.replace("the rejected malformed call", "the read-out call")
                                .replace("the malformed call", "the read-out call"), v.expected, v.observed, v.sig)
            raise

    def _fault(self, cfg, state, ev, ctx):
        o = super()._fault(cfg, state, ev, ctx)
        state["rd_only"] = False
        if state.get("readout"):
            ctx.count("readout_then_malformed_rejected")
        return o

    def _readout(self, cfg, state, ev, ctx):
        ad = self.ad
        _, name, arg = ev
        D = state["D"]
        before = ad.public(D)
        self._seed(cfg, state, ctx)
        what = "%s.%s(%s) after %d valid call(s)" % (ad.name, name, arg, state["k"])
        try:
            readout_call(ad, D, name, arg)
            ctx.count("readout_returned")
            ctx.count("readout_returned:%s" % name)
        except HarnessError:
            raise
        except Exception:  # noqa: BLE001  a read-out before there is anything to read may raise; it must still leave no trace
            ctx.count("readout_raised")
        after = ad.public(D)
        site = "readout:%s(%s)" % (name, arg)
        if not _same(before, after):
            bad = sorted(x for x in set(before) | set(after) if not _same(before.get(x), after.get(x)))
            raise Violation(
                "readout-changed-state", "the read-out %s changed the public observables %s" % (what, bad),
                expected={x: before.get(x) for x in bad}, observed={x: after.get(x) for x in bad},
                sig="readout-changed-state:" + site + ":" + ad.base)
        ctx.mark("readout_calls")
        ctx.count("readout_calls:" + ad.name)
        ctx.count("readout_method:" + name)
        if arg:
            ctx.count("readout_args:" + arg)
        ctx.count("readout_at_first_call" if state["k"] == 0 else "readout_at_end" if state["k"] == len(cfg["base"]) else "readout_in_middle")
        if before["state"] == "drift":
            ctx.count("readout_right_after_drift")
        state["readout"] = site
        state["rd_only"] = True
        state["faulted"] = True  # from here on a difference between D and T is a verdict, not harness non-determinism
        state["site"] = site
        state["after"] = 0
        return dict(after, readout=name)


_ROWCOUNT_KINDS = ("two_rows", "one_row", "two_rows_other_width", "two_rows_renamed", "one_row_other_width", "one_row_renamed")


def readout_paths(ad, cfg):
    """every path of one readout-* task: base history in the default container c0; the read-out at every position
    k = 0..L; then either the rest of the history with call k in every injection container, or every malformed call
    that applies at that point followed by the rest of the history"""
    base, c0 = cfg["base"], cfg["c0"]
    L = len(base)
    paths = []
    for name, arg in cfg["readouts"]:
        for k in range(L + 1):
            head = [["v", base[i], c0] for i in range(k)] + [["r", name, arg]]
            if k == L:
                paths.append(head)
                continue
            for cn in ad.inj_containers:
                paths.append(head + [["v", base[k], cn]] + [["v", base[i], c0] for i in range(k + 1, L)])
            est = {"width": None, "names": None}
            if k:
                w, names = ad.establishes(base[0], c0)
                est = {"width": w, "names": names}
            for kind, c in ad.faults(est, None):
                # the calls that are malformed whatever has been established (wrong number of rows) only as 2-D ndarray;
                # the ones that are malformed relative to what the history established (width, names) in every container
                if kind.split("@")[0] in _ROWCOUNT_KINDS and (c != "ndarray" or kind.split("@")[0] != _ROWCOUNT_KINDS[0 if ad.kind == "stream" else 1]):
                    continue
                paths.append(head + [["f", kind, c]] + [["v", base[i], c0] for i in range(k, L)])
    return paths


def readout_enum(task, seed):
    return enum_paths(task, seed, readout_paths(SYSTEMS[task["system"]].ad, task["cfg"]))


# ----------------------------------------------------------------------------
# container equivalence
# ----------------------------------------------------------------------------
class Equiv(System):
    family = "equiv"

    def __init__(self, ad):
        self.ad = ad
        self.name = "equiv-" + ad.name

    def _conts(self, sym):
        return self.ad.eq_containers(sym)

    def init(self, cfg):
        rng.seed_step(0, self.name, cfg["id"], "init")
        return {"D": self.ad.make(cfg["params"]), "ref": None}

    def alphabet(self, cfg, state, pos):
        h = cfg["hist"]
        if pos >= len(h):
            return []
        return [["v", h[pos], c] for c in self._conts(h[pos])]

    def _reference(self, cfg, seed):
        ad, p = self.ad, cfg["params"]
        rng.seed_step(0, self.name, cfg["id"], "init")
        R = ad.make(p)
        out = []
        for i, sym in enumerate(cfg["hist"]):
            if ad.stochastic:
                rng.seed_step(seed, ad.name, cfg["id"], i)
            ad.call(R, sym, ad.canonical, p)
            out.append(ad.public(R))
        return out

    def step(self, cfg, state, ev, pos, ctx):
        ad, p = self.ad, cfg["params"]
        if state["ref"] is None:
            state["ref"] = self._reference(cfg, ctx.seed)
        _, sym, cont = ev
        D = state["D"]
        if ad.stochastic:
            rng.seed_step(ctx.seed, ad.name, cfg["id"], pos)
        try:
            ad.call(D, sym, cont, p)
        except Exception as e:  # noqa: BLE001
            raise Violation(
                "container-rejected",
                "%s: valid call #%d (%s) passed as %s raised %r; the same values as 2-D ndarray are accepted"
                % (ad.name, pos, "set_reference" if ad.is_ref(sym) else "update", cont, e),
                expected="accepted", observed=repr(e),
                sig="container-rejected:%s:%s:%s" % (ad.name, cont, type(e).__name__),
            )
        od, exp = ad.public(D), state["ref"][pos]
        if not _same(od, exp):
            bad = sorted(k for k in set(od) | set(exp) if not _same(od.get(k), exp.get(k)))
            raise Violation(
                "container-differs",
                "%s: observables %s after call #%d differ from the all-ndarray run (this call passed as %s)" % (ad.name, bad, pos, cont),
                expected={k: exp.get(k) for k in bad}, observed={k: od.get(k) for k in bad},
                sig="container-differs:%s:%s" % (ad.name, cont),
            )
        f = self.family
        ctx.count(f + "_compared_steps")
        ctx.count(f + "_container:" + cont)
        if cont != ad.canonical:
            ctx.mark(f + "_noncanonical_calls")
        if od["state"] == "drift":
            ctx.count(f + "_drift_steps")
            ctx.count(f + "_drift_steps:" + ad.name)
        return od


class EquivX(Equiv):
    """``equivx-<Detector>`` (round 4): container equivalence for the one-observation containers ``equiv-*`` does not
    use -- numpy scalar, 0-dimensional ndarray, tuple, nested list / tuple, list of arrays -- against the same all-2-D-
    ndarray reference run."""

    family = "equivx"

    def __init__(self, ad):
        self.ad = ad
        self.name = "equivx-" + ad.name

    def _conts(self, sym):
        return self.ad.eqx_containers(sym)


# ----------------------------------------------------------------------------
# container equivalence, caller-owned containers that are reused
# ----------------------------------------------------------------------------
_NP = {"f8": np.float64, "f4": np.float32, "i8": np.int64, "i4": np.int32, "u1": np.uint8}


def np_dtype(dtype, py=float):
    """numpy dtype of a container variant; "py" (python numbers in lists) = what numpy makes of them"""
    return _NP[dtype] if dtype in _NP else (np.float64 if py is float else np.int64)


def buf_new(kind, dtype, shape, row, py=float):
    """a caller-owned container of the given kind for values of the given 2-D shape, holding zeros"""
    z = np.zeros(shape, dtype=np_dtype(dtype, py))
    flat = z[0] if row else z[:, 0]
    if kind == "nd2":
        return z
    if kind == "nd1":
        return flat.copy()
    if kind == "Series":
        return pd.Series(flat.copy())
    if kind == "DataFrame":
        return pd.DataFrame(z, columns=NAMES[: shape[1]])
    if kind == "list2":
        return z.tolist()
    if kind == "list1":
        return flat.tolist()
    raise HarnessError("unknown reusable container %r" % (kind,))


def buf_write(obj, kind, arr, row, py=float):
    """overwrite the caller-owned container IN PLACE with the values of ``arr`` (the object stays the same)"""
    arr = np.asarray(arr, dtype=float)
    if py is not float:
        arr = arr.astype(np.int64)
    flat = arr[0] if row else arr[:, 0]
    if kind == "nd2":
        obj[...] = arr
    elif kind == "nd1":
        obj[...] = flat
    elif kind == "Series":
        obj.iloc[:] = flat.astype(obj.dtype)
    elif kind == "DataFrame":
        obj.iloc[:, :] = arr.astype(obj.dtypes.iloc[0])
    elif kind == "list2":
        for i, r in enumerate(arr.tolist()):
            obj[i][:] = r
    elif kind == "list1":
        obj[:] = flat.tolist()
    else:
        raise HarnessError("unknown reusable container %r" % (kind,))


def buf_read(obj, kind, row):
    """the values the caller-owned container currently holds, as a 2-D float array"""
    if kind in ("Series", "DataFrame"):
        a = obj.to_numpy(dtype=float)
    else:
        a = np.array(obj, dtype=float)
    if a.ndim == 1:
        a = a.reshape(1, -1) if row else a.reshape(-1, 1)
    return a


class Reuse(System):
    """``reuse-<Detector>``: the values of a valid history reach the detector either in a fresh 2-D ndarray or in ONE
    caller-owned container per role and shape that the caller overwrites in place before every call in which it is
    used (the preallocated buffer / the one-cell Series of a streaming loop).  Every assignment of {fresh, reused}
    to the positions of the history must reproduce the observation trace of the all-fresh run: the detector may keep
    the values it was given, not the caller's object."""

    def __init__(self, ad):
        self.ad = ad
        self.name = "reuse-" + ad.name

    def init(self, cfg):
        rng.seed_step(0, self.name, cfg["id"], "init")
        return {"D": self.ad.make(cfg["params"]), "ref": None, "bufs": {}, "passed": {}}

    def alphabet(self, cfg, state, pos):
        h = cfg["hist"]
        if pos >= len(h):
            return []
        return [["v", h[pos], "fresh"], ["v", h[pos], cfg["kind"]]]

    def _reference(self, cfg, seed):
        ad, p = self.ad, cfg["params"]
        rng.seed_step(0, self.name, cfg["id"], "init")
        R = ad.make(p)
        out = []
        for i, sym in enumerate(cfg["hist"]):
            if ad.stochastic:
                rng.seed_step(seed, ad.name, cfg["id"], i)
            try:
                ad.call_obj(R, sym, self._fresh(sym, cfg["dtype"]))
            except Exception as e:  # noqa: BLE001
                if ad.domain_error(e):
                    out.append({"domain_error": True})
                    break
                raise Violation(
                    "valid-call-rejected",
                    "%s: valid call #%d of %r passed as fresh 2-D ndarray (%s) raised %r" % (ad.name, i, cfg["hist"], cfg["dtype"], e),
                    expected="accepted", observed=repr(e),
                    sig="valid-call-rejected:%s:%s:%s:%s" % (ad.name, ad.canonical, cfg["dtype"], type(e).__name__))
            out.append(ad.public(R))
        return out

    def _fresh(self, sym, dtype):
        """the values of the call in fresh 2-D ndarrays of the variant's dtype (the menus are exact in every dtype used)"""
        dt = np_dtype(dtype, self.ad.py)
        return {role: arr.astype(dt) for role, arr in self.ad.reuse_shapes(sym).items()}

    def step(self, cfg, state, ev, pos, ctx):
        ad, p = self.ad, cfg["params"]
        kind, dtype = cfg["kind"], cfg["dtype"]
        if state["ref"] is None:
            state["ref"] = self._reference(cfg, ctx.seed)
        _, sym, how = ev
        D = state["D"]
        exp = state["ref"][pos]
        objs = None
        if how != "fresh":
            objs = {}
            for role, arr in ad.reuse_shapes(sym).items():
                key = "%s:%dx%d" % (role, arr.shape[0], arr.shape[1])
                if key not in state["bufs"]:
                    state["bufs"][key] = buf_new(kind, dtype, arr.shape, ad.row, ad.py)
                obj = state["bufs"][key]
                old = state["passed"].get(key)
                buf_write(obj, kind, arr, ad.row, ad.py)
                if not np.array_equal(buf_read(obj, kind, ad.row), arr):
                    raise HarnessError("the reused %s (%s) does not hold the values written to it" % (kind, dtype))
                if old is not None:
                    ctx.count("reuse_objects_passed_again")
                    if not np.array_equal(old, arr):
                        ctx.mark("reuse_overwritten_with_other_values")
                state["passed"][key] = arr.copy()
                objs[role] = obj
        if ad.stochastic:
            rng.seed_step(ctx.seed, ad.name, cfg["id"], pos)
        what = "%s: valid call #%d (%s), values in %s" % (
            ad.name, pos, "set_reference" if ad.is_ref(sym) else "update",
"a fresh 2-D ndarray (%s)" % dtype if objs is None else "the caller's reused %s (%s), overwritten in place before the call" % (kind, dtype))
        try:
            ad.call_obj(D, sym, self._fresh(sym, dtype) if objs is None else objs)
        except Exception as e:  # noqa: BLE001
            if exp.get("domain_error") and ad.domain_error(e):
                ctx.terminal = True
                ctx.count("agreed_domain_error:" + ad.name)
                return {"domain_error": True}
            raise Violation(
                "reused-container-rejected",
                "%s raised %r; the same values in fresh 2-D ndarrays of the same dtype are accepted" % (what, e),
                expected="accepted", observed=repr(e),
                sig="reused-container-rejected:%s:%s:%s:%s" % (ad.name, kind, dtype, type(e).__name__))
        od = ad.public(D)
        if objs is not None:
            for role, arr in ad.reuse_shapes(sym).items():
                obj = state["bufs"]["%s:%dx%d" % (role, arr.shape[0], arr.shape[1])]
                if not np.array_equal(buf_read(obj, kind, ad.row), arr):
                    ctx.count("reuse_caller_object_changed_by_call")  # C15's subject; reported, not judged here
        if exp.get("domain_error") or not _same(od, exp):
            bad = sorted(k for k in set(od) | set(exp) if not _same(od.get(k), exp.get(k)))
            raise Violation(
                "reused-container-differs",
                "%s: observables %s differ from the run that passes the same values in fresh 2-D ndarrays of the same dtype" % (what, bad),
                expected={k: exp.get(k) for k in bad}, observed={k: od.get(k) for k in bad},
                sig="reused-container-differs:%s:%s:%s" % (ad.name, kind, dtype))
        ctx.count("reuse_compared_steps")
        ctx.count("reuse_steps:" + ad.name)
        if objs is not None:
            ctx.count("reuse_kind:" + kind)
            ctx.count("reuse_dtype:" + dtype)
        if od["state"] == "drift":
            ctx.count("reuse_drift_steps")
            ctx.count("reuse_drift_steps:" + ad.name)
        return od


def reuse_enum(task, seed):
    """All 2^L assignments of {fresh, reused} to the positions of the history, EACH executed on a freshly constructed
    detector and fresh caller objects.

    The generic explorer shares prefixes through ``copy.deepcopy`` snapshots; a deep copy of a numpy view is an
    independent array, so a snapshot would silently cut exactly the link this family is about (an object inside the
    detector that is a view of the caller's buffer).  Nothing is shared between paths here except the reference
    trace of the all-fresh run."""
    system = SYSTEMS[task["system"]]
    cfg = task["cfg"]
    hist, kind = cfg["hist"], cfg["kind"]
    L = len(hist)
    ctx = Ctx(seed)
    st = ctx.stats
    violations, samples, per_sig = [], [], Counter()
    t0 = time.time()

    def record(v, events):
        st["violations_raw"] += 1
        st["sig:" + str(v.sig)] += 1
        per_sig[v.sig] += 1
        if per_sig[v.sig] > 3:
            return
        for _ in range(2):  # a verdict must reproduce from scratch, twice
            _, v2 = run_path(system, cfg, events, seed)
            if v2 is None or (v2.sub, v2.msg) != (v.sub, v.msg):
                raise HarnessError("HARNESS-NONDET: violation %r on %s cfg=%r events=%r did not reproduce from scratch: %r"
                                   % ((v.sub, v.msg), system.name, cfg, events, None if v2 is None else (v2.sub, v2.msg)))
        violations.append(artefact(PROPERTY, system, cfg, seed, events, v))

    try:
        ref = system._reference(cfg, seed)
    except Violation as v:
        record(v, [["v", hist[0], "fresh"]])
        ref = None
    for mask in range(2 ** L if ref is not None else 0):
        state = system.init(cfg)
        state["ref"] = ref
        events, obs, marks = [], None, 0
        for pos in range(L):
            ev = ["v", hist[pos], kind if (mask >> pos) & 1 else "fresh"]
            events.append(ev)
            ctx.terminal = False
            ctx.marks = 0
            try:
                obs = system.step(cfg, state, ev, pos, ctx)
            except Violation as v:
                record(v, events)
                break
            st["transitions"] += 1
            st["states"] += 1
            marks += 1 if ctx.marks else 0
            if ctx.terminal:
                st["terminal_states"] += 1
                break
        st["executions"] += 1
        if marks:
            st["nontrivial_executions"] += 1
        if len(samples) < 1 or (marks and len(samples) < 2):
            samples.append({"system": system.name, "cfg": jsonable(cfg), "events": jsonable(events),
                            "last_obs": jsonable(obs), "nontrivial_events": marks})
    return {"stats": dict(st), "violations": violations, "samples": samples, "wall": time.time() - t0}


def enum_paths(task, seed, paths):
    """fn-task runner: every path of ``paths`` is executed from scratch (fresh objects, ``mc.procstate.reset()``) through
    the task's System; a verdict must reproduce twice from scratch before it is reported"""
    from mc import procstate
    system = SYSTEMS[task["system"]]
    cfg = task["cfg"]
    ctx = Ctx(seed)
    st = ctx.stats
    violations, samples, per_sig = [], [], Counter()
    t0 = time.time()
    for events in paths:
        procstate.reset()
        state = system.init(cfg)
        obs, marks, done = None, 0, []
        for pos, ev in enumerate(events):
            done.append(ev)
            ctx.terminal = False
            ctx.marks = 0
            try:
                obs = system.step(cfg, state, ev, pos, ctx)
            except Violation as v:
                st["violations_raw"] += 1
                st["sig:" + str(v.sig)] += 1
                per_sig[v.sig] += 1
                if per_sig[v.sig] <= 3:
                    for _ in range(2):
                        _, v2 = run_path(system, cfg, done, seed)
                        if v2 is None or (v2.sub, v2.msg) != (v.sub, v.msg):
                            raise HarnessError("HARNESS-NONDET: violation %r on %s cfg=%r events=%r did not reproduce from scratch: %r"
                                               % ((v.sub, v.msg), system.name, cfg, done, None if v2 is None else (v2.sub, v2.msg)))
                    violations.append(artefact(PROPERTY, system, cfg, seed, done, v))
                break
            st["transitions"] += 1
            st["states"] += 1
            marks += 1 if ctx.marks else 0
            if ctx.terminal:
                st["terminal_states"] += 1
                break
        st["executions"] += 1
        if marks:
            st["nontrivial_executions"] += 1
        if len(samples) < 1 or (marks and len(samples) < 2):
            samples.append({"system": system.name, "cfg": jsonable(cfg), "events": jsonable(done),
                            "last_obs": jsonable(obs), "nontrivial_events": marks})
    return {"stats": dict(st), "violations": violations, "samples": samples, "wall": time.time() - t0}


# ----------------------------------------------------------------------------
# round 5: two detectors in one process, the caller hands ONE frame object to both
# ----------------------------------------------------------------------------
SHARE_VARIANTS = ("same-frame", "same-columns-index", "copy")


class Shared(System):
    """``shared-<P>+<Q>``: detector P (column names NAMES) and detector Q (column names OTHER) live in one process and
    are fed their own valid histories as DataFrames, alternately.  At one position the caller holds ONE frame -- the next
    valid input of the owner -- and hands it to both detectors, owner first or owner second: the owner must accept it, the
    other one (which has established other names, possibly another width) must refuse it with ValueError without
    trace.  Each detector is judged by the trace of a solo run of its own valid history in a pristine process state."""

    def __init__(self, adp, adq):
        self.ads = {"p": adp, "q": adq}
        self.name = "shared-%s+%s" % (adp.name, adq.name)

    def _names(self, role):
        return (NAMES if role == "p" else OTHER)[: self.ads[role].width]

    def _frame(self, role, sym, idx=None):
        ad = self.ads[role]
        return pd.DataFrame(np.array(ad.arr(sym), dtype=float), columns=self._names(role) if idx is None else idx)

    def _apply(self, role, det, sym, X):
        ad = self.ads[role]
        if ad.is_ref(sym):
            det.set_reference(X)
        else:
            det.update(X)

    def _solo(self, cfg, role, seed):
        from mc import procstate
        ad = self.ads[role]
        procstate.reset()
        rng.seed_step(0, self.name, cfg["id"], "init", role)
        R = ad.make(cfg["params"][role])
        out = []
        for i, sym in enumerate(cfg["hist"][role]):
            if ad.stochastic:
                rng.seed_step(seed, ad.name, role, i)
            try:
                self._apply(role, R, sym, self._frame(role, sym))
            except Exception as e:  # noqa: BLE001
                if ad.domain_error(e):
                    out.append({"domain_error": True})
                    break
                raise Violation(
                    "valid-call-rejected", "%s alone in the process: valid call #%d (DataFrame) raised %r" % (ad.name, i, e),
                    expected="accepted", observed=repr(e), sig="valid-call-rejected:%s:DataFrame:%s" % (ad.name, type(e).__name__))
            out.append(ad.public(R))
        return out

    def init(self, cfg):
        return {"ref": None, "det": None, "k": {"p": 0, "q": 0}, "pending": {"p": False, "q": False}, "site": None}

    def _start(self, cfg, state, seed):
        from mc import procstate
        state["ref"] = {r: self._solo(cfg, r, seed) for r in ("p", "q")}
        procstate.reset()
        state["det"] = {}
        for r in ("p", "q"):
            rng.seed_step(0, self.name, cfg["id"], "init", r)
            state["det"][r] = self.ads[r].make(cfg["params"][r])

    def alphabet(self, cfg, state, pos):
        return []

    def step(self, cfg, state, ev, pos, ctx):
        if state["ref"] is None:
            self._start(cfg, state, ctx.seed)
        if ev[0] == "v":
            role = ev[1]
            sym = cfg["hist"][role][state["k"][role]]
            return self._accepted(cfg, state, role, self._frame(role, sym), ctx, "its own frame")
        _, owner, order, variant = ev
        other = "q" if owner == "p" else "p"
        sym = cfg["hist"][owner][state["k"][owner]]
        idx = pd.Index(self._names(owner))
        F = self._frame(owner, sym, idx)
        G = F if variant == "same-frame" else F.copy() if variant == "copy" else self._frame(owner, sym, idx)
        if variant == "same-columns-index" and F.columns is not G.columns:
            ctx.count("shared_index_not_kept_by_pandas")
        first, second = (owner, other) if order == "owner-first" else (other, owner)
        obs = {}
        for role, X in ((first, F), (second, G)):
            if role == owner:
                obs[role] = self._accepted(cfg, state, role, X, ctx, "the caller's frame (%s, %s)" % (order, variant))
            else:
                obs[role] = self._refused(cfg, state, role, owner, sym, X, ctx, order, variant)
            if ctx.terminal:
                break
        ctx.mark("shared_frames_handed_to_both")
        ctx.count("shared_order:" + order)
        ctx.count("shared_variant:" + variant)
        ctx.count("shared_pair_kind:%s" % ("same-class" if self.ads["p"].name == self.ads["q"].name else "different-class"))
        ctx.count("shared_width:%s" % ("same" if self.ads["p"].width == self.ads["q"].width else "different"))
        ctx.count("shared:" + self.ads[owner].name + "->" + self.ads[other].name)
        return obs

    def _accepted(self, cfg, state, role, X, ctx, how):
        ad = self.ads[role]
        k = state["k"][role]
        sym = cfg["hist"][role][k]
        exp = state["ref"][role][k]
        D = state["det"][role]
        partner = self.ads["q" if role == "p" else "p"].name
        what = "%s (detector %s of the pair %s, names %s): valid call #%d (%s) with %s" % (
            ad.name, role.upper(), self.name, self._names(role), k, "set_reference" if ad.is_ref(sym) else "update", how)
        if ad.stochastic:
            rng.seed_step(ctx.seed, ad.name, role, k)
        site = state["site"] or "no-shared-frame-yet"
        try:
            self._apply(role, D, sym, X)
        except Exception as e:  # noqa: BLE001
            if exp.get("domain_error") and ad.domain_error(e):
                ctx.terminal = True
                ctx.count("agreed_domain_error:" + ad.name)
                return {"domain_error": True}
            raise Violation(
                "shared-valid-rejected", "%s raised %r; alone in the process the same history is accepted (partner: %s)" % (what, e, partner),
                expected="accepted", observed=repr(e), sig="shared-valid-rejected:%s:%s" % (ad.base, site))
        od = ad.public(D)
        if state["pending"][role] and not ad.is_ref(sym):
            state["pending"][role] = False
        if state["pending"][role] and not exp.get("domain_error"):
            exp = ad.mask_pending(od, exp, True)
        if exp.get("domain_error") or not _same(od, exp):
            bad = sorted(x for x in set(od) | set(exp) if not _same(od.get(x), exp.get(x)))
            raise Violation(
                "shared-differs", "%s: observables %s differ from the solo run of the same history in a pristine process (partner: %s)" % (what, bad, partner),
                expected={x: exp.get(x) for x in bad}, observed={x: od.get(x) for x in bad},
                sig="shared-differs:%s:%s" % (ad.base, site))
        state["k"][role] = k + 1
        ctx.count("shared_compared_steps")
        ctx.count("shared_steps:" + ad.name)
        if state["site"]:
            ctx.count("shared_later_compared")
        if od["state"] == "drift":
            ctx.count("shared_drift_steps")
        return od

    def _refused(self, cfg, state, role, owner, sym, X, ctx, order, variant):
        ad, ado = self.ads[role], self.ads[owner]
        D = state["det"][role]
        k = state["k"][role]
        method = "set_reference" if ado.is_ref(sym) else "update"
        site = "foreign-frame/%s/%s/%s:%s" % (method, order, variant, ad.base)
        before = ad.public(D)
        if ad.stochastic:
            rng.seed_step(ctx.seed, ad.name, role, k)
        exc = None
        try:
            getattr(D, method)(X)
        except Exception as e:  # noqa: BLE001
            exc = e
        try:
            after = ad.public(D)
        except Exception as e:  # noqa: BLE001
            after = {"unobservable": repr(e)}
        ctxt = ("%s (detector %s of the pair %s, established names %s after %d valid call(s)): %s with the caller's frame (names %s, "
                "%d column(s)) that %s %s (%s)" % (ad.name, role.upper(), self.name, self._names(role), k, method, list(X.columns), X.shape[1],
                                                  ado.name, "had just accepted" if order == "owner-first" else "accepts next", variant))
        moved = {x: [before.get(x), after.get(x)] for x in ("total", "since", "state") if before.get(x) != after.get(x)}
        if exc is None:
            raise Violation("malformed-accepted", "%s was accepted (no exception)%s" % (ctxt, "; counters/state moved: %s" % moved if moved else ""),
                            expected="ValueError", observed={"exception": None, "moved": moved}, sig="malformed-accepted:" + site)
        if not isinstance(exc, ValueError):
            raise Violation("malformed-wrong-exception", "%s raised %s instead of ValueError: %s" % (ctxt, type(exc).__name__, str(exc)[:120]),
                            expected="ValueError", observed={"exception": repr(exc)[:200], "moved": moved},
                            sig="malformed-raised-%s:%s" % (type(exc).__name__, site))
        pending = before["state"] == "drift"
        if after.get("total") != before["total"] and not pending:
            raise Violation("rejected-call-counted", "%s raised ValueError but was counted: %s" % (ctxt, moved),
                            expected=before, observed=after, sig="rejected-call-counted:" + site)
        if not _same(after, before):
            if pending:
                ctx.count("rejections_that_performed_pending_reset")
                state["pending"][role] = True
            else:
                bad = sorted(x for x in set(before) | set(after) if not _same(before.get(x), after.get(x)))
                raise Violation("rejected-call-changed-state", "%s raised ValueError but changed the public observables %s" % (ctxt, bad),
                                expected={x: before.get(x) for x in bad}, observed={x: after.get(x) for x in bad},
                                sig="rejected-call-changed-state:" + site)
        state["site"] = site
        ctx.count("shared_rejections")
        ctx.count("shared_rejections:" + ad.name)
        ctx.count("shared_method:" + method)
        if pending:
            ctx.count("shared_rejected_right_after_drift")
        return dict(after, rejected="foreign-frame")


def shared_paths(cfg):
    """both histories in lock-step (p0 q0 p1 q1 ...); at every position j >= 1 of either owner the owner's call j is the
    caller's frame handed to both, in both orders, in every sharing variant"""
    L = {r: len(cfg["hist"][r]) for r in ("p", "q")}
    n = max(L.values())
    paths = []
    for owner in ("p", "q"):
        for j in range(1, L[owner]):
            for order in ("owner-first", "other-first"):
                for variant in SHARE_VARIANTS:
                    evs = []
                    for i in range(n):
                        for r in ("p", "q"):
                            if i >= L[r]:
                                continue
                            evs.append(["x", owner, order, variant] if (r == owner and i == j) else ["v", r])
                    paths.append(evs)
    return paths


def shared_enum(task, seed):
    return enum_paths(task, seed, shared_paths(task["cfg"]))


def shared_pairs():
    """ordered pairs (P, Q), P = Q included, of the detectors of one kind that validate X: streaming x streaming, batch x batch"""
    out = []
    for kind in ("stream", "batch"):
        ns = [n for n, a in ADAPTERS.items() if a.kind == kind and a.width is not None and n != "MD3"]
        out += [(a, b) for a in ns for b in ns]
    return out


def shared_hist(ad, tier, second):
    bs = ad.bases(tier)
    h = list(bs[-1] if second else bs[0])
    return h[: (5 if tier == "quick" else 7)]


SYSTEMS = {}
for _a in ADAPTERS.values():
    SYSTEMS["inject-" + _a.name] = Inject(_a)
    if _a.eq_hist:
        SYSTEMS["equiv-" + _a.name] = Equiv(_a)
    if _a.reuse_kinds:
        SYSTEMS["reuse-" + _a.name] = Reuse(_a)
    if _a.name != "MD3":
        SYSTEMS["inject-shape-" + _a.name] = InjectShape(_a)
        SYSTEMS["equivx-" + _a.name] = EquivX(_a)
for _a in ADAPTERS.values():
    if _a.name != "MD3":
        SYSTEMS["readout-" + _a.name] = ReadOut(_a)
for _pq in shared_pairs():
    SYSTEMS["shared-%s+%s" % _pq] = Shared(ADAPTERS[_pq[0]], ADAPTERS[_pq[1]])
for _a in ENSEMBLES.values():
    SYSTEMS["inject-" + _a.name] = Inject(_a)
    if _a.kind == "stream":
        SYSTEMS["inject-shape-" + _a.name] = InjectShape(_a)

for _n in ("KdqTreeStreaming", "KdqTreeBatch", "HDDDM", "CDBD", "NNDVI", "PCACD"):
    ADAPTERS[_n].quick_prefix = 1
    ADAPTERS[_n].thorough_prefix = 2

SLOW = {"KdqTreeStreaming": 30, "KdqTreeBatch": 60, "HDDDM": 30, "CDBD": 20, "NNDVI": 10, "PCACD": 20, "LinearFourRates": 8, "MD3": 10,
        "BEns-cols": 40, "BEns-all": 40, "SEns-cols": 3, "SEns-one": 3, "SEns-xy": 2}

# reuse-*: CUSUM is the detector whose decisions depend on a kept history of raw observations (estimation of target
# and sd_hat at the end of the burn-in and after every alarm): both estimated and given statistics, in both tiers
ADAPTERS["CUSUM"].reuse_params = [
    {"target": None, "sd_hat": None, "burn_in": 2, "delta": 0.5, "threshold": 1},
    {"target": None, "sd_hat": None, "burn_in": 3, "delta": 0, "threshold": 2, "direction": "positive"},
]
ADAPTERS["PageHinkley"].reuse_params = [{"delta": 0.5, "threshold": 2, "burn_in": 1}]


def _params(ad, tier):
    return ad.param_sets(tier)


def reuse_hists(ad, tier):
    """the first base history (empty prefix + tail, the tail repeated if short) cut to a length whose 2^L assignments
    are affordable, and the equivalence histories"""
    if ad.name in SLOW:
        n = 5 if tier == "quick" else 7
    else:
        n = 7 if tier == "quick" else 10
    out = []
    first = list(ad.bases(tier)[0])
    while len(first) < n:
        first += list(ad.tail)
    for h in [first[:n]] + [list(h) for h in ad.eq_hist]:
        if h not in out:
            out.append(h)
    return out


def reuse_configs(ad, tier):
    """[(id, params)]: the inject/equiv parameter sets of the tier, then the reuse-only ones"""
    ps = list(_params(ad, tier))
    out = [(i, p) for i, p in enumerate(ps)]
    for j, p in enumerate(ad.reuse_params or ()):
        if p not in ps:
            out.append((100 + j, p))
    return out


def reuse_variants(ad, tier):
    """[(container kind, dtype)]: lists hold python floats; array-likes in every dtype of the adapter (quick: the
    second and third dtype only for the 2-D ndarray and the Series)"""
    out = []
    for k in ad.reuse_kinds:
        if k.startswith("list"):
            out.append((k, "py"))
            continue
        for i, dt in enumerate(ad.reuse_dtypes):
            if i == 0 or tier == "thorough" or k in ("nd2", "Series"):
                out.append((k, dt))
    return out


def shape_prefix(ad, tier):
    """inject-shape-*: enumerated prefix length of the base histories (the family multiplies the number of malformed
    calls, not of histories: one symbol shorter than inject-* in quick, the same in thorough)"""
    if tier != "quick":
        return ad.quick_prefix
    if ad.is_ensemble:
        return 0
    return max(0, ad.quick_prefix - (2 if ad.quick_prefix >= 3 else 1))


def shaped(tier):
    """{name: adapter} of the detectors / ensembles that have an inject-shape-* family in this tier (ensembles: those
    with a member that reads the labels)"""
    out = {}
    for n, a in list(ADAPTERS.items()) + list(ENSEMBLES.items()):
        if "inject-shape-" + n not in SYSTEMS:
            continue
        if a.is_ensemble and not any(t == "ddm" for p in _params(a, tier) for _, t, _c in p["members"]):
            continue
        out[n] = a
    return out


def shape_nb(name, ad, tier):
    """inject-shape-*: containers of the two valid neighbours of the malformed call (slow detectors, quick tier: the
    2-D ndarray and the first of the others)"""
    nb = list(ad.shape_neighbours)
    return nb[:2] if tier == "quick" and name in SLOW else nb


def _inject_tasks(name, ad, tier, out, shape=False):
    fam = "inject-shape-" if shape else "inject-"
    bases = ad.bases(tier, shape_prefix(ad, tier)) if shape else ad.bases(tier)
    if shape:
        defaults = ("ndarray",)
    elif name == "MD3":
        defaults = ("DataFrame",)
    elif tier != "thorough":
        defaults = ("ndarray",)
    elif ad.quick_prefix < 3 or ad.is_ensemble:  # slow detectors
        defaults = ("ndarray", "DataFrame")
    else:
        defaults = ("ndarray", "DataFrame", "list")
    for pi, p in enumerate(_params(ad, tier)):
        for bi, base in enumerate(bases):
            L = len(base)
            n = 1 if name.startswith(("Kdq", "BEns")) else 2 if name in SLOW and not name.startswith("SEns") else 3 if L > 6 else L + 1
            if shape and n > 1:
                n = 1 if name in SLOW and not name.startswith("SEns") else 2
            chunks = [(i, min(i + n - 1, L)) for i in range(0, L + 1, n)]
            for c0 in defaults:
                for lo, hi in chunks:
                    out.append({
                        "system": fam + name,
                        "cfg": dict({"id": pi, "params": p, "base": base, "c0": c0, "pos": [lo, hi]},
                                    **({"nb": shape_nb(name, ad, tier)} if shape else {})),
                        "prefix": [],
                        "depth": L + 1,
                        "label": "%s%s|%d|base%d|%s|pos%d-%d" % (fam, name, pi, bi, c0, lo, hi),
                        "cost": SLOW.get(name, 1) * L * (3 if shape else 1),
                        "validate_every": 97,
                    })


def tasks(tier, seed):
    out = []
    for name, ad in ADAPTERS.items():
        _inject_tasks(name, ad, tier, out)
        for pi, p in enumerate(_params(ad, tier)):
            for hi, h in enumerate(ad.eq_hist):
                cs = ad.eq_containers(h[0])
                for c in cs:
                    out.append({
                        "system": "equiv-" + name,
                        "cfg": {"id": pi, "params": p, "hist": h},
                        "prefix": [["v", h[0], c]],
                        "depth": len(h) - 1,
                        "label": "equiv-%s|%d|hist%d|%s" % (name, pi, hi, c),
                        "cost": SLOW.get(name, 1),
                        "validate_every": 97,
                    })
        if "inject-shape-" + name in SYSTEMS:
            _inject_tasks(name, ad, tier, out, shape=True)
            for pi, p in enumerate(_params(ad, tier)):
                for hi, h in enumerate(ad.eq_hist):
                    for c in ad.eqx_containers(h[0]):
                        out.append({
                            "system": "equivx-" + name,
                            "cfg": {"id": pi, "params": p, "hist": h},
                            "prefix": [["v", h[0], c]],
                            "depth": len(h) - 1,
                            "label": "equivx-%s|%d|hist%d|%s" % (name, pi, hi, c),
                            "cost": SLOW.get(name, 1),
                            "validate_every": 97,
                        })
        if ad.reuse_kinds:
            for pid, p in reuse_configs(ad, tier):
                for hi, h in enumerate(reuse_hists(ad, tier)):
                    for kind, dt in reuse_variants(ad, tier):
                        out.append({
                            "system": "reuse-" + name,
                            "cfg": {"id": pid, "params": p, "hist": h, "kind": kind, "dtype": dt},
                            "fn": "reuse_enum",
                            "label": "reuse-%s|%d|hist%d|%s|%s" % (name, pid, hi, kind, dt),
                            "cost": SLOW.get(name, 1) * len(h) * 2 ** len(h) / 64.0,
                        })
    for name, ad in ENSEMBLES.items():
        _inject_tasks(name, ad, tier, out)
        if name in shaped(tier):
            _inject_tasks(name, ad, tier, out, shape=True)
    # round 5: readout-* (one task per detector x parameter set x default container x read-out)
    for name, ad in ADAPTERS.items():
        if "readout-" + name not in SYSTEMS:
            continue
        for pi, p in enumerate(_params(ad, tier)):
            for c0 in readout_defaults(ad):
                for ri, r in enumerate(readout_menu(ad)):
                    base = readout_base(ad, tier)
                    out.append({
                        "system": "readout-" + name,
                        "cfg": {"id": pi, "params": p, "base": base, "c0": c0, "readouts": [list(r)]},
                        "fn": "readout_enum",
                        "label": "readout-%s|%d|%s|%s(%s)" % (name, pi, c0, r[0], r[1]),
                        "cost": SLOW.get(name, 1) * len(base) * 3,
                    })
    # round 5: shared-* (one task per ordered pair of detectors)
    for a, b in shared_pairs():
        ada, adb = ADAPTERS[a], ADAPTERS[b]
        out.append({
            "system": "shared-%s+%s" % (a, b),
            "cfg": {"id": 0, "params": {"p": _params(ada, tier)[0], "q": _params(adb, tier)[-1 if tier == "thorough" else 0]},
                    "hist": {"p": shared_hist(ada, tier, False), "q": shared_hist(adb, tier, True)}},
            "fn": "shared_enum",
            "label": "shared-%s+%s" % (a, b),
            "cost": (SLOW.get(a, 1) + SLOW.get(b, 1)) * 5,
        })
    return out


def readout_defaults(ad):
    return ("ndarray", "DataFrame") if ad.width is not None else ("ndarray",)


def readout_base(ad, tier):
    return list(ad.bases(tier)[0])[: (6 if tier == "quick" else 8)]


_DRIFTERS = [n for n in ADAPTERS]
_KINDS = ["two_rows", "two_rows_other_width", "two_rows_renamed", "one_row", "one_row_other_width", "one_row_renamed",
          "wrong_width", "multicol", "renamed", "y_true_multi", "y_pred_multi", "y_both_multi",
          "extra_column", "missing_column", "reordered", "duplicated"]

TIME_BUDGET = {"quick": 1800, "thorough": 9000}  # safety net for a heavily shared machine; ~25 CPU-s/core quick

_REQUIRED = (
    ["rejections", "rejected_at_first_call", "rejected_in_middle", "rejected_at_end", "rejected_right_after_drift",
     "rejected_right_after_set_reference", "later_accepted_calls_compared", "name_rule_rejections",
     "width_rule:list_after_array", "width_rule:ndarray_after_array", "width_rule:ndarray_after_DataFrame",
     "width_rule:list_after_DataFrame", "width_rule:DataFrame_after_DataFrame",
     "method:update", "method:set_reference", "equiv_compared_steps", "equiv_drift_steps"]
    + ["kind:" + k for k in _KINDS]
    + ["container:" + c for c in INJ]
    + ["next_container:" + c for c in INJ]
    + ["equiv_container:" + c for c in ("scalar", "list", "nd1", "ndarray", "Series", "DataFrame", "list1")]
    + ["rejections:" + n for n in ADAPTERS]
    + ["later_compared:" + n for n in ADAPTERS]
    + ["rejected_right_after_drift:" + n for n in _DRIFTERS]
    + ["rejected_right_after_set_reference:" + n for n, a in ADAPTERS.items() if a.kind == "batch"]
    # round 3b.  reuse-*: whether a step is compared does not depend on random draws (a stochastic detector's drifts do:
    # reuse_drift_steps:<name> is reported, the total is carried by the deterministic detectors)
    + ["reuse_compared_steps", "reuse_objects_passed_again", "reuse_overwritten_with_other_values", "reuse_drift_steps"]
    + ["reuse_kind:" + k for k in ("nd2", "nd1", "Series", "DataFrame", "list1", "list2")]
    + ["reuse_dtype:" + d for d in ("f8", "f4", "i8", "i4", "u1", "py")]
    + ["reuse_steps:" + n for n, a in ADAPTERS.items() if a.reuse_kinds]
    + ["reuse_drift_steps:" + n for n in ("CUSUM", "PageHinkley", "ADWIN", "DDM")]
    # ensembles: the members of the streaming ensembles are deterministic; the batch ensembles' drifts depend on the
    # bootstrap draws of their members and are reported only
    + ["rejections:" + n for n in ENSEMBLES]
    + ["later_compared:" + n for n in ENSEMBLES]
    + ["rejected_right_after_drift:" + n for n, a in ENSEMBLES.items() if a.kind == "stream"]
    + ["rejected_while_election_waiting:" + n for n, a in ENSEMBLES.items() if a.kind == "stream"]
    + ["ensemble_member_pending_resets", "later_compared_while_election_waiting"]
)

_SHAPE_KINDS = ["y_true_multi", "y_pred_multi", "y_both_multi", "y_true_empty", "y_pred_empty", "multicol", "two_values",
                "three_rows", "two_rows", "no_rows", "wrong_width", "two_rows_flat", "one_value", "one_row",
                "row_of_values", "flat_column"]


def REQUIRED(tier):
    """round 4: inject-shape-* / equivx-* are exercised (none of these counters depends on random draws: which calls
    are malformed, rejected and compared is decided by the histories; the drifts counted are those of the
    deterministic detectors)"""
    sh = shaped(tier)
    nb = sorted({c for n, a in sh.items() for c in shape_nb(n, a, tier)})
    return (
        list(_REQUIRED)
        + ["shape_rejections", "shape_rejected_at_first_call", "shape_rejected_later", "shape_rejected_right_after_drift"]
        + ["shape_rejections:" + n for n in sh]
        + ["shape_later_compared:" + n for n in sh]
        + ["shape_kind:" + k for k in _SHAPE_KINDS]
        + ["shape_layout:%s/%d" % fk for fk in Y_SHAPES]
        + ["shape_layout:" + c for c in ("tuple2", "list.of-nd", "nd1", "Series", "tuple", "scalar", "nd0", "list1", "list2")]
        + ["shape_next_container:" + c for c in nb]
        + ["equivx_compared_steps", "equivx_noncanonical_calls", "equivx_drift_steps"]
        + ["equivx_container:" + c for c in ("npscalar", "nd0", "tuple", "list2", "tuple2", "list.of-nd")]
        + ["equivx_drift_steps:" + n for n in ("CUSUM", "PageHinkley", "ADWIN", "DDM")]
        # round 5 (which read-outs are made, which frames are handed to both detectors and which calls are compared is
        # decided by the histories, not by random draws)
        + ["readout_calls", "readout_returned", "readout_at_first_call", "readout_in_middle", "readout_at_end",
           "readout_then_malformed_rejected", "readout_rejections"]
        + ["readout_method:" + m for m in ("attributes", "to_plotly_dataframe", "to_dataframe", "mean", "variance", "recent_accuracy")]
        + ["readout_args:" + a for a in _PLOT_ARGS if a]
        + ["readout_calls:" + n for n in ADAPTERS if n != "MD3"]
        + ["readout_later_compared:" + n for n in ADAPTERS if n != "MD3"]
        + ["shared_frames_handed_to_both", "shared_rejections", "shared_later_compared", "shared_compared_steps", "shared_drift_steps",
           "shared_method:update", "shared_method:set_reference", "shared_pair_kind:same-class", "shared_pair_kind:different-class",
           "shared_width:same", "shared_width:different", "shared_order:owner-first", "shared_order:other-first"]
        + ["shared_variant:" + v for v in SHARE_VARIANTS]
        + ["shared_rejections:" + n for n in sorted({x for pq in shared_pairs() for x in pq})]
    )


def describe(tier):
    return {
        "rule": "inject-*: per detector and parameter set, every base history (all sequences of length <= 3 over a "
        "2-symbol menu + fixed tail) x ONE malformed call at every position 0..L x every applicable fault kind x "
        "container of the malformed call x container of its left and right neighbour (other valid calls use the "
        "default container: ndarray in quick; ndarray, DataFrame and (fast detectors) list in thorough); equiv-*: every assignment "
        "of the applicable containers to the positions of the listed valid histories; non-trivial = history with a "
        "rejected malformed call resp. a non-ndarray container; "
        "inject-<S|B>Ens-*: the same injection scheme for StreamingEnsemble / BatchEnsemble objects (members, selectors "
        "and elections listed under bounds.ensembles; base histories over the listed menus, prefix length <= 2 "
        "(stream, 3 for SEns-one) / 0 (batch) in quick, one more in thorough); "
        "reuse-*: per detector, parameter set, reusable container kind and dtype, every assignment of {fresh 2-D "
        "ndarray, the caller's ONE reused object of that kind (overwritten in place before the call)} to the positions "
        "of the listed histories (2^L paths); "
        "inject-shape-* (round 4): the inject-* scheme and oracle with the malformed calls of bounds.shape_faults -- "
        "the wrong number of observations / values in every layout (flat, column, row, nested, list of arrays, 3-D, "
        "2 x 2 block, empty; list, tuple, 1-D / 2-D / 3-D ndarray, Series, DataFrame) x every position x containers of "
        "the two valid neighbours from bounds.shape_neighbours; base histories: prefix length bounds.shape_prefix; "
        "equivx-* (round 4): every assignment of bounds.equivx_containers (numpy scalar, 0-dimensional ndarray, tuple, "
        "nested list / tuple, list of arrays) to the positions of the equivalence histories, against the all-2-D-ndarray run; "
        "readout-* (round 5): per detector (all but MD3 and the ensembles), parameter set and default container (2-D ndarray; DataFrame "
        "too where X is validated): the first base history (bounds.readout_history) x ONE read-out of bounds.readouts at every "
        "position 0..L x { the next valid call in every injection container, rest in the default container | every malformed "
        "call whose status depends on what the history established (width, names: every container) and one row-count fault "
        "(2-D ndarray) right after the read-out, then the rest of the history }, every path executed from scratch; "
        "shared-* (round 5): every ordered pair (P, Q), P = Q included, of the streaming detectors that validate X and of the "
        "batch detectors (bounds.shared_pairs); P is fed its history as DataFrames named a,b.., Q its own as DataFrames named "
        "x,y.., alternately (p0 q0 p1 q1 ...); at every position j >= 1 of either owner the caller's ONE frame (the owner's "
        "valid input j, passed through the owner's method: update or set_reference) is handed to both detectors, owner first / "
        "owner second, as the same DataFrame object / two frames over one columns Index object / frame and frame.copy(); "
        "every path executed from scratch after mc.procstate.reset()",
        "bounds": {
            "readouts": {n: ["%s(%s)" % r for r in readout_menu(a)] for n, a in ADAPTERS.items() if "readout-" + n in SYSTEMS},
            "readout_history": {n: readout_base(a, tier) for n, a in ADAPTERS.items() if "readout-" + n in SYSTEMS},
            "readout_plot_arguments": {"labels": "input_cols=['height','width'..] (list)", "labels-index": "the same as pandas Index",
                                       "names": "input_cols = the data's column names a,b..", "other": "input_cols = x,y.. (the names of the 'renamed' malformed calls)",
                                       "build-only": "tree_id2=None", "depth1": "max_depth=1", "positional": "('build','test',1,labels)"},
            "shared_pairs": ["%s+%s" % pq for pq in shared_pairs()],
            "shared_histories": {n: [shared_hist(ADAPTERS[n], tier, False), shared_hist(ADAPTERS[n], tier, True)]
                                 for n in sorted({x for pq in shared_pairs() for x in pq})},
            "shared_variants": list(SHARE_VARIANTS),
            "shape_prefix": {n: shape_prefix(a, tier) for n, a in shaped(tier).items()},
            "shape_neighbours": {n: shape_nb(n, a, tier) for n, a in shaped(tier).items()},
            "shape_faults": {
                "label detectors (DDM, EDDM, STEPD, ADWINAccuracy, LinearFourRates, ensembles with a label member)":
                    ["%s:%s" % kc for kc in y_shape_faults()],
                "ADWIN, CUSUM, PageHinkley": ["%s:%s" % kc for kc in ADAPTERS["ADWIN"].shape_faults({"width": 1, "names": None}, None)],
                "KdqTreeStreaming, PCACD": ["%s:%s" % kc for kc in ADAPTERS["PCACD"].shape_faults({"width": 2, "names": None}, None)],
                "CDBD": ["%s:%s" % kc for kc in ADAPTERS["CDBD"].shape_faults({"width": 1, "names": None}, None)],
                "HDDDM, KdqTreeBatch, NNDVI": ["%s:%s" % kc for kc in ADAPTERS["HDDDM"].shape_faults({"width": 2, "names": None}, None)],
            },
            "equivx_containers": {n: a.eqx_containers(a.eq_hist[0][0]) for n, a in ADAPTERS.items() if "equivx-" + n in SYSTEMS},
            "base_history_length": {n: len(a.bases(tier)[0]) for n, a in ADAPTERS.items()},
            "base_histories": {n: len(a.bases(tier)) for n, a in ADAPTERS.items()},
            "parameter_sets": {n: len(_params(a, tier)) for n, a in ADAPTERS.items()},
            "injection_containers": {n: list(a.inj_containers) for n, a in ADAPTERS.items()},
            "equivalence_containers": {n: a.eq_containers(a.eq_hist[0][0]) for n, a in ADAPTERS.items() if a.eq_hist},
            "equivalence_histories": {n: a.eq_hist for n, a in ADAPTERS.items() if a.eq_hist},
            "ensembles": {n: {"parameter_sets": _params(a, tier), "base_histories": len(a.bases(tier)),
                              "base_history_length": len(a.bases(tier)[0]), "menu": list(a.menu),
                              "rows": [list(r) for r in getattr(a, "rows", [])] or "BATCH_2D"}
                          for n, a in ENSEMBLES.items()},
            "reuse_histories": {n: reuse_hists(a, tier) for n, a in ADAPTERS.items() if a.reuse_kinds},
            "reuse_variants": {n: ["%s/%s" % v for v in reuse_variants(a, tier)] for n, a in ADAPTERS.items() if a.reuse_kinds},
            "reuse_parameter_sets": {n: [p for _, p in reuse_configs(a, tier)] for n, a in ADAPTERS.items() if a.reuse_kinds},
        },
        "explanation": "twin oracle between two real objects: D receives the malformed call, T never does; compared "
        "bit-for-bit after every later valid call: drift_state, both counters, retraining_recs, mean/variance (ADWIN), "
        "accuracies (STEPD), Page-Hinkley to_dataframe(), HDM current_distance/reference_n/distances/epsilon_values/"
        "thresholds, PCACD num_pcs, NNDVI reference_batch, MD3 margin density/waiting flag/oracle rows. A call is "
        "malformed relative to a 2-field specification state (width fixed by the first accepted input, names by the "
        "first accepted DataFrame); a rejected call establishes nothing. Ensembles: the same twin oracle on the "
        "ensemble's drift_state, its two counters, drift_states, retraining_recs and every member's drift_state and "
        "counters (the election object's internals are not read: what a refused call does to them must show in the "
        "outputs of later accepted calls, which is why the histories keep a ConfirmedElection inside waiting periods). "
        "reuse-*: the observation trace must equal, bit-for-bit, that of the run that passes the same values in fresh "
        "2-D ndarrays of the same dtype (the dtype itself is not the subject: float32 arithmetic may legitimately "
        "differ from float64). "
        "readout-*: T, the twin, is never read; a read-out must leave D's public observables as they are, every later valid "
        "call must be accepted and give T's observables bit-for-bit, and the malformed call after it is judged as in inject-* "
        "(signatures readout-changed-state:*, later-*:readout:<method>(<args>), *:after-readout:<method>(<args>):<site>). "
        "shared-*: the owner must accept the caller's frame, the other detector must refuse it with ValueError, uncounted and "
        "without a change of its observables; every accepted call of either detector is compared bit-for-bit with the trace "
        "of a solo run of that detector's own history, made alone in a pristine process state (mc.procstate.reset()) "
        "(signatures malformed-accepted:foreign-frame/<method>/<order>/<variant>:<base>, shared-valid-rejected:*, shared-differs:*).",
        "assumptions": [
            "readout-*: a read-out that raises (to_plotly_dataframe before a tree exists, with either argument set) is not judged "
            "for raising (counted readout_raised) but must leave no trace like any other; read-outs = every property and public "
            "instance attribute read, every public method other than update / set_reference / reset callable without "
            "arguments, to_plotly_dataframe with the listed argument sets (tree ids other than 'build' / 'test' are not passed); "
            "MD3 and the ensembles have no readout-* family",
            "shared-*: only pairs of the same kind (a one-row frame is malformed for every batch detector and a batch for every "
            "streaming detector by the row-count rule alone); both detectors are fed DataFrames throughout (a detector that has "
            "only seen bare arrays has no names established: a foreign-named frame of its width is then a valid first frame); "
            "the detectors that read labels only (DDM, EDDM, STEPD, ADWINAccuracy, LinearFourRates) do not validate X and are not paired",
            "a malformed call made while drift_state == 'drift' may perform the detector's pending post-drift "
            "re-initialisation before it is rejected (most update() methods reset first and validate second); the "
            "snapshot right after such a rejection is not judged (counted as rejections_that_performed_pending_reset), "
            "its consequences are judged by the comparison of all later calls with the twin; until the next accepted "
            "update the twin still shows the old drift flag / since-reset counter, so set_reference calls made in "
            "between are compared on everything except these two fields",
            "CUSUM's documented refusal 'Standard deviation is 0' (raised identically by detector and twin on a valid "
            "value after a re-estimation from constant data) ends a history and is not judged",
            "numpy's global RNG is re-seeded before every call of a stochastic detector with a seed derived from the "
            "number of valid calls made so far; the malformed call runs under the seed of the valid call it precedes",
            "MD3 is exercised only for what its own API validates (one record per update / give_oracle_label, column "
            "set of a labelled sample); its protocol errors belong to C19",
            "X passed to detectors that ignore it (DDM, EDDM, STEPD, LFR, ADWINAccuracy) and y passed to detectors that "
            "ignore it are not validated by the library and are not injected",
            "ensembles: malformed X is injected only if a member reads X, malformed labels only if a member reads "
            "them; with column selectors every member sees its own column whatever the width of X, so inputs of "
            "another WIDTH are injected only into ensembles without selectors (row-count and column-name faults into "
            "all); a member that is in drift when the malformed call arrives may perform its own pending "
            "re-initialisation before the call is refused (same rule as for single detectors); any other change of a "
            "member by a refused call is a violation (signature ensemble-member-updated-by-rejected-call:*)",
            "inject-shape-*: the label layouts count OBSERVATIONS (elements), whatever their arrangement: a (1, k), "
            "(k, 1), (1, 1, k) or 2 x 2 container of labels holds k resp. 4 observations and an empty one none, all "
            "refused; for X the streaming convention (1-D = one row) and the batch convention (1-D = one column) of the "
            "library decide what a flat container means; X with more than two dimensions is not injected (outside "
            "the documented 'one row of features' / 'input data' domain); BatchDetector._validate_y is not exercised (no "
            "batch detector of the library reads labels); MD3 and the ensembles without a label member have no "
            "inject-shape family (their X faults are those of their members' families)",
            "reuse-*: the caller overwrites its object only between calls (never during one) and only objects it "
            "owns; list containers hold python numbers; labels are integers; whether a call changes the caller's object "
            "is C15's subject (counted as reuse_caller_object_changed_by_call, not judged)",
        ],
    }
