"""C18 — batch detectors ignore the order of rows inside a batch.

Explored (DESIGN §4 C18): reference + up to 3 test batches from a small menu
(batch sizes 3-5), and at ONE position (reference or any test batch) the batch
is replaced by each of its row permutations (all of them, <= 119 non-identity
ones); for batches of <= 4 rows also two permuted positions.  Oracle: a twin fed
the permuted batches under the same seeds reports the same divergences
(HDDDM/CDBD distances, kdq leaf divergence recomputed from to_plotly_dataframe(),
NNPS distance) and — where the property says the threshold does not depend on
row positions — the same complete sequence of drift decisions.
"""
import itertools
import math
import time
from collections import Counter

import numpy as np

from menelaus.data_drift import HDDDM, CDBD, KdqTreeBatch, NNDVI
from menelaus.partitioners import NNSpacePartitioner

from mc import rng, procstate
from mc.explorer import System, Violation, dev_split, artefact, jsonable
from mc.numeric import close

PROPERTY = "C18"

# ---------------------------------------------------------------------------
# menus (row counts 3..5; duplicates inside and across batches on purpose)
# ---------------------------------------------------------------------------
M2 = [
    np.array([[0.0, 1.0], [1.0, 0.0], [2.0, 2.5], [3.0, 0.5]]),  # 4 rows
    np.array([[4.0, 1.0], [5.0, 0.0], [2.0, 2.5], [7.0, 0.5], [6.5, 3.0]]),  # 5 rows, shares a row with 0
    np.array([[0.0, 3.0], [0.0, 3.0], [9.0, 7.5]]),  # 3 rows with a duplicate
    np.array([[0.5, 0.5], [1.5, 2.0], [2.5, 1.0], [3.5, 3.0], [1.0, 1.0]]),  # 5 rows
    np.array([[2.0, 2.0], [2.0, 2.0], [0.0, 1.0], [5.0, 3.0]]),  # 4 rows; the leading rows hold a single value
]
# larger batches on a common range (every batch holds both ends 0 and 9 of the scale): reference 4 rows, a reference-like
# batch of 5, a shifted batch of 11 (same floor(sqrt(n)) as the 9 pooled reference rows), and two follow-ups
M2 += [
    np.array([[0.0, 9.0], [9.0, 0.0], [2.0, 3.0], [3.0, 2.0]]),
    np.array([[0.0, 9.0], [9.0, 0.0], [1.0, 2.5], [2.5, 3.5], [3.5, 1.0]]),
    np.array([[0.0, 9.0], [9.0, 0.0], [7.0, 7.5], [7.5, 8.0], [8.0, 8.5], [8.5, 6.5], [6.5, 7.2], [7.2, 8.8], [8.8, 6.0], [6.0, 7.9], [7.9, 7.0]]),
    np.array([[0.0, 9.0], [9.0, 0.0], [7.1, 6.9], [8.2, 7.7], [6.6, 8.4], [7.7, 7.1]]),
    np.array([[0.0, 9.0], [9.0, 0.0], [1.5, 2.0], [2.2, 3.1], [3.0, 1.2], [2.8, 2.6]]),
]
BIG = [5, 6, 7, 8, 9]
M1 = [m[:, :1].copy() for m in M2]


def _structured(n):
    """For batches of more than 5 rows (n! is out of reach): every transposition, every rotation and the reversal."""
    ident = list(range(n))
    out = []
    for i in range(n):
        for j in range(i + 1, n):
            q = ident[:]
            q[i], q[j] = q[j], q[i]
            out.append(q)
    for r in range(1, n):
        out.append(ident[r:] + ident[:r])
    out.append(ident[::-1])
    return out


class _LazyPerms(dict):
    def __missing__(self, n):
        self[n] = huge_perms(n)
        return self[n]


PERMS = _LazyPerms({n: [list(p) for p in itertools.permutations(range(n))][1:] for n in (3, 4, 5)})
PERMS.update({n: _structured(n) for n in (6, 11)})


# ---------------------------------------------------------------------------
# batches far from toy sizes (tens to hundreds of thousands of rows): anything that treats a batch or the pooled
# reference by position once it is "large" (slices, chunks, caps, sub-sampling of the head or tail) is invisible on
# 3-11 rows.  Deterministic lattices; batches 2 and 3 are strongly ordered by position (a level shift in the second
# half / ascending values), so a positional part of them is not representative of the whole.
# ---------------------------------------------------------------------------
HUGE_SIZES = {"quick": (70001, 150001), "thorough": (1025, 70001, 150001, 300007)}


def huge_menu(n):
    i = np.arange(n)
    j = np.arange(n // 2 + 1)
    return [
        np.column_stack([(i * 7919 % 10007) / 100.0, (i * 104729 % 9973) / 50.0]),
        np.column_stack([((j * 6007 + 13) % 10007) / 100.0, ((j * 7 + 5) % 9973) / 50.0]),
        np.column_stack([((i * 6007 + 13) % 10007) / 100.0 + (i > n // 2) * 3.0, (i * 7 % 9973) / 50.0]),
        np.column_stack([np.sort((j * 7919 % 10007) / 100.0), (j * 104729 % 9973) / 50.0]),
    ]


def huge_perms(n):
    """n! is out of reach: reversal, rotations by 1 / a third / a half, evens-then-odds, riffle of the halves, one transposition"""
    ident = np.arange(n)
    h = (n + 1) // 2
    riffle = np.empty(n, dtype=int)
    riffle[0::2] = ident[:h]
    riffle[1::2] = ident[h:]
    swap = ident.copy()
    swap[0], swap[-1] = swap[-1], swap[0]
    return [ident[::-1].copy(), np.roll(ident, -1), np.roll(ident, -(n // 3)), np.roll(ident, -(n // 2)),
            np.concatenate([ident[0::2], ident[1::2]]), riffle, swap]


HUGE_PERM_NAMES = ["reversal", "rotate-1", "rotate-third", "rotate-half", "evens-then-odds", "riffle", "swap-ends"]


def kdq_divergence(det):
    df = det.to_plotly_dataframe()
    parents = set(df["parent_idx"].dropna().tolist())
    leaves = df[~df["idx"].isin(parents)]
    ref = leaves["cell_count"].to_numpy(dtype=float)
    test = ref + leaves["count_diff"].to_numpy(dtype=float)
    p = (ref + 0.5) / (ref.sum() + len(ref) / 2)
    q = (test + 0.5) / (test.sum() + len(test) / 2)
    return float(np.sum(p * np.log(p / q)))


class Perm(System):
    def __init__(self, name, cls, menu, kind=None):
        self.name = name
        self.kind = kind or name  # detector family (the huge-batch systems carry another registry name)
        self.cls = cls
        self.menu = menu

    def init(self, cfg):
        return {"a": self.cls(**cfg["params"]), "b": self.cls(**cfg["params"]), "used": 0, "ref": None, "refp": None}

    def alphabet(self, cfg, state, pos):
        evs = []
        syms = cfg["menu"]
        for s in syms:
            evs.append([s, None])
        if state["used"] < cfg["max_perm"]:
            for s in syms:
                n = len(self.menu[s])
                if cfg["max_perm"] > 1 and n > 4:
                    continue
                for pi in range(len(PERMS[n])):
                    evs.append([s, pi])
        return evs

    def _batch(self, sym, pi, cfg=None):
        b = self.menu[sym]
        out = b.copy() if pi is None else b[PERMS[len(b)][pi]].copy()
        if cfg and cfg.get("container") == "DataFrame":
            # the permuted frame keeps its row labels in permuted order (anything aligning on labels would undo the permutation)
            idx = list(range(len(b))) if pi is None else PERMS[len(b)][pi]
            import pandas as pd

            return pd.DataFrame(out, columns=["a", "b"][: out.shape[1]], index=[10 + 3 * i for i in idx])
        return out

    def _distance(self, det, state, which, sym, pi):
        if self.kind in ("HDDDM", "CDBD"):
            return float(det.current_distance)
        if self.kind == "KdqTreeBatch":
            return kdq_divergence(det)
        return None

    def step(self, cfg, state, ev, pos, ctx):
        sym, pi = ev
        a, b = state["a"], state["b"]
        xa = self._batch(sym, None, cfg)
        xb = self._batch(sym, pi, cfg)
        if cfg.get("container"):
            ctx.count("dataframe_batches")
        if pi is not None:
            state["used"] += 1
            ctx.mark("permuted_reference" if pos == 0 else "permuted_test_batch")
            if cfg.get("huge"):
                ctx.count("huge_batches_permuted")
        seed = (ctx.seed, self.name, cfg["id"], pos)
        obs = {}
        if pos == 0:
            rng.seed_step(*seed)
            a.set_reference(xa)
            rng.seed_step(*seed)
            b.set_reference(xb)
            state["ref"], state["refp"] = xa, xb
            return {"set_reference": sym, "perm": pi}
        if self.kind == "NNDVI":
            # the NN-DVI distance between exactly these two batches (pure function of the partitioner)
            da = self._nnps(np.asarray(a.reference_batch), np.asarray(xa), cfg["params"]["k_nn"])
            db = self._nnps(np.asarray(b.reference_batch), np.asarray(xb), cfg["params"]["k_nn"])
        try:
            rng.seed_step(*seed)
            a.update(xa)
            rng.seed_step(*seed)
            b.update(xb)
        except Exception as e:  # the batches are legal input (the same rows in another order): no update may be refused
            raise Violation("exception", "%s: update %d (event %r) of the original / permuted pair raised %s: %s" % (self.name, pos, ev, type(e).__name__, e),
                            expected="no exception", observed=repr(e), sig="perm-exception:%s" % self.name)
        if self.kind != "NNDVI":
            da = self._distance(a, state, "a", sym, None)
            db = self._distance(b, state, "b", sym, pi)
        if not close(da, db, rel=1e-12, abs_=1e-12):
            raise Violation(
                "divergence",
                "%s: divergence of update %d changed from %r to %r when rows were permuted (event %r)" % (self.name, pos, da, db, ev),
                expected=da, observed=db, sig="perm-divergence:%s" % self.name,
            )
        obs["divergence"] = da
        if da > 0:
            ctx.count("nonzero_divergences")
        if self.kind in ("HDDDM", "CDBD"):
            ka = {int(k): float(v) for k, v in a.distances.items()}
            kb = {int(k): float(v) for k, v in b.distances.items()}
            if not close(ka, kb, rel=1e-12, abs_=1e-12):
                raise Violation("divergence", "%s: recorded distances differ under row permutation: %r vs %r" % (self.name, ka, kb), expected=ka, observed=kb, sig="perm-divergence:%s" % self.name)
        if not cfg["decisions"] and a.drift_state != b.drift_state:
            # detect_batch=2 bootstraps its first threshold by row position, so the property allows the two runs to
            # decide differently; from then on they hold different references and are no longer comparable
            ctx.terminal = True
            ctx.count("decisions_differ_where_the_property_allows_it")
            obs["state"] = a.drift_state
            return obs
        if cfg["decisions"]:
            sa = (a.drift_state, int(a.total_batches), int(a.batches_since_reset))
            sb = (b.drift_state, int(b.total_batches), int(b.batches_since_reset))
            if sa != sb:
                raise Violation(
                    "decision",
                    "%s: drift decision / counters of update %d changed from %r to %r when rows were permuted (event %r)" % (self.name, pos, sa, sb, ev),
                    expected=sa, observed=sb, sig="perm-decision:%s" % self.name,
                )
            if state["used"]:
                ctx.count("decisions_compared_after_permutation")
        obs["state"] = a.drift_state
        if a.drift_state == "drift":
            ctx.count("drifts")
            if state["used"]:
                ctx.count("drift_after_permutation")
        return obs

    @staticmethod
    def _nnps(ref, test, k):
        nn = NNSpacePartitioner(k)
        nn.build(ref, test)
        return float(NNSpacePartitioner.compute_nnps_distance(nn.nnps_matrix, nn.v1, nn.v2))


SYSTEMS = {
    "HDDDM": Perm("HDDDM", HDDDM, M2),
    "CDBD": Perm("CDBD", CDBD, M1),
    "KdqTreeBatch": Perm("KdqTreeBatch", KdqTreeBatch, M2),
    "NNDVI": Perm("NNDVI", NNDVI, M2),
}

class _LazyMenu:
    def __init__(self, n, cols):
        self.n, self.cols, self._m = n, cols, None

    def _get(self):
        if self._m is None:
            self._m = [b[:, : self.cols].copy() for b in huge_menu(self.n)]
        return self._m

    def __getitem__(self, k):
        return self._get()[k]

    def __len__(self):
        return 4


for _n in sorted(set(HUGE_SIZES["quick"]) | set(HUGE_SIZES["thorough"])):
    SYSTEMS["HDDDM|huge%d" % _n] = Perm("HDDDM|huge%d" % _n, HDDDM, _LazyMenu(_n, 2), kind="HDDDM")
    SYSTEMS["CDBD|huge%d" % _n] = Perm("CDBD|huge%d" % _n, CDBD, _LazyMenu(_n, 1), kind="CDBD")
    SYSTEMS["KdqTreeBatch|huge%d" % _n] = Perm("KdqTreeBatch|huge%d" % _n, KdqTreeBatch, _LazyMenu(_n, 2), kind="KdqTreeBatch")

# ---------------------------------------------------------------------------
# LONG histories (HDDDM / CDBD): the adaptive threshold (mean + scaled deviation of the epoch's epsilons) needs several
# batches per epoch before it differs from its start-up values, and several epochs (drift -> new reference -> reset())
# before anything a reset leaves behind can matter; 3-4 batches show none of it.  Deterministic lattice batches pushed
# through the normal quantile function, three level profiles of 14-16 batches (each gives >= 2 drifts for every
# configuration with detect_batch=3 on the unchanged tree, independent of VERIF_SEED: counted per task as long_history_with_two_drifts), and in deviation mode the history with ONE
# position (reference or any test batch) whose rows are permuted: reversal, rotation by one, rotation by a half, the
# transposition of the first and the last row.  Each such history is ONE execution, started in a pristine process state
# (mc.procstate.reset()): the detector fed the original batches and the detector fed the permuted ones are updated batch
# by batch, alternately, under identical seeds (as in the short families), and the original one is additionally compared,
# bit for bit, with the same history run alone in a pristine process state.
# ---------------------------------------------------------------------------
LONG_ROWS = 60
LONG_PROFILES = {
    "two-shifts": [0, 0, 0, 0, 0, 0.9, 0.9, 0.9, 0.9, 0, 0, 0, 0.5, 0.5, 0.5, 0.5],
    "shift-and-back": [0, 0, 0, 0, 1.5, 1.5, 1.5, 1.5, 1.5, 0, 0, 0, 0, 0],
    "blip-then-steps": [0, 0, 0, 0.3, 0, 0, 2, 2, 2, 2, 0.5, 0.5, 0.5, 0.5, 0.5, 2],
}
LONG_PERMS = ["reversal", "rotate-1", "rotate-half", "swap-ends"]
# (class, params, decisions compared?)
LONG_CFGS = [
    (cls, dict({"detect_batch": db, "statistic": stat, "significance": sig}, **({"subsets": 3} if db == 2 else {})), db == 3)
    for cls in ("HDDDM", "CDBD")
    for db in (3, 2)
    for stat, sig in (("tstat", 0.05), ("stdev", 1.0))
]
# the siblings: the tree and the nearest-neighbour detector on the same long histories (decisions compared under the fixed
# seeds, as in the short families); they cost ~20x an HDDDM update, so two profiles and two permutations per position
LONG_CFGS += [
    ("KdqTreeBatch", {"alpha": 0.05, "bootstrap_samples": 10, "count_ubound": 5}, True),
    ("NNDVI", {"k_nn": 3, "sampling_times": 10, "alpha": 0.05}, True),
]
LONG_SLOW = {"profiles": ["two-shifts", "blip-then-steps"], "perms": ["reversal", "rotate-half"]}
_LONG_CLS = {"HDDDM": HDDDM, "CDBD": CDBD, "KdqTreeBatch": KdqTreeBatch, "NNDVI": NNDVI}


def long_batch(k, level, d):
    """batch k (k = -1: the reference) of LONG_ROWS rows and d features at the given level; no randomness"""
    from scipy.stats import norm

    i = np.arange(LONG_ROWS)
    cols = []
    for f in range(d):
        u = (((i + 1) * (7919 + 2 * f) + (k + 1) * (104729 + 6 * f) + 31 * f) % 10007 + 0.5) / 10007.0
        cols.append(norm.ppf(u) + level)
    return np.column_stack(cols)


def _long_perm(name, n):
    ident = np.arange(n)
    if name == "reversal":
        return ident[::-1].copy()
    if name == "rotate-1":
        return np.roll(ident, -1)
    if name == "rotate-half":
        return np.roll(ident, -(n // 2))
    q = ident.copy()
    q[0], q[-1] = q[-1], q[0]
    return q


def _long_obs(det, dist=None):
    if dist is None:
        dist = float(det.current_distance) if isinstance(det, (HDDDM, CDBD)) else kdq_divergence(det)
    return (det.drift_state, int(det.total_batches), int(det.batches_since_reset), dist)


def _long_nnps(det, x, params):
    """NN-DVI: the distance between the detector's current reference and the batch it is about to see"""
    if not isinstance(det, NNDVI):
        return None
    return Perm._nnps(np.asarray(det.reference_batch), np.asarray(x), params["k_nn"])


def _long_solo(ci, profile, seed):
    """the original history, one detector alone in a pristine process state: observables after every update"""
    cls, params, _ = LONG_CFGS[ci]
    d = 1 if cls == "CDBD" else 2
    procstate.reset()
    det = _LONG_CLS[cls](**params)
    rng.seed_step(seed, "long", ci, profile, 0)
    det.set_reference(long_batch(-1, 0, d))
    out = []
    for k, level in enumerate(LONG_PROFILES[profile]):
        x = long_batch(k, level, d)
        dist = _long_nnps(det, x, params)
        rng.seed_step(seed, "long", ci, profile, k + 1)
        det.update(x)
        out.append(_long_obs(det, dist))
    return out


def long_exec(ci, profile, dev, seed, stats, solo=None):
    """ONE execution: pristine process state, the pair (original rows / rows permuted at position dev[0] by dev[1]; dev None:
    the same rows) fed alternately.  Raises Violation."""
    cls, params, decisions = LONG_CFGS[ci]
    d = 1 if cls == "CDBD" else 2
    if solo is None:
        solo = _long_solo(ci, profile, seed)
    procstate.reset()
    a, b = _LONG_CLS[cls](**params), _LONG_CLS[cls](**params)
    levels = LONG_PROFILES[profile]
    where = "%s %r profile %s, rows permuted at %r" % (cls, params, profile, dev)

    def rows(pos, x):
        if dev is not None and dev[0] == pos:
            return x[_long_perm(dev[1], len(x))].copy()
        return x.copy()

    try:
        x = long_batch(-1, 0, d)
        rng.seed_step(seed, "long", ci, profile, 0)
        a.set_reference(x.copy())
        rng.seed_step(seed, "long", ci, profile, 0)
        b.set_reference(rows(0, x))
    except Exception as e:
        raise Violation("exception", "%s: set_reference raised %s: %s" % (where, type(e).__name__, e), expected="no exception", observed=repr(e), sig="perm-exception:%s|long" % cls)
    drifts = 0
    for k, level in enumerate(levels):
        pos = k + 1
        x = long_batch(k, level, d)
        xb = rows(pos, x)
        try:
            da, db = _long_nnps(a, x, params), _long_nnps(b, xb, params)
            rng.seed_step(seed, "long", ci, profile, pos)
            a.update(x.copy())
            rng.seed_step(seed, "long", ci, profile, pos)
            b.update(xb)
            oa, ob = _long_obs(a, da), _long_obs(b, db)
        except Exception as e:
            raise Violation("exception", "%s: update %d raised %s: %s" % (where, pos, type(e).__name__, e), expected="no exception", observed=repr(e), sig="perm-exception:%s|long" % cls)
        stats["transitions"] += 1
        # the detector fed the original rows is a deterministic function of (seed, batches): another live object must not show
        if oa != solo[k]:
            raise Violation("solo", "%s: after update %d the detector fed the ORIGINAL rows reports %r next to its twin, %r when run alone" % (where, pos, oa, solo[k]),
                            expected=solo[k], observed=oa, sig="perm-solo:%s|long" % cls)
        stats["long_solo_comparisons"] += 1
        if not close(oa[3], ob[3], rel=1e-12, abs_=1e-12):
            raise Violation("divergence", "%s: divergence of update %d changed from %r to %r" % (where, pos, oa[3], ob[3]), expected=oa[3], observed=ob[3], sig="perm-divergence:%s|long" % cls)
        ka = {int(q): float(v) for q, v in a.distances.items()} if cls in ("HDDDM", "CDBD") else {}
        kb = {int(q): float(v) for q, v in b.distances.items()} if cls in ("HDDDM", "CDBD") else {}
        if not close(ka, kb, rel=1e-12, abs_=1e-12):
            raise Violation("divergence", "%s: recorded distances differ after update %d: %r vs %r" % (where, pos, ka, kb), expected=ka, observed=kb, sig="perm-divergence:%s|long" % cls)
        if oa[3] > 0:
            stats["nonzero_divergences"] += 1
        if not decisions:
            if oa[:3] != ob[:3]:
                # detect_batch=2 bootstraps the first threshold of every epoch from positional subsets: allowed to differ,
                # after which the two runs hold different references and are no longer comparable
                stats["decisions_differ_where_the_property_allows_it"] += 1
                break
        else:
            if oa[:3] != ob[:3]:
                raise Violation("decision", "%s: drift decision / counters of update %d changed from %r to %r" % (where, pos, oa[:3], ob[:3]), expected=oa[:3], observed=ob[:3], sig="perm-decision:%s|long" % cls)
            if dev is not None and dev[0] <= pos:
                stats["decisions_compared_after_permutation"] += 1
                stats["long_decisions_compared_after_permutation"] += 1
        if oa[0] == "drift":
            drifts += 1
            stats["drifts"] += 1
            if dev is not None and dev[0] <= pos:
                stats["drift_after_permutation"] += 1
                if drifts >= 2:
                    stats["long_second_epoch_drift_after_permutation"] += 1
    return drifts


class LongPerm(System):
    """replay vehicle: one event = one complete execution of the family 'long'"""
    name = "LongPerm"

    def init(self, cfg):
        return {}

    def alphabet(self, cfg, state, pos):
        return []

    def step(self, cfg, state, ev, pos, ctx):
        ci, profile, dev = ev
        return {"drifts": long_exec(ci, profile, dev, ctx.seed, Counter())}


SYSTEMS["LongPerm"] = LongPerm()


def long_task(task, seed):
    t0 = time.time()
    ci, profile = task["ci"], task["profile"]
    stats = Counter()
    violations, samples = [], []
    cfg = {"id": 500 + ci, "detector": LONG_CFGS[ci][0], "params": LONG_CFGS[ci][1]}
    solo = _long_solo(ci, profile, seed)
    if sum(o[0] == "drift" for o in solo) >= 2:
        stats["long_history_with_two_drifts"] += 1
    devs = ([None] if task.get("nodev", True) else []) + [[pos, nm] for pos in range(len(LONG_PROFILES[profile]) + 1) for nm in task.get("perms", LONG_PERMS)]
    for dev in devs:
        stats["executions"] += 1
        stats["states"] += 1
        if dev is not None:
            stats["nontrivial_executions"] += 1
            stats["permuted_reference" if dev[0] == 0 else "permuted_test_batch"] += 1
            stats["long_histories_permuted"] += 1
            if LONG_CFGS[ci][0] in ("KdqTreeBatch", "NNDVI"):
                stats["long_histories_permuted_kdq_nndvi"] += 1
        try:
            long_exec(ci, profile, dev, seed, stats, solo)
        except Violation as v:
            violations.append(artefact(PROPERTY, SYSTEMS["LongPerm"], cfg, seed, [[ci, profile, dev]], v))
            if task.get("first"):
                break
        if dev is not None and not samples:
            samples.append({"system": "LongPerm", "cfg": jsonable(cfg), "events": [[ci, profile, dev]], "nontrivial_events": 1})
    procstate.reset()
    return {"stats": dict(stats), "violations": violations, "samples": samples, "wall": time.time() - t0}


def _long_tasks(tier):
    out = []
    for ci, (cls, _, _) in enumerate(LONG_CFGS):
        if cls in ("HDDDM", "CDBD"):
            for profile in LONG_PROFILES:
                out.append({"fn": "long_task", "system": "LongPerm", "ci": ci, "profile": profile, "label": "LongPerm|%s|%d|%s" % (cls, ci, profile), "cost": 6})
            continue
        slow = LONG_SLOW if tier == "quick" else {"profiles": list(LONG_PROFILES), "perms": LONG_PERMS}
        for profile in slow["profiles"]:
            for pi, nm in enumerate(slow["perms"]):
                out.append({"fn": "long_task", "system": "LongPerm", "ci": ci, "profile": profile, "perms": [nm], "nodev": pi == 0,
                            "label": "LongPerm|%s|%d|%s|%s" % (cls, ci, profile, nm), "cost": 25})
    return out


HUGE_CFGS = [
    ("HDDDM", {"detect_batch": 3, "statistic": "stdev", "significance": 0.5}, True),
    ("HDDDM", {"detect_batch": 2, "statistic": "tstat", "significance": 0.05, "subsets": 3}, False),
    ("CDBD", {"detect_batch": 3, "statistic": "stdev", "significance": 0.5}, True),
    ("KdqTreeBatch", {"alpha": 0.05, "bootstrap_samples": 5, "count_ubound": 400}, True),
    ("KdqTreeBatch", {"alpha": 0.3, "bootstrap_samples": 5, "count_ubound": 2000}, True),
]
# reference, then three more batches; exactly one position carries a permuted batch
HUGE_HISTORIES = [[0, 1, 2, 3], [2, 1, 0, 1], [3, 0, 1, 2], [0, 1, 1, 0]]

# (system, params, decisions compared?, cost)
CFGS = [
    ("HDDDM", {"detect_batch": 3, "statistic": "stdev", "significance": 0.5}, True, 3),
    ("HDDDM", {"detect_batch": 2, "statistic": "stdev", "significance": 0.5, "subsets": 3}, False, 3),
    ("HDDDM", {"detect_batch": 3, "statistic": "tstat", "significance": 0.3, "divergence": "KL"}, True, 3),
    ("CDBD", {"detect_batch": 3, "statistic": "stdev", "significance": 0.5}, True, 2),
    ("CDBD", {"detect_batch": 2, "statistic": "tstat", "significance": 0.3, "subsets": 3, "divergence": "H"}, False, 2),
    ("KdqTreeBatch", {"alpha": 0.4, "bootstrap_samples": 10, "count_ubound": 1}, True, 20),
    ("KdqTreeBatch", {"alpha": 0.6, "bootstrap_samples": 10, "count_ubound": 2}, True, 20),
    ("NNDVI", {"k_nn": 2, "sampling_times": 8, "alpha": 0.3}, True, 4),
    ("NNDVI", {"k_nn": 1, "sampling_times": 8, "alpha": 0.6}, True, 4),
]


DF_VARIANTS = (0, 3, 5, 7)  # HDDDM detect_batch 3, CDBD detect_batch 3, KdqTreeBatch, NNDVI: the same batches as labelled DataFrames


def tasks(tier, seed):
    out = []
    for ci, (name, params, decisions, cost) in enumerate(CFGS):
        # single permuted position, batches up to 5 rows
        menu = [0, 1, 2, 3] if tier == "thorough" else [0, 1, 2]
        if name == "KdqTreeBatch":
            menu = [0, 4] if tier == "quick" else [0, 1, 2, 4]
        depth = 3 if tier == "thorough" else 2
        if name in ("HDDDM", "CDBD") and params["detect_batch"] == 3:
            depth = 3  # the first decision is taken on the 3rd test batch
            if tier == "quick":
                menu = [0, 2, 1] if name == "CDBD" else [0, 2]
        base = {"id": ci, "params": params, "decisions": decisions, "menu": menu, "max_perm": 1}
        sysobj = SYSTEMS[name]
        st0 = {"used": 0}
        if ci in DF_VARIANTS:
            based = dict(base, id=300 + ci, container="DataFrame", menu=menu[:2])
            for first in sysobj.alphabet(based, st0, 0):
                out.append(
                    {
                        "system": name,
                        "cfg": based,
                        "prefix": [first],
                        "depth": 2 if name != "HDDDM" else 3,
                        "label": "%s|%d|df|ref=%s" % (name, ci, first),
                        "cost": cost * (0.3 if first[1] is not None else 1),
                        "validate_every": 307,
                    }
                )
        for first in sysobj.alphabet(base, st0, 0):
            out.append(
                {
                    "system": name,
                    "cfg": base,
                    "prefix": [first],
                    "depth": depth,
                    "label": "%s|%d|ref=%s" % (name, ci, first),
                    "cost": cost * (0.3 if first[1] is not None else 1),
                    "validate_every": 307,
                }
            )
        # larger batches on a common range (HDDDM / CDBD): reference + reference-like batch + an 11-row batch, then follow-ups
        if name in ("HDDDM", "CDBD"):
            baseb = {"id": 200 + ci, "params": params, "decisions": decisions, "menu": [6, 7, 8, 9], "max_perm": 1}
            for perm_ref in [None] + list(range(len(PERMS[4]))):
                out.append(
                    {
                        "system": name,
                        "cfg": baseb,
                        "prefix": [[5, perm_ref]] + ([[6, None], [7, None]] if perm_ref is not None else [[6, None]]),
                        "depth": 1 if perm_ref is not None else 2,
                        "label": "%s|%d|big|ref=%s" % (name, ci, perm_ref),
                        "cost": cost * (3 if perm_ref is None else 0.2),
                        "validate_every": 307,
                    }
                )
        # two permuted positions, batches of <= 4 rows only
        if tier == "thorough" or name in ("CDBD", "NNDVI"):
            base2 = {"id": 100 + ci, "params": params, "decisions": decisions, "menu": [0, 2] if name != "KdqTreeBatch" else [0, 4], "max_perm": 2}
            for first in sysobj.alphabet(base2, st0, 0):
                out.append(
                    {
                        "system": name,
                        "cfg": base2,
                        "prefix": [first],
                        "depth": 2,
                        "label": "%s|%d|2perm|ref=%s" % (name, ci, first),
                        "cost": cost,
                        "validate_every": 307,
                    }
                )
    # huge batches: four fixed histories, one permuted position, seven structured permutations
    for n in HUGE_SIZES[tier]:
        for hi, (kind, params, decisions) in enumerate(HUGE_CFGS):
            if tier == "quick" and kind == "KdqTreeBatch" and n > 100000:
                continue  # the tree detectors cost most: one size beyond 2**16 rows in quick, all sizes in thorough
            name = "%s|huge%d" % (kind, n)
            cfg = {"id": 400 + hi, "params": params, "decisions": decisions, "menu": [0, 1, 2, 3], "max_perm": 1, "huge": n}
            for hj, hist in enumerate(HUGE_HISTORIES[: 2 if tier == "quick" else 4]):
                # deviation mode: the unpermuted history with exactly <= 1 position replaced by each permuted variant
                out += dev_split(
                    {
                        "system": name,
                        "cfg": cfg,
                        "mode": "dev",
                        "default": [[b, None] for b in hist],
                        "menu": [[[b, pi] for pi in range(len(HUGE_PERM_NAMES))] for b in hist],
                        "menu_per_pos": True,
                        "k": 1,
                        "label": "%s|%d|h%d" % (name, hi, hj),
                        "cost": 8 * n / 70000.0,
                        "validate_every": 5,
                    }
                )
    out += _long_tasks(tier)
    return out


REQUIRED = [
    "long_histories_permuted",
    "long_histories_permuted_kdq_nndvi",
    "long_history_with_two_drifts",
    "long_decisions_compared_after_permutation",
    "long_second_epoch_drift_after_permutation",
    "long_solo_comparisons",
    "huge_batches_permuted",
    "dataframe_batches",
    "permuted_reference",
    "permuted_test_batch",
    "nonzero_divergences",
    "decisions_compared_after_permutation",
    "drift_after_permutation",
    "drifts",
]


def describe(tier):
    return {
        "rule": "set_reference + up to 3 updates from a menu of small batches; at one position (two for batches of <= 4 "
        "rows) the batch is replaced by every one of its non-identity row permutations; every such history is run on "
        "an original/permuted pair of real detectors under identical seeds; non-trivial = history containing a permuted batch; "
        "plus (HDDDM / CDBD, detect_batch 3 and 2, tstat and stdev; one KdqTreeBatch and one NNDVI configuration) three deterministic histories of 14-16 batches of 60 rows with several "
        "drifts / epochs, one permuted position each; an exception raised by an update of legal batches is a violation",
        "bounds": {"batch_rows": [len(m) for m in M2], "permutations_per_batch": {str(n): len(PERMS[n]) for n in PERMS},
                   "batches_over_5_rows": "every transposition, every rotation and the reversal (n! is out of reach)",
                   "huge_batches": {"rows": list(HUGE_SIZES[tier]), "permutations": HUGE_PERM_NAMES, "histories": HUGE_HISTORIES[: 2 if tier == "quick" else 4],
                                    "configs": [{"detector": c[0], "params": c[1]} for c in HUGE_CFGS],
                                    "note": "quick: KdqTreeBatch on the 70001-row menus only; one permuted position per history; HDDDM, CDBD, KdqTreeBatch only (NN-DVI is quadratic in the rows)"},
                   "long_histories": {"rows": LONG_ROWS, "profiles (levels of the test batches)": LONG_PROFILES, "permutations": LONG_PERMS,
                                      "KdqTreeBatch / NNDVI": LONG_SLOW if tier == "quick" else "all profiles, all permutations",
                                      "configs": [{"detector": c[0], "params": c[1], "decisions_compared": c[2]} for c in LONG_CFGS],
                                      "note": "deviation mode, every ONE position (reference or test batch) permuted by each listed permutation; each history is one "
                                      "execution started in a pristine process state (mc.procstate.reset()), original / permuted pair fed alternately under identical "
                                      "seeds; the original one is also compared bit for bit with the same history run alone; native family (fn task), not explored "
                                      "by the derived Pair: / Faulty: families"},
                   "configs": [{"detector": c[0], "params": c[1], "decisions_compared": c[2]} for c in CFGS]},
        "explanation": "differential oracle; HDM distances and NNPS distance compared to 1e-12, kdq divergence recomputed from "
        "the public node counts; full decision traces compared for HDDDM/CDBD detect_batch=3, KdqTreeBatch and NNDVI",
        "assumptions": ["HDDDM/CDBD with detect_batch=2 bootstrap by row position, so only their distances are compared (as the property states)",
                        "long histories: the detector fed the original rows must behave exactly as the same detector run alone (all four are "
                        "deterministic given numpy's global seed, which the harness sets before every call)"],
    }
