"""C02 — after a drift (or a new reference) a detector starts from a clean slate.

Twin oracle (DESIGN §4 C02): whenever the running detector D reported drift (or
``set_reference(b)`` is applied to a batch detector) a *fresh* detector T with
the same constructor parameters and the documented carry-over is constructed
under the same seed; from then on D and T receive identical inputs and must
agree bit-for-bit (indices shifted by the epoch offset) on everything public.
Because T is itself replaced at every drift, third and later epochs of D are
always compared with a detector in its first epoch.
"""
import copy
import itertools
import math

import numpy as np

from mc import rng
from mc.explorer import System, Violation, jsonable
from checks.drivers import DRIVERS, drift_prefixes

# The process-level state of the menelaus modules is recorded NOW, before any detector has been used: tasks() runs real
# detectors in the parent process (drift_prefixes) and the workers are forked from it, so a snapshot first taken inside
# a worker would already contain whatever a changed tree keeps at module level, "pristine" would not be pristine and a
# violation found in a worker would not replay in a fresh process.
from mc import procstate as _procstate

_procstate.reset()

PROPERTY = "C02"

NAMES = ("DDM", "EDDM", "STEPD", "PageHinkley", "CUSUM", "KdqTreeStreaming", "KdqTreeBatch", "HDDDM", "CDBD", "NNDVI")


def _same(a, b):
    """bit-for-bit equality of JSON-able observation values (NaN == NaN)."""
    if isinstance(a, float) and isinstance(b, float):
        return a == b or (math.isnan(a) and math.isnan(b))
    if isinstance(a, (list, tuple)) and isinstance(b, (list, tuple)):
        return len(a) == len(b) and all(_same(x, y) for x, y in zip(a, b))
    if isinstance(a, dict) and isinstance(b, dict):
        return a.keys() == b.keys() and all(_same(a[k], b[k]) for k in a)
    return type(a) == type(b) and a == b or (a is None and b is None)


def _kdq_counts(det):
    """public per-node counts of a kdq detector (ids are id()-based: dropped)."""
    if getattr(det, "_kdqtree", None) is None:
        return None
    try:
        df = det.to_plotly_dataframe()
    except Exception as e:  # no test data yet etc.
        try:
            df = det.to_plotly_dataframe(tree_id2=None)
        except Exception:
            return "unavailable:" + type(e).__name__
    cols = [c for c in ("name", "cell_count", "depth", "count_diff", "kss") if c in df.columns]
    return [[None if (isinstance(v, float) and math.isnan(v)) else (float(v) if isinstance(v, (int, float, np.integer, np.floating)) else str(v)) for v in row] for row in df[cols].to_numpy(dtype=object)]


class Twin(System):
    def __init__(self, driver):
        self.d = driver
        self.name = driver.name

    def init(self, cfg):
        p = cfg["params"]
        rng.seed_step(0, self.name, cfg["id"], "init")
        det = self.d.make(p)
        return {
            "det": det,
            "twin": None,
            "offset": 0,
            "stream": [],  # values fed so far (CUSUM carry-over)
            "last_batch": None,  # symbol of the batch fed by the previous update
            "epochs": 0,
            "twin_updates": 0,
        }

    def alphabet(self, cfg, state, pos):
        p = cfg["params"]
        evs = list(self.d.alphabet(p))
        if self.d.kind == "batch" and cfg.get("with_set_reference"):
            evs += [["ref", i] for i in cfg["with_set_reference"]]
        return evs

    # ------------------------------------------------------------------
    def _fresh(self, p, state, ref_sym):
        """A newly constructed detector with the documented carry-over."""
        name = self.name
        if self.d.kind == "batch":
            det = self.d.cls(**self.d.ctor(p))
            det.set_reference(self.d.batch(ref_sym, p))
            return det
        if name == "CUSUM":
            q = dict(p)
            b = p["burn_in"]
            last = [float(self.d.value(v, p)) for v in state["stream"][-b:]] if b > 0 else []
            # documented: mean and standard deviation re-estimated from the last burn_in observations
            q["target"] = float(np.mean(last)) if last else p.get("target")
            q["sd_hat"] = float(np.std(last)) if last else p.get("sd_hat")
            return self.d.cls(**self.d.ctor(q))
        return self.d.cls(**self.d.ctor(p))

    def _public(self, det, offset):
        """twin-comparable public observables of a detector, indices shifted by offset."""
        name = self.name
        o = self.d.obs(det)
        o["total"] -= offset
        if "recs" in o and o["recs"] is not None:
            o["recs"] = [None if r is None else r - offset for r in o["recs"]]
        if name in ("HDDDM", "CDBD"):
            for attr in ("distances", "epsilon_values", "thresholds"):
                dct = getattr(det, attr)
                o[attr] = {int(k) - offset: float(v) for k, v in dct.items() if int(k) > offset}
        if name in ("KdqTreeBatch", "KdqTreeStreaming"):
            o["tree"] = _kdq_counts(det)
        return jsonable(o)

    def _optional(self, det):
        """observables that exist only once defined on the twin side."""
        o = {}
        if self.name in ("HDDDM", "CDBD"):
            if hasattr(det, "beta"):
                o["beta"] = float(det.beta)
            if hasattr(det, "feature_epsilons"):
                o["feature_epsilons"] = [float(x) for x in det.feature_epsilons]
            if hasattr(det, "feature_info"):
                fi = det.feature_info
                o["feature_info"] = jsonable({k: v for k, v in fi.items()})
        return o

    # ------------------------------------------------------------------
    def step(self, cfg, state, ev, pos, ctx):
        p = cfg["params"]
        name = self.name
        D = state["det"]
        is_ref = isinstance(ev, (list, tuple))
        seed_args = (ctx.seed, name, cfg["id"], pos)
        t0 = self.d.counters(D)[0]
        start_epoch = is_ref or D.drift_state == "drift"
        ref_after_drift = is_ref and D.drift_state == "drift"

        # ---- advance the running detector -----------------------------------
        rng.seed_step(*seed_args)
        d_exc = None
        try:
            self.d.feed(D, ev, p)
        except Exception as e:
            d_exc = e

        # ---- (re)build the twin under the same seed, then advance it -----------
        t_exc = None
        if start_epoch:
            rng.seed_step(*seed_args)
            try:
                T = self._fresh(p, state, ev[1] if is_ref else state["last_batch"])
            except Exception as e:
                T = e
            state["twin"], state["offset"], state["twin_updates"] = T, t0, 0
            # documented: NNDVI.set_reference leaves the counters alone
            state["skip_since"] = is_ref and name == "NNDVI"
            if is_ref:
                ctx.mark("set_reference_events")
                if ref_after_drift:
                    ctx.count("set_reference_right_after_drift")
            else:
                state["epochs"] += 1
                ctx.count("epochs_started_after_drift")
                if state["epochs"] >= 2:
                    ctx.count("third_or_later_epochs")
        T = state["twin"]
        if not is_ref:
            state["stream"].append(ev)
            state["last_batch"] = ev
        else:
            state["last_batch"] = ev[1]

        if T is None:
            # first epoch: D is itself a fresh detector; nothing to compare with
            if d_exc is not None:
                ctx.terminal = True
                ctx.count("first_epoch_exception:" + type(d_exc).__name__)
                return {"exception": type(d_exc).__name__}
            o = self._public(D, 0)
            if o["state"] == "drift":
                ctx.mark("drift_transitions")
            return o

        if isinstance(T, Exception):
            t_exc = T
        elif not is_ref:
            if not start_epoch:
                rng.seed_step(*seed_args)
            try:
                self.d.feed(T, ev, p)
            except Exception as e:
                t_exc = e
            state["twin_updates"] += 1

        if (d_exc is None) != (t_exc is None) or (d_exc is not None and type(d_exc) != type(t_exc)):
            raise Violation(
                "twin-exception",
                "%s: running detector %s but a fresh detector on the same post-drift data %s (event %r)"
                % (name, "raised %r" % d_exc if d_exc else "accepted the call", "raised %r" % t_exc if t_exc else "accepted it", ev),
                expected=repr(t_exc), observed=repr(d_exc), sig="twin-exception:%s" % name,
            )
        if d_exc is not None:
            ctx.terminal = True
            ctx.count("agreed_exception:" + type(d_exc).__name__)
            return {"exception": type(d_exc).__name__}

        off = state["offset"]
        if is_ref:
            # the equivalence is about what later updates report; nothing is compared before the first of them
            return {"set_reference": ev[1]}
        od = self._public(D, off)
        ot = self._public(T, 0)
        if state.get("skip_since"):
            od.pop("since"), ot.pop("since")
        bad = [k for k in ot if not _same(ot[k], od.get(k))]
        opt_t = self._optional(T)
        opt_d = self._optional(D)
        bad += [k for k in opt_t if not _same(opt_t[k], opt_d.get(k))]
        if bad:
            raise Violation(
                "twin",
                "%s differs from a freshly constructed detector fed only the data since the %s on %s (epoch offset %d, %d update(s) into the epoch, event %r)"
                % (name, "new reference" if state.get("by_ref") else "last drift / new reference", bad, off, state["twin_updates"], ev),
                expected={k: ot.get(k, opt_t.get(k)) for k in bad},
                observed={k: od.get(k, opt_d.get(k)) for k in bad},
                sig="twin:%s:%s" % (name, ",".join(sorted(set(bad)))),
            )
        ctx.count("twin_compared_steps")
        if od["state"] == "drift":
            ctx.mark("drift_transitions")
            ctx.count("drifts_in_later_epochs")
        elif od["state"] == "warning":
            ctx.mark("warning_in_later_epochs")
        return od


SYSTEMS = {n: Twin(DRIVERS[n]) for n in NAMES}


# ----------------------------------------------------------------------------
# Cross family (round 5): two objects of one class whose parameter sets differ in exactly ONE parameter (or not at
# all), used alternately in one process.  The twin of the plain families lives in the same process as the running
# detector and therefore sees whatever the library keeps at module / class level exactly as the running detector does;
# here every expectation is produced ALONE in a pristine process state (mc.procstate.reset()):
#   * solo        - the whole trace of each object must equal the trace of the same object (same parameters, same
#                   batches, same seed per call) run alone;
#   * clean-slate - from the update after a drift on, the object must report what a newly constructed detector with
#                   the documented carry-over reports when it is run alone on the post-drift batches (same seeds).
# Seeds: call number i of an object with parameter set q is preceded by rng.seed_step(seed, name, "x5", q, i) in the
# paired run, in the solo run and in the solo twin run.
# ----------------------------------------------------------------------------
CROSS_BASE = {
    "NNDVI": {"k_nn": 2, "sampling_times": 8, "alpha": 0.3},
    "KdqTreeBatch": {"alpha": 0.3, "bootstrap_samples": 10, "count_ubound": 1},
    "KdqTreeStreaming": {"window_size": 2, "persistence": 0.0, "alpha": 0.6, "bootstrap_samples": 8, "count_ubound": 1},
    "HDDDM": {"detect_batch": 2, "statistic": "stdev", "significance": 0.5, "subsets": 3},
    "CDBD": {"detect_batch": 2, "statistic": "stdev", "significance": 0.5, "subsets": 3},
}
# parameter -> the other values it takes (one parameter at a time, each paired with the base set in both orders)
CROSS_VARY = {
    "NNDVI": {"sampling_times": [5, 12], "k_nn": [1], "alpha": [0.6]},
    "KdqTreeBatch": {"bootstrap_samples": [6, 14], "alpha": [0.6], "count_ubound": [2]},
    "KdqTreeStreaming": {"bootstrap_samples": [5, 12], "alpha": [0.3], "count_ubound": [2], "window_size": [3]},
    "HDDDM": {"subsets": [5], "significance": [0.3], "detect_batch": [1]},
    "CDBD": {"subsets": [5], "significance": [0.3], "detect_batch": [1]},
}
# name: (quick: length of a's history, of b's history), (thorough: ...)
CROSS_PLAN = {
    "NNDVI": ((3, 2), (4, 2)),
    "KdqTreeBatch": ((3, 1), (3, 2)),
    "KdqTreeStreaming": ((4, 2), (5, 3)),
    "HDDDM": ((3, 2), (4, 2)),
    "CDBD": ((3, 2), (4, 2)),
}
# classes for which tasks are generated.  Parameter tables for KdqTreeBatch / KdqTreeStreaming / HDDDM / CDBD are kept
# above, but their cost was measured at 20 - 260 CPU-s per ordered pair, beyond this check's budget: not enabled.
CROSS_NAMES = ("NNDVI",)
CROSS_ALL = ("NNDVI", "KdqTreeBatch", "KdqTreeStreaming", "HDDDM", "CDBD")


def cross_param_sets(name):
    """[(id, params)]: id 'base' or '<parameter>=<value>'"""
    base = CROSS_BASE[name]
    out = [("base", dict(base))]
    for k, vals in CROSS_VARY[name].items():
        for v in vals:
            out.append(("%s=%s" % (k, v), dict(base, **{k: v})))
    return out


def cross_pairs(name):
    """ordered pairs (base, variant), (variant, base) for every one-parameter variant of the base set, plus (base, base)"""
    sets = cross_param_sets(name)
    out = []
    for ia, pa in sets:
        for ib, pb in sets:
            n = sum(1 for k in pa if pa[k] != pb[k])
            if (n == 1 and "base" in (ia, ib)) or (n == 0 and ia == "base"):
                out.append((ia, ib))
    return out


def cross_schedules(la, lb):
    """interleavings of a's la calls with b's lb calls: strict alternation (a first) and every block schedule 'a runs
    s calls ahead, then b runs its whole history, then a finishes' (s = 0 .. la-1; b's view of 'b first, then a' is
    the swapped pair)"""
    out = {}
    for first in "a":
        ev, i, j, turn = [], 0, 0, first
        while i < la or j < lb:
            if (turn == "a" and i < la) or j >= lb:
                ev.append(("a", i))
                i += 1
            else:
                ev.append(("b", j))
                j += 1
            turn = "b" if turn == "a" else "a"
        out["alt-" + first] = ev
    for s in range(la):
        out["ahead%d" % s] = [("a", i) for i in range(s)] + [("b", j) for j in range(lb)] + [("a", i) for i in range(s, la)]
    return out


def _cross_seed(seed, name, pid, i):
    rng.seed_step(seed, name, "x5", pid, i)


def _cross_make(name, pid, p):
    rng.seed_step(0, name, "x5", pid, "init")
    return DRIVERS[name].make(p)


def _cross_obs(tw, det, off):
    try:
        o = tw._public(det, off)
        o.update(tw._optional(det))
        return o
    except Exception as e:  # a read-out that fails is an observation like any other
        return {"readout_exception": type(e).__name__}


_SOLO_CACHE = {}


def cross_solo(name, pid, p, hist, seed):
    """(trace, twin) of ONE object run alone: trace[i] = public observation after call i (or the exception type);
    twin[i] = what a newly constructed detector with the documented carry-over, run alone on the batches since the last
    drift, reports after call i (absent in the first epoch).  Every run starts from a pristine process state."""
    from mc import procstate

    key = (seed, name, pid, tuple(hist))
    if key in _SOLO_CACHE:
        return _SOLO_CACHE[key]
    d, tw = DRIVERS[name], SYSTEMS[name]
    procstate.reset()
    D = _cross_make(name, pid, p)
    trace, starts, dead = [], [], False
    for i, sym in enumerate(hist):
        if dead:
            trace.append(None)
            continue
        if D.drift_state == "drift":
            starts.append(i)
        _cross_seed(seed, name, pid, i)
        try:
            d.feed(D, sym, p)
            trace.append(_cross_obs(tw, D, 0))
        except Exception as e:
            trace.append({"exception": type(e).__name__})
            dead = True
    twin = {}
    for n, i in enumerate(starts):
        end = starts[n + 1] if n + 1 < len(starts) else len(hist)
        procstate.reset()
        _cross_seed(seed, name, pid, i)
        try:
            T = tw._fresh(p, {"stream": list(hist[:i])}, hist[i - 1])
        except Exception as e:
            twin[i] = {"exception": type(e).__name__}
            continue
        for j in range(i, end):
            if trace[j] is None:
                break
            if j > i:
                _cross_seed(seed, name, pid, j)
            try:
                d.feed(T, hist[j], p)
                twin[j] = _cross_obs(tw, T, 0)
            except Exception as e:
                twin[j] = {"exception": type(e).__name__}
                break
    procstate.reset()
    if len(_SOLO_CACHE) > 20000:
        _SOLO_CACHE.clear()
    _SOLO_CACHE[key] = (trace, twin)
    return trace, twin


class Cross(System):
    """cfg: name (class), a / b = [parameter-set id, params], ha / hb = the two histories, program = [[role, index]].
    The events of an execution are the entries of cfg['program'] in order (the expectations are computed in init())."""

    def __init__(self, name):
        self.cls_name = name
        self.name = "Cross:" + name

    def init(self, cfg):
        from mc import procstate

        name = self.cls_name
        exp = {}
        for r in "ab":
            pid, p = cfg[r]
            exp[r] = cross_solo(name, pid, p, cfg["h" + r], cfg["seed_used"])
        procstate.reset()
        st = {"exp": exp, "dead": {"a": False, "b": False}, "off": {"a": 0, "b": 0}, "epoch": {"a": 0, "b": 0}}
        for r in "ab":
            st[r] = _cross_make(name, cfg[r][0], cfg[r][1])
        return st

    def alphabet(self, cfg, state, pos):
        return [cfg["program"][pos]] if pos < len(cfg["program"]) else []

    def step(self, cfg, state, ev, pos, ctx):
        name = self.cls_name
        d, tw = DRIVERS[name], SYSTEMS[name]
        r, i = ev
        pid, p = cfg[r]
        sym = cfg["h" + r][i]
        D = state[r]
        trace, twin = state["exp"][r]
        if state["dead"][r]:
            return {"skipped": True}
        if D.drift_state == "drift":
            state["off"][r] = d.counters(D)[0]
            state["epoch"][r] += 1
        off = state["off"][r]
        _cross_seed(cfg["seed_used"], name, pid, i)
        try:
            d.feed(D, sym, p)
            o0 = _cross_obs(tw, D, 0)
            oo = _cross_obs(tw, D, off) if state["epoch"][r] else None
        except Exception as e:
            o0 = oo = {"exception": type(e).__name__}
            state["dead"][r] = True
        other = cfg["b" if r == "a" else "a"][0]
        what = "%s(%s) call %d (batch %r) while a %s(%s) is used in the same process" % (name, pid, i, sym, name, other)
        e0 = trace[i]
        bad = [k for k in sorted(set(e0) | set(o0)) if not _same(e0.get(k), o0.get(k))]
        if bad:
            raise Violation(
                "cross-solo",
                "%s reports %s differently from the same object run alone in a fresh process state" % (what, bad),
                expected={k: e0.get(k) for k in bad}, observed={k: o0.get(k) for k in bad},
                sig="cross-solo:%s:%s" % (name, ",".join(bad)),
            )
        ctx.count("cross_solo_compared_steps")
        if i in twin and oo is not None:
            et = twin[i]
            bad = [k for k in sorted(et) if not _same(et[k], oo.get(k))]
            if bad:
                raise Violation(
                    "cross-clean-slate",
                    "%s, %d batches after its drift, reports %s differently from a newly constructed detector run alone on the post-drift batches"
                    % (what, d.counters(D)[0] - off if "exception" not in o0 else -1, bad),
                    expected={k: et.get(k) for k in bad}, observed={k: oo.get(k) for k in bad},
                    sig="cross-clean-slate:%s:%s" % (name, ",".join(bad)),
                )
            ctx.mark("cross_clean_slate_compared_steps")
            if cfg["a"][0] != cfg["b"][0]:
                ctx.count("cross_clean_slate_steps_with_differing_parameter")
        if o0.get("state") == "drift":
            ctx.mark("cross_drifts")
        return o0


for _n in CROSS_ALL:
    SYSTEMS["Cross:" + _n] = Cross(_n)


def run_cross(task, seed):
    """fn task: one class, one ordered pair of parameter sets; every history of a x every history of b x every
    schedule, each executed from scratch after mc.procstate.reset()."""
    import time
    from mc.explorer import Ctx, artefact, run_path, HarnessError

    t0 = time.time()
    name = task["cls"]
    system = SYSTEMS["Cross:" + name]
    d = DRIVERS[name]
    sets = dict(cross_param_sets(name))
    ia, ib = task["pair"]
    la, lb = task["lens"]
    alpha = list(d.alphabet(sets[ia]))
    alpha_b = cross_b_alphabet(name, task["tier"])
    ctx = Ctx(seed)
    st = ctx.stats
    violations, per_sig = [], {}
    scheds = cross_schedules(la, lb)
    for ha in itertools.product(alpha, repeat=la):
        if task.get("first") is not None and ha[0] != task["first"]:
            continue
        for hb in itertools.product(alpha_b, repeat=lb):
            for sname, prog in scheds.items():
                cfg = {"id": "%s|%s" % (ia, ib), "name": name, "a": [ia, sets[ia]], "b": [ib, sets[ib]], "ha": list(ha), "hb": list(hb),
                       "schedule": sname, "program": [list(e) for e in prog], "seed_used": seed}
                state = system.init(cfg)
                nmarks, ok = 0, True
                for pos, ev in enumerate(cfg["program"]):
                    ctx.marks = 0
                    try:
                        system.step(cfg, state, ev, pos, ctx)
                    except Violation as v:
                        ok = False
                        st["violations_raw"] += 1
                        st["sig:" + str(v.sig)] += 1
                        per_sig[v.sig] = per_sig.get(v.sig, 0) + 1
                        if per_sig[v.sig] <= 2:
                            bad = cfg["program"][: pos + 1]
                            _SOLO_CACHE.clear()
                            _, v2 = run_path(system, cfg, bad, seed)
                            if v2 is None or (v2.sub, v2.msg) != (v.sub, v.msg):
                                raise HarnessError("HARNESS-NONDET: violation %r on %s cfg=%r did not reproduce from scratch" % ((v.sub, v.msg), system.name, cfg))
                            violations.append(artefact(PROPERTY, system, cfg, seed, bad, v))
                        break
                    st["transitions"] += 1
                    st["states"] += 1
                    if ctx.marks:
                        nmarks += 1
                if not ok:
                    continue
                st["executions"] += 1
                st["cross_executions"] += 1
                st["cross_executions:" + name] += 1
                if nmarks:
                    st["nontrivial_executions"] += 1
    return {"stats": dict(st), "violations": violations, "samples": [], "wall": time.time() - t0}


def cross_b_alphabet(name, tier):
    """symbols of the OTHER object's history: the whole alphabet (a restriction to the two batch sizes [0, 3] was tried
    and did NOT expose a stale-workspace change for every seed)"""
    d = DRIVERS[name]
    full = list(d.alphabet(CROSS_BASE[name]))
    return full


def cross_tasks(tier):
    out = []
    for name in CROSS_NAMES:
        la, lb = CROSS_PLAN[name][0 if tier == "quick" else 1]
        for ia, ib in cross_pairs(name):
            for first in DRIVERS[name].alphabet(CROSS_BASE[name]):
                out.append({"fn": "run_cross", "system": "Cross:" + name, "cls": name, "pair": [ia, ib], "lens": [la, lb], "first": first, "tier": tier,
                            "cfg": {}, "label": "Cross:%s|%s|%s|first=%s" % (name, ia, ib, first), "cost": 6 * COST.get(name, 1)})
    return out

PLAN = {
    # name: (quick depth, thorough depth, prefix split)
    "DDM": (13, 17, 2),
    "EDDM": (13, 17, 2),
    "STEPD": (12, 15, 2),
    "CUSUM": (7, 9, 1),
    "PageHinkley": (7, 9, 1),
    "KdqTreeStreaming": (8, 10, 3),
    "HDDDM": (4, 6, 1),
    "CDBD": (4, 6, 1),
    "KdqTreeBatch": (4, 5, 1),
    "NNDVI": (4, 5, 1),
}
COST = {"KdqTreeBatch": 30, "HDDDM": 10, "CDBD": 8, "NNDVI": 8, "KdqTreeStreaming": 10}


def tasks(tier, seed):
    out = []
    for name in ("DDM", "EDDM", "STEPD", "PageHinkley", "CUSUM"):
        d = DRIVERS[name]
        dq, dt, split = PLAN[name]
        depth = (dq if tier == "quick" else dt) - (3 if name in ("DDM", "EDDM", "STEPD") else (1 if name == "PageHinkley" else 0))
        for ci, p in enumerate(d.all_configs(tier)):
            if name == "CUSUM" and p["burn_in"] == 0:
                continue
            for pre in drift_prefixes(name, p, seeder=(lambda pos, n=name, i=ci: rng.seed_step(0 if pos == "init" else seed, n, i, pos))):
                out.append(
                    {
                        "system": name,
                        "cfg": {"id": ci, "params": p},
                        "prefix": pre,
                        "depth": depth,
                        "label": "%s|%d|after-drift:%s" % (name, ci, ",".join(map(str, pre))),
                        "cost": 4,
                        "validate_every": 211,
                    }
                )
    # batch detectors: scripted starts right after a drift, so that positions of the second epoch at which the first
    # epoch has already computed thresholds (on a reference of another size) lie inside the bound
    for name in ("HDDDM", "CDBD", "KdqTreeBatch", "NNDVI"):
        d = DRIVERS[name]
        dq, dt, split = PLAN[name]
        depth = (dq if tier == "quick" else dt) - 1
        for ci, p in enumerate(d.all_configs(tier)):
            if name == "KdqTreeBatch" and p.get("_no_initial_ref"):
                continue
            for pre in drift_prefixes(name, p, maxlen=3, limit=2, seeder=(lambda pos, n=name, i=ci: rng.seed_step(0 if pos == "init" else seed, n, i, pos))):
                out.append(
                    {
                        "system": name,
                        "cfg": {"id": ci, "params": p, "with_set_reference": [1, 3]},
                        "prefix": pre,
                        "depth": depth,
                        "label": "%s|%d|after-drift:%s" % (name, ci, ",".join(map(str, pre))),
                        "cost": 4 * COST.get(name, 1),
                        "validate_every": 211,
                    }
                )
    for name in NAMES:
        d = DRIVERS[name]
        dq, dt, split = PLAN[name]
        depth = dq if tier == "quick" else dt
        for ci, p in enumerate(d.all_configs(tier)):
            if name == "KdqTreeBatch" and p.get("_no_initial_ref"):
                continue
            if name == "CUSUM" and p["burn_in"] == 0:
                continue  # no documented carry-over is defined for an empty burn-in span
            cfg = {"id": ci, "params": p}
            alpha = list(d.alphabet(p))
            if d.kind == "batch":
                cfg["with_set_reference"] = [1, 3]
                alpha = alpha + [["ref", 1], ["ref", 3]]
            for pre in itertools.product(alpha, repeat=split):
                out.append(
                    {
                        "system": name,
                        "cfg": cfg,
                        "prefix": list(pre),
                        "depth": depth - len(pre),
                        "label": "%s|%d|%s" % (name, ci, ",".join(map(str, pre))),
                        "cost": COST.get(name, 1),
                        "validate_every": 211,
                    }
                )
    out += cross_tasks(tier)
    return out


REQUIRED = [
    "twin_compared_steps",
    "epochs_started_after_drift",
    "third_or_later_epochs",
    "drifts_in_later_epochs",
    "warning_in_later_epochs",
    "set_reference_events",
    "set_reference_right_after_drift",
    "cross_solo_compared_steps",
    "cross_executions",
]


def describe(tier):
    return {
        "rule": "per detector and parameter set every sequence of updates (batch detectors: updates and set_reference "
        "events at any position) up to the depth in bounds; after each drift / set_reference a fresh twin with the "
        "documented carry-over is built and compared bit-for-bit after every later update; non-trivial = history "
        "with a drift, a warning in a later epoch or a set_reference event",
        "bounds": {
            "depth": {k: (v[0] if tier == "quick" else v[1]) for k, v in PLAN.items()},
            "alphabets": {k: list(map(str, DRIVERS[k].symbols)) + (["set_reference(menu 1)", "set_reference(menu 3)"] if DRIVERS[k].kind == "batch" else []) for k in NAMES},
            "parameter_sets": {k: len(DRIVERS[k].all_configs(tier)) for k in NAMES},
            "cross_family": {
                "classes": list(CROSS_NAMES),
                "parameter_sets": {n: [i for i, _ in cross_param_sets(n)] for n in CROSS_NAMES},
                "ordered_pairs": {n: len(cross_pairs(n)) for n in CROSS_NAMES},
                "history_lengths_a_b": {n: list(CROSS_PLAN[n][0 if tier == "quick" else 1]) for n in CROSS_NAMES},
                "schedules": "strict alternation (a first); a runs s calls, b its whole history, a the rest (s = 0 .. len(a)-1)",
                "rule": "two objects of one class, parameter sets equal (base) or differing in exactly one parameter, every "
                "history of a x every history of b over the update alphabet x every schedule, each execution from scratch "
                "after mc.procstate.reset(); each object's whole trace must equal its solo trace and, after a drift, the "
                "trace of a newly constructed detector with the carry-over run alone (both computed in a pristine process state)",
            },
            "families": "besides the plain parameter sets: DataFrame / list / float32 containers, integer-typed samples, level 3e7 / 1e6 and scale 1e-6 / 1e-3 for the univariate detectors (drivers.family_configs)",
        },
        "explanation": "differential oracle between two real objects; compared: drift_state, retraining_recs and total "
        "counter minus the epoch offset, since-reset counter, Page-Hinkley to_dataframe(), STEPD accuracies, HDM "
        "current_distance/reference_n/distances/epsilon_values/thresholds (keys shifted) and beta/feature_epsilons/"
        "feature_info once defined on the twin, kdq public node counts, NNDVI reference_batch, exception types",
        "assumptions": [
            "CUSUM carry-over = numpy mean and population std of the last burn_in observations (documented); with burn_in=0 the constructor values carry over",
            "batch detectors: carry-over = the drifted batch as reference; NNDVI.set_reference is documented not to touch the counters",
            "numpy's global RNG is re-seeded identically before the running detector's call and before the twin's construction+call",
            "cross family: call i of an object is seeded by (VERIF_SEED, class, parameter-set id, i) in the paired run, the solo run and the solo twin run; "
            "only NNDVI is enabled (kdq / HDM pairs cost 20-260 CPU-s per ordered pair); cross_clean_slate_* and cross_drifts depend on permutation draws and are reported, not required",
        ],
    }
