"""C02 — after a drift (or a new reference) a detector starts from a clean slate.

Twin oracle (DESIGN §4 C02): whenever the running detector D reported drift (or
``set_reference(b)`` is applied to a batch detector) a *fresh* detector T with
the same constructor parameters and the documented carry-over is constructed
under the same seed; from then on D and T receive identical inputs and must
agree bit-for-bit (indices shifted by the epoch offset) on everything public.
Because T is itself replaced at every drift, third and later epochs of D are
always compared with a detector in its first epoch.
"""
import copy
import itertools
import math

import numpy as np

from mc import rng
from mc.explorer import System, Violation, jsonable
from checks.drivers import DRIVERS, drift_prefixes

PROPERTY = "C02"

NAMES = ("DDM", "EDDM", "STEPD", "PageHinkley", "CUSUM", "KdqTreeStreaming", "KdqTreeBatch", "HDDDM", "CDBD", "NNDVI")


def _same(a, b):
    """bit-for-bit equality of JSON-able observation values (NaN == NaN)."""
    if isinstance(a, float) and isinstance(b, float):
        return a == b or (math.isnan(a) and math.isnan(b))
    if isinstance(a, (list, tuple)) and isinstance(b, (list, tuple)):
        return len(a) == len(b) and all(_same(x, y) for x, y in zip(a, b))
    if isinstance(a, dict) and isinstance(b, dict):
        return a.keys() == b.keys() and all(_same(a[k], b[k]) for k in a)
    return type(a) == type(b) and a == b or (a is None and b is None)


def _kdq_counts(det):
    """public per-node counts of a kdq detector (ids are id()-based: dropped)."""
    if getattr(det, "_kdqtree", None) is None:
        return None
    try:
        df = det.to_plotly_dataframe()
    except Exception as e:  # no test data yet etc.
        try:
            df = det.to_plotly_dataframe(tree_id2=None)
        except Exception:
            return "unavailable:" + type(e).__name__
    cols = [c for c in ("name", "cell_count", "depth", "count_diff", "kss") if c in df.columns]
    return [[None if (isinstance(v, float) and math.isnan(v)) else (float(v) if isinstance(v, (int, float, np.integer, np.floating)) else str(v)) for v in row] for row in df[cols].to_numpy(dtype=object)]


class Twin(System):
    def __init__(self, driver):
        self.d = driver
        self.name = driver.name

    def init(self, cfg):
        p = cfg["params"]
        rng.seed_step(0, self.name, cfg["id"], "init")
        det = self.d.make(p)
        return {
            "det": det,
            "twin": None,
            "offset": 0,
            "stream": [],  # values fed so far (CUSUM carry-over)
            "last_batch": None,  # symbol of the batch fed by the previous update
            "epochs": 0,
            "twin_updates": 0,
        }

    def alphabet(self, cfg, state, pos):
        p = cfg["params"]
        evs = list(self.d.alphabet(p))
        if self.d.kind == "batch" and cfg.get("with_set_reference"):
            evs += [["ref", i] for i in cfg["with_set_reference"]]
        return evs

    # ------------------------------------------------------------------
    def _fresh(self, p, state, ref_sym):
        """A newly constructed detector with the documented carry-over."""
        name = self.name
        if self.d.kind == "batch":
            det = self.d.cls(**self.d.ctor(p))
            det.set_reference(self.d.batch(ref_sym, p))
            return det
        if name == "CUSUM":
            q = dict(p)
            b = p["burn_in"]
            last = [float(self.d.value(v, p)) for v in state["stream"][-b:]] if b > 0 else []
            # documented: mean and standard deviation re-estimated from the last burn_in observations
            q["target"] = float(np.mean(last)) if last else p.get("target")
            q["sd_hat"] = float(np.std(last)) if last else p.get("sd_hat")
            return self.d.cls(**self.d.ctor(q))
        return self.d.cls(**self.d.ctor(p))

    def _public(self, det, offset):
        """twin-comparable public observables of a detector, indices shifted by offset."""
        name = self.name
        o = self.d.obs(det)
        o["total"] -= offset
        if "recs" in o and o["recs"] is not None:
            o["recs"] = [None if r is None else r - offset for r in o["recs"]]
        if name in ("HDDDM", "CDBD"):
            for attr in ("distances", "epsilon_values", "thresholds"):
                dct = getattr(det, attr)
                o[attr] = {int(k) - offset: float(v) for k, v in dct.items() if int(k) > offset}
        if name in ("KdqTreeBatch", "KdqTreeStreaming"):
            o["tree"] = _kdq_counts(det)
        return jsonable(o)

    def _optional(self, det):
        """observables that exist only once defined on the twin side."""
        o = {}
        if self.name in ("HDDDM", "CDBD"):
            if hasattr(det, "beta"):
                o["beta"] = float(det.beta)
            if hasattr(det, "feature_epsilons"):
                o["feature_epsilons"] = [float(x) for x in det.feature_epsilons]
            if hasattr(det, "feature_info"):
                fi = det.feature_info
                o["feature_info"] = jsonable({k: v for k, v in fi.items()})
        return o

    # ------------------------------------------------------------------
    def step(self, cfg, state, ev, pos, ctx):
        p = cfg["params"]
        name = self.name
        D = state["det"]
        is_ref = isinstance(ev, (list, tuple))
        seed_args = (ctx.seed, name, cfg["id"], pos)
        t0 = self.d.counters(D)[0]
        start_epoch = is_ref or D.drift_state == "drift"
        ref_after_drift = is_ref and D.drift_state == "drift"

        # ---- advance the running detector -----------------------------------
        rng.seed_step(*seed_args)
        d_exc = None
        try:
            self.d.feed(D, ev, p)
        except Exception as e:
            d_exc = e

        # ---- (re)build the twin under the same seed, then advance it -----------
        t_exc = None
        if start_epoch:
            rng.seed_step(*seed_args)
            try:
                T = self._fresh(p, state, ev[1] if is_ref else state["last_batch"])
            except Exception as e:
                T = e
            state["twin"], state["offset"], state["twin_updates"] = T, t0, 0
            # documented: NNDVI.set_reference leaves the counters alone
            state["skip_since"] = is_ref and name == "NNDVI"
            if is_ref:
                ctx.mark("set_reference_events")
                if ref_after_drift:
                    ctx.count("set_reference_right_after_drift")
            else:
                state["epochs"] += 1
                ctx.count("epochs_started_after_drift")
                if state["epochs"] >= 2:
                    ctx.count("third_or_later_epochs")
        T = state["twin"]
        if not is_ref:
            state["stream"].append(ev)
            state["last_batch"] = ev
        else:
            state["last_batch"] = ev[1]

        if T is None:
            # first epoch: D is itself a fresh detector; nothing to compare with
            if d_exc is not None:
                ctx.terminal = True
                ctx.count("first_epoch_exception:" + type(d_exc).__name__)
                return {"exception": type(d_exc).__name__}
            o = self._public(D, 0)
            if o["state"] == "drift":
                ctx.mark("drift_transitions")
            return o

        if isinstance(T, Exception):
            t_exc = T
        elif not is_ref:
            if not start_epoch:
                rng.seed_step(*seed_args)
            try:
                self.d.feed(T, ev, p)
            except Exception as e:
                t_exc = e
            state["twin_updates"] += 1

        if (d_exc is None) != (t_exc is None) or (d_exc is not None and type(d_exc) != type(t_exc)):
            raise Violation(
                "twin-exception",
                "%s: running detector %s but a fresh detector on the same post-drift data %s (event %r)"
                % (name, "raised %r" % d_exc if d_exc else "accepted the call", "raised %r" % t_exc if t_exc else "accepted it", ev),
                expected=repr(t_exc), observed=repr(d_exc), sig="twin-exception:%s" % name,
            )
        if d_exc is not None:
            ctx.terminal = True
            ctx.count("agreed_exception:" + type(d_exc).__name__)
            return {"exception": type(d_exc).__name__}

        off = state["offset"]
        if is_ref:
            # the equivalence is about what later updates report; nothing is compared before the first of them
            return {"set_reference": ev[1]}
        od = self._public(D, off)
        ot = self._public(T, 0)
        if state.get("skip_since"):
            od.pop("since"), ot.pop("since")
        bad = [k for k in ot if not _same(ot[k], od.get(k))]
        opt_t = self._optional(T)
        opt_d = self._optional(D)
        bad += [k for k in opt_t if not _same(opt_t[k], opt_d.get(k))]
        if bad:
            raise Violation(
                "twin",
                "%s differs from a freshly constructed detector fed only the data since the %s on %s (epoch offset %d, %d update(s) into the epoch, event %r)"
                % (name, "new reference" if state.get("by_ref") else "last drift / new reference", bad, off, state["twin_updates"], ev),
                expected={k: ot.get(k, opt_t.get(k)) for k in bad},
                observed={k: od.get(k, opt_d.get(k)) for k in bad},
                sig="twin:%s:%s" % (name, ",".join(sorted(set(bad)))),
            )
        ctx.count("twin_compared_steps")
        if od["state"] == "drift":
            ctx.mark("drift_transitions")
            ctx.count("drifts_in_later_epochs")
        elif od["state"] == "warning":
            ctx.mark("warning_in_later_epochs")
        return od


SYSTEMS = {n: Twin(DRIVERS[n]) for n in NAMES}

PLAN = {
    # name: (quick depth, thorough depth, prefix split)
    "DDM": (13, 17, 2),
    "EDDM": (13, 17, 2),
    "STEPD": (12, 15, 2),
    "CUSUM": (7, 9, 1),
    "PageHinkley": (7, 9, 1),
    "KdqTreeStreaming": (8, 10, 3),
    "HDDDM": (4, 6, 1),
    "CDBD": (4, 6, 1),
    "KdqTreeBatch": (4, 5, 1),
    "NNDVI": (4, 5, 1),
}
COST = {"KdqTreeBatch": 30, "HDDDM": 10, "CDBD": 8, "NNDVI": 8, "KdqTreeStreaming": 10}


def tasks(tier, seed):
    out = []
    for name in ("DDM", "EDDM", "STEPD", "PageHinkley", "CUSUM"):
        d = DRIVERS[name]
        dq, dt, split = PLAN[name]
        depth = (dq if tier == "quick" else dt) - (3 if name in ("DDM", "EDDM", "STEPD") else (1 if name == "PageHinkley" else 0))
        for ci, p in enumerate(d.all_configs(tier)):
            if name == "CUSUM" and p["burn_in"] == 0:
                continue
            for pre in drift_prefixes(name, p, seeder=(lambda pos, n=name, i=ci: rng.seed_step(0 if pos == "init" else seed, n, i, pos))):
                out.append(
                    {
                        "system": name,
                        "cfg": {"id": ci, "params": p},
                        "prefix": pre,
                        "depth": depth,
                        "label": "%s|%d|after-drift:%s" % (name, ci, ",".join(map(str, pre))),
                        "cost": 4,
                        "validate_every": 211,
                    }
                )
    # batch detectors: scripted starts right after a drift, so that positions of the second epoch at which the first
    # epoch has already computed thresholds (on a reference of another size) lie inside the bound
    for name in ("HDDDM", "CDBD", "KdqTreeBatch", "NNDVI"):
        d = DRIVERS[name]
        dq, dt, split = PLAN[name]
        depth = (dq if tier == "quick" else dt) - 1
        for ci, p in enumerate(d.all_configs(tier)):
            if name == "KdqTreeBatch" and p.get("_no_initial_ref"):
                continue
            for pre in drift_prefixes(name, p, maxlen=3, limit=2, seeder=(lambda pos, n=name, i=ci: rng.seed_step(0 if pos == "init" else seed, n, i, pos))):
                out.append(
                    {
                        "system": name,
                        "cfg": {"id": ci, "params": p, "with_set_reference": [1, 3]},
                        "prefix": pre,
                        "depth": depth,
                        "label": "%s|%d|after-drift:%s" % (name, ci, ",".join(map(str, pre))),
                        "cost": 4 * COST.get(name, 1),
                        "validate_every": 211,
                    }
                )
    for name in NAMES:
        d = DRIVERS[name]
        dq, dt, split = PLAN[name]
        depth = dq if tier == "quick" else dt
        for ci, p in enumerate(d.all_configs(tier)):
            if name == "KdqTreeBatch" and p.get("_no_initial_ref"):
                continue
            if name == "CUSUM" and p["burn_in"] == 0:
                continue  # no documented carry-over is defined for an empty burn-in span
            cfg = {"id": ci, "params": p}
            alpha = list(d.alphabet(p))
            if d.kind == "batch":
                cfg["with_set_reference"] = [1, 3]
                alpha = alpha + [["ref", 1], ["ref", 3]]
            for pre in itertools.product(alpha, repeat=split):
                out.append(
                    {
                        "system": name,
                        "cfg": cfg,
                        "prefix": list(pre),
                        "depth": depth - len(pre),
                        "label": "%s|%d|%s" % (name, ci, ",".join(map(str, pre))),
                        "cost": COST.get(name, 1),
                        "validate_every": 211,
                    }
                )
    return out


REQUIRED = [
    "twin_compared_steps",
    "epochs_started_after_drift",
    "third_or_later_epochs",
    "drifts_in_later_epochs",
    "warning_in_later_epochs",
    "set_reference_events",
    "set_reference_right_after_drift",
]


def describe(tier):
    return {
        "rule": "per detector and parameter set every sequence of updates (batch detectors: updates and set_reference "
        "events at any position) up to the depth in bounds; after each drift / set_reference a fresh twin with the "
        "documented carry-over is built and compared bit-for-bit after every later update; non-trivial = history "
        "with a drift, a warning in a later epoch or a set_reference event",
        "bounds": {
            "depth": {k: (v[0] if tier == "quick" else v[1]) for k, v in PLAN.items()},
            "alphabets": {k: list(map(str, DRIVERS[k].symbols)) + (["set_reference(menu 1)", "set_reference(menu 3)"] if DRIVERS[k].kind == "batch" else []) for k in NAMES},
            "parameter_sets": {k: len(DRIVERS[k].all_configs(tier)) for k in NAMES},
            "families": "besides the plain parameter sets: DataFrame / list / float32 containers, integer-typed samples, level 3e7 / 1e6 and scale 1e-6 / 1e-3 for the univariate detectors (drivers.family_configs)",
        },
        "explanation": "differential oracle between two real objects; compared: drift_state, retraining_recs and total "
        "counter minus the epoch offset, since-reset counter, Page-Hinkley to_dataframe(), STEPD accuracies, HDM "
        "current_distance/reference_n/distances/epsilon_values/thresholds (keys shifted) and beta/feature_epsilons/"
        "feature_info once defined on the twin, kdq public node counts, NNDVI reference_batch, exception types",
        "assumptions": [
            "CUSUM carry-over = numpy mean and population std of the last burn_in observations (documented); with burn_in=0 the constructor values carry over",
            "batch detectors: carry-over = the drifted batch as reference; NNDVI.set_reference is documented not to touch the counters",
            "numpy's global RNG is re-seeded identically before the running detector's call and before the twin's construction+call",
        ],
    }
