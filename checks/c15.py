"""C15 — detectors and injectors never modify, or keep live references to, caller data.

Detectors (DESIGN §4 C15).  Two real objects of the same class and parameters
are advanced in lock-step over every explored history:

  * D receives *caller-owned* containers (C-order ndarray, Fortran-order
    ndarray, a strided non-contiguous view into a wider array, a single-dtype
    DataFrame, a mixed-dtype DataFrame, a DataFrame that wraps a caller ndarray
    without copying); after the call at the overwrite position(s) the caller
    overwrites in place what it passed (``arr[...] = junk`` /
    ``df.iloc[:, :] = junk``);
  * T (the twin) receives private containers of the same layout and content
    that nobody ever touches again.

Oracles: (a) every argument is bit-for-bit what it was before the call (bytes,
dtype, shape, strides, write flag, index, columns, per-column dtypes, and the
bytes of the wider array a view was cut from); (b) everything public that D
reports — after the call and again after the caller's overwrite — equals what T
reports, bit for bit, and D raises exactly when T raises.

Round-3 families: (1) the batch detectors fed UNIVARIATE batches as vectors
(systems ``<detector>~vec``: 1-D ndarray, contiguous slice / strided view of a
longer caller buffer, Series, Series wrapping a caller ndarray) — the "row vector
is coerced into a column vector" path of ``BatchDetector._validate_X``;
(2) overwrite pattern ``reuse``: the caller recycles ONE container per argument,
refills it in place and passes the very same object at every call;
(3) injector chains (systems ``<injector>~chain``): one or two injector objects
of a class called two or three times on objects the caller already holds
(fresh containers, results of earlier calls, an earlier input again).

Round 5 (system ``Shared``): TWO detectors alive in one process (same class and
different classes; batch, streaming, ensembles, MD3) are fed alternately from ONE
caller container that is refilled in place between calls - every interleaving of two
short operation lists, a few schedules of long ones; each detector is judged by a
solo twin that ran alone, in a reset process state, on private containers (state kept
outside the object - a class-level memo keyed by the identity of the argument - is
evicted by a twin that runs in lock-step, which is why the lock-step families above
cannot see it).

Because the property is about *aliasing*, explorer snapshots must not break
aliases: ``copy.deepcopy`` of (detector, caller array) would silently turn a
retained view into a private copy.  The node state therefore implements
``__deepcopy__`` by re-executing its history on freshly constructed objects.

Injectors: every class of menelaus.injection x container layout x small data x
every window x argument menu, one call per execution: input bit-for-bit
unchanged, dict arguments unchanged (deep equality incl. key order), result of
the input's container type, no memory shared between result and input
(``np.shares_memory`` on the underlying arrays), and the result does not change
when the caller overwrites the input afterwards.
"""
import copy
import itertools
import json
import math

import numpy as np
import pandas as pd

from mc import rng
from mc.explorer import HarnessError, System, Violation, jsonable
from checks.drivers import (
    DRIVERS,
    BATCH_1D,
    BATCH_2D,
    PCA_POINTS,
    MD3_REF,
    Driver,
    ThresholdClassifier,
    md3_margin,
)

from menelaus.concept_drift import MD3
from menelaus.ensemble import (
    BatchEnsemble,
    StreamingEnsemble,
    MinimumApprovalElection,
    SimpleMajorityElection,
)
from menelaus.injection import (
    BrownianNoiseInjector,
    FeatureCoverInjector,
    FeatureShiftInjector,
    FeatureSwapInjector,
    LabelDirichletInjector,
    LabelJoinInjector,
    LabelProbabilityInjector,
    LabelSwapInjector,
)

PROPERTY = "C15"

LAYOUTS = ("c", "f", "view", "df", "dfmix", "dfarr")
ROW_LAYOUTS = ("nd1", "series")  # a single observation handed over as a 1-D container (streaming detectors only)
# a univariate BATCH handed over as a vector (batch detectors document that a 1-D input is coerced to one column)
VEC_LAYOUTS = ("vec", "vecslice", "vecview", "ser", "serarr")
LAYOUT_TEXT = {
    "vec": "1-D ndarray holding a univariate batch",
    "vecslice": "contiguous 1-D slice of a longer caller buffer holding a univariate batch",
    "vecview": "strided 1-D view into a longer caller buffer holding a univariate batch",
    "ser": "pandas Series holding a univariate batch",
    "serarr": "pandas Series wrapping a caller ndarray (copy=False) holding a univariate batch",
    "nd1": "1-D ndarray holding the single row",
    "series": "pandas Series holding the single row",
    "c": "C-order ndarray",
    "f": "Fortran-order ndarray",
    "view": "non-contiguous strided view into a wider ndarray",
    "df": "single-dtype DataFrame",
    "dfmix": "mixed-dtype DataFrame",
    "dfarr": "DataFrame wrapping a caller ndarray (copy=False)",
}


# =============================================================================
# caller-owned containers
# =============================================================================
def junk_for(shape, dtype, salt):
    """Non-constant garbage far away from every data value used by the check."""
    n = int(np.prod(shape))
    return (777 + 13 * int(salt) + 3 * np.arange(n)).reshape(shape).astype(dtype)


def mixed_dtypes(data):
    """per-column dtypes (column 0 keeps the data's dtype, the others get a
    different dtype that holds their values exactly); None if impossible."""
    if data.shape[1] < 2:
        return None
    out = [data.dtype]
    for j in range(1, data.shape[1]):
        col = data[:, j]
        if data.dtype.kind == "f" and np.all(col == np.floor(col)) and j % 2 == 0:
            out.append(np.dtype("int64"))
        elif data.dtype.kind == "f" and np.array_equal(col.astype(np.float32).astype(np.float64), col):
            out.append(np.dtype("float32"))
        elif data.dtype.kind == "i":
            out.append(np.dtype("float64"))
        else:
            out.append(data.dtype)
    if all(d == data.dtype for d in out):
        return None
    return out


def _fp_array(a):
    return (
        "nd",
        a.dtype.str,
        tuple(a.shape),
        tuple(a.strides),
        bool(a.flags.writeable),
        bool(a.flags.c_contiguous),
        bool(a.flags.f_contiguous),
        a.tobytes(),
    )


def _fp_frame(df):
    dts = df.dtypes.tolist()
    return (
        "df",
        type(df).__name__,
        tuple(df.shape),
        type(df.columns).__name__,
        str(df.columns.dtype),
        tuple(repr(c) for c in df.columns.tolist()),
        type(df.index).__name__,
        str(df.index.dtype),
        tuple(repr(i) for i in df.index.tolist()),
        tuple(str(t) for t in dts),
        # one dtype: the cell bytes in one go (no conversion happens); several dtypes: column by column
        (df.to_numpy().tobytes(),) if len(set(dts)) == 1 and dts[0] != object else tuple(df.iloc[:, j].to_numpy().tobytes() for j in range(df.shape[1])),
    )


def fingerprint(obj):
    if isinstance(obj, np.ndarray):
        return _fp_array(obj)
    if isinstance(obj, pd.Series):
        return ("series", str(obj.dtype), tuple(repr(i) for i in obj.index.tolist()), obj.to_numpy().tobytes(), repr(obj.name), type(obj.index).__name__, str(obj.index.dtype))
    if isinstance(obj, pd.DataFrame):
        return _fp_frame(obj)
    return ("py", repr(obj))


def describe_fp_diff(a, b):
    if a[0] != b[0] or len(a) != len(b):
        return "kind"
    if a[0] == "nd":
        names = ("kind", "dtype", "shape", "strides", "writeable", "c_contiguous", "f_contiguous", "bytes")
    elif a[0] == "series":
        names = ("kind", "dtype", "index", "bytes", "name", "index class", "index dtype")
    else:
        names = ("kind", "class", "shape", "columns class", "columns dtype", "columns", "index class", "index dtype", "index", "dtypes", "cell bytes")
    return ", ".join(n for n, x, y in zip(names, a, b) if x != y)


def _index(r):
    """the caller's frames carry their own row labels (not 0..n-1), so that an in-place re-labelling shows"""
    return pd.Index([10 + 3 * i for i in range(r)], dtype="int64")


class Held:
    """One container owned by the caller (and everything it was cut from)."""

    def __init__(self, layout, data, names, dtypes=None):
        data = np.asarray(data)
        if data.ndim != 2:
            raise HarnessError("HARNESS-CRASH: container data must be 2-D")
        self.layout = layout
        self.roots = []  # caller arrays the passed object is a window onto
        r, c = data.shape
        if layout == "nd1":
            if r != 1:
                raise HarnessError("HARNESS-CRASH: 1-D layouts hold exactly one row")
            self.obj = np.array(data[0], copy=True)
        elif layout == "series":
            if r != 1:
                raise HarnessError("HARNESS-CRASH: 1-D layouts hold exactly one row")
            self.obj = pd.Series(np.array(data[0], copy=True), index=list(names))
        elif layout in VEC_LAYOUTS:
            if c != 1 or r < 2:
                raise HarnessError("HARNESS-CRASH: vector layouts hold one column of at least two rows")
            col = np.array(data[:, 0], copy=True)
            if layout == "vec":
                self.obj = col
            elif layout == "vecslice":
                buf = np.full(r + 5, -55, dtype=data.dtype)
                buf[2 : 2 + r] = col
                self.roots = [buf]
                self.obj = buf[2 : 2 + r]
            elif layout == "vecview":
                buf = np.full(2 * r + 1, -55, dtype=data.dtype)
                buf[1::2] = col
                self.roots = [buf]
                self.obj = buf[1::2]
            elif layout == "ser":
                self.obj = pd.Series(col, index=_index(r), name=names[0])
            else:
                self.roots = [col]
                self.obj = pd.Series(col, index=_index(r), name=names[0], copy=False)
        elif layout == "c":
            self.obj = np.array(data, order="C", copy=True)
        elif layout == "f":
            self.obj = np.array(data, order="F", copy=True)
        elif layout == "view":
            wide = np.full((2 * r + 1, 2 * c + 1), -55, dtype=data.dtype)
            wide[1::2, 1::2] = data
            self.roots = [wide]
            self.obj = wide[1::2, 1::2]
        elif layout == "df":
            self.obj = pd.DataFrame(np.array(data, order="C", copy=True), columns=list(names), index=_index(r))
        elif layout == "dfmix":
            dts = dtypes or mixed_dtypes(data)
            if dts is None:
                raise HarnessError("HARNESS-CRASH: no mixed-dtype frame for %r" % (data.shape,))
            self.obj = pd.DataFrame({n: data[:, j].astype(dts[j]) for j, n in enumerate(names)}, index=_index(r))
            if len(set(str(t) for t in self.obj.dtypes)) < 2:
                raise HarnessError("HARNESS-CRASH: mixed-dtype frame has a single dtype")
        elif layout == "dfarr":
            arr = np.array(data, order="C", copy=True)
            self.roots = [arr]
            self.obj = pd.DataFrame(arr, columns=list(names), index=_index(r), copy=False)
        else:
            raise HarnessError("HARNESS-CRASH: unknown layout %r" % layout)

    @property
    def is_frame(self):
        return isinstance(self.obj, pd.DataFrame)

    def fingerprint(self):
        return (fingerprint(self.obj),) + tuple(_fp_array(r) for r in self.roots)

    def buffers(self):
        """ndarrays whose memory belongs to the caller."""
        out = list(self.roots)
        if isinstance(self.obj, np.ndarray):
            out.append(self.obj)
        elif isinstance(self.obj, pd.Series):
            out.append(self.obj.to_numpy())
        else:
            out.extend(self.obj.iloc[:, j].to_numpy() for j in range(self.obj.shape[1]))
        return out

    def live_probe(self):
        """For frames and Series: the array pandas hands out as ``.values`` if (and only if)
        it is a window onto the container's own memory."""
        if not isinstance(self.obj, (pd.DataFrame, pd.Series)):
            return None
        v = self.obj.values
        if any(np.shares_memory(v, b) for b in self.buffers()):
            return v
        return None

    def overwrite(self, salt):
        """The caller reuses its container: in-place overwrite with junk."""
        o = self.obj
        if isinstance(o, np.ndarray):
            o[...] = junk_for(o.shape, o.dtype, salt)
        elif self.layout == "serarr":
            a = self.roots[0]
            a[...] = junk_for(a.shape, a.dtype, salt)
        elif isinstance(o, pd.Series):
            o.iloc[:] = junk_for(o.shape, o.dtype, salt)
        elif self.layout == "dfarr":
            a = self.roots[0]
            a[...] = junk_for(a.shape, a.dtype, salt)
        elif self.layout == "df":
            o.iloc[:, :] = junk_for(o.shape, o.dtypes.iloc[0], salt)
        else:
            j2 = junk_for(o.shape, np.int64, salt)
            for j in range(o.shape[1]):
                o.iloc[:, j] = j2[:, j].astype(o.dtypes.iloc[j])

    def refill(self, data):
        """The caller recycles its container: the next batch / observation is written into it in place."""
        data = np.asarray(data)
        o = self.obj
        if isinstance(o, np.ndarray):
            o[...] = data if o.ndim == 2 else (data[0] if self.layout in ROW_LAYOUTS else data[:, 0])
        elif isinstance(o, pd.Series):
            vec = data[0] if self.layout in ROW_LAYOUTS else data[:, 0]
            if self.layout == "serarr":
                self.roots[0][...] = vec
            else:
                o.iloc[:] = vec.astype(o.dtype)
        elif self.layout == "dfarr":
            self.roots[0][...] = data
        elif self.layout == "df":
            o.iloc[:, :] = data.astype(o.dtypes.iloc[0])
        else:
            for j, dt in enumerate(o.dtypes.tolist()):
                o.iloc[:, j] = data[:, j].astype(dt)

    def __deepcopy__(self, memo):
        raise HarnessError("HARNESS-CRASH: caller containers must never be deep-copied (aliases would be cut)")


# =============================================================================
# public observables, generically
# =============================================================================
_CLS2DRIVER = {d.cls: d for d in DRIVERS.values()}
_SKIP = object()


def _conv(v, depth=0):
    if v is None or isinstance(v, (bool, int, str)):
        return v
    if isinstance(v, float):
        return v
    if isinstance(v, (np.bool_,)):
        return bool(v)
    if isinstance(v, np.integer):
        return int(v)
    if isinstance(v, np.floating):
        return float(v)
    if isinstance(v, np.ndarray):
        if v.dtype == object:
            return {"nd": str(v.dtype), "shape": list(v.shape), "v": [_conv(x, depth + 1) for x in v.ravel().tolist()]}
        return {"nd": v.dtype.str, "shape": list(v.shape), "v": jsonable(v.tolist())}
    if isinstance(v, pd.DataFrame):
        return {
            "df": [repr(c) for c in v.columns.tolist()],
            "dtypes": [str(t) for t in v.dtypes.tolist()],
            "v": [[_conv(x, depth + 1) for x in row] for row in v.to_numpy(dtype=object).tolist()],
        }
    if isinstance(v, pd.Series):
        return {"series": str(v.dtype), "v": [_conv(x, depth + 1) for x in v.tolist()]}
    if isinstance(v, pd.Index):
        return {"index": [repr(c) for c in v.tolist()]}
    if depth > 6:
        return _SKIP
    if isinstance(v, (list, tuple)):
        out = [_conv(x, depth + 1) for x in v]
        return _SKIP if any(x is _SKIP for x in out) else out
    if isinstance(v, dict):
        out = {}
        for k, x in v.items():
            cx = _conv(x, depth + 1)
            if cx is not _SKIP:
                out[repr(k)] = cx
        return out
    if hasattr(v, "drift_state") and hasattr(v, "update"):
        return public(v)
    return _SKIP  # estimators, functions, elections ...: not data


def _kdq_tree(det):
    if getattr(det, "_kdqtree", None) is None:
        return None
    try:
        df = det.to_plotly_dataframe()
    except Exception as e:
        try:
            df = det.to_plotly_dataframe(tree_id2=None)
        except Exception:
            return "unavailable:" + type(e).__name__
    cols = [c for c in ("name", "cell_count", "depth", "count_diff", "kss") if c in df.columns]
    return [[_conv(x) if not isinstance(x, str) else x for x in row] for row in df[cols].to_numpy(dtype=object).tolist()]


def public(det):
    """Everything a user can read off a detector without touching a private name."""
    o = {}
    for k, v in vars(det).items():
        if k.startswith("_"):
            continue
        cv = _conv(v, 1)
        if cv is not _SKIP:
            o[k] = cv
    o["drift_state"] = det.drift_state
    for a in ("total_samples", "samples_since_reset", "total_batches", "batches_since_reset", "total_updates", "updates_since_reset"):
        if hasattr(det, a):
            o[a] = _conv(getattr(det, a))
    if hasattr(det, "retraining_recs"):
        try:
            o["retraining_recs"] = _conv(det.retraining_recs)
        except Exception as e:
            o["retraining_recs"] = "raises " + type(e).__name__
    d = _CLS2DRIVER.get(type(det))
    if d is not None:
        try:
            o["~extra"] = jsonable(d.extra_obs(det))
        except Exception as e:
            o["~extra"] = "raises " + type(e).__name__
    if hasattr(det, "to_plotly_dataframe"):
        o["~tree"] = _kdq_tree(det)
    return o


def _dumps(o):
    return json.dumps(jsonable(o), sort_keys=True)


def diff_keys(a, b):
    ks = sorted(set(a) | set(b))
    return [k for k in ks if _dumps(a.get(k, "<absent>")) != _dumps(b.get(k, "<absent>"))]


def alias_paths(det, buffers, limit=6):
    """diagnostic only: attributes of ``det`` whose memory overlaps a caller buffer."""
    found, seen = [], set()

    def hit(arr):
        return any(arr.size and b.size and np.shares_memory(arr, b) for b in buffers)

    def walk(o, path, depth):
        if id(o) in seen or depth > limit or len(found) > 8:
            return
        seen.add(id(o))
        if isinstance(o, np.ndarray):
            if o.dtype != object and hit(o):
                found.append(path)
        elif isinstance(o, pd.DataFrame):
            for j in range(o.shape[1]):
                if hit(o.iloc[:, j].to_numpy()):
                    found.append(path + "<frame>")
                    break
        elif isinstance(o, pd.Series):
            if hit(o.to_numpy()):
                found.append(path + "<series>")
        elif isinstance(o, (list, tuple)):
            for i, x in enumerate(o):
                walk(x, "%s[%d]" % (path, i), depth + 1)
        elif isinstance(o, dict):
            for k, x in o.items():
                walk(x, "%s[%r]" % (path, k), depth + 1)
        elif hasattr(o, "__dict__") and not isinstance(o, type) and not callable(o):
            for k, x in vars(o).items():
                walk(x, "%s.%s" % (path, k), depth + 1)

    try:
        walk(det, type(det).__name__, 0)
    except Exception:
        pass
    return found


# =============================================================================
# detector families: how an event becomes a call with caller-owned containers
# =============================================================================
class Fam:
    """plan(ev, p, ref) -> (method, kind, [(argname, 2-D data, column names, dtypes|None)], extra kwargs)
    kind in {"reference", "test", "observation"}"""

    layouts = LAYOUTS
    is_batch = False

    def __init__(self, name, driver=None):
        self.name = name  # system / label / counter name
        self.sig_name = driver or name  # the detector class, for violation signatures
        self.d = DRIVERS.get(driver or name)

    def configs(self, tier):
        return self.d.configs(tier)

    def new(self, p):
        return self.d.cls(**self.d.ctor(p))

    def alphabet(self, p, ref):
        return list(self.d.alphabet(p))


class ErrFam(Fam):
    layouts = ("c", "f", "view", "df", "dfarr")  # one label = one column: no mixed-dtype frame

    def plan(self, ev, p, ref):
        if self.name == "LinearFourRates":
            yt, yp = divmod(ev, 2)
        else:
            yt, yp = 1, (0 if ev else 1)
        return (
            "update",
            "observation",
            [("y_true", np.array([[yt]], dtype=np.int64), ["y"], None), ("y_pred", np.array([[yp]], dtype=np.int64), ["yhat"], None)],
            {},
        )


class UniFam(Fam):
    layouts = ("c", "f", "view", "df", "dfarr") + ROW_LAYOUTS

    def plan(self, ev, p, ref):
        return "update", "observation", [("X", np.array([[float(ev)]]), ["x"], None)], {}


class PCAFam(Fam):
    layouts = LAYOUTS + ROW_LAYOUTS

    def plan(self, ev, p, ref):
        return "update", "observation", [("X", np.array([PCA_POINTS[ev]], dtype=float), ["a", "b"], None)], {}


class BatchFam(Fam):
    is_batch = True

    def __init__(self, name, driver=None, menu=None, layouts=None):
        super().__init__(name, driver)
        self.menu = self.d.menu if menu is None else menu
        w = self.menu[0].shape[1]
        self.names = ["a", "b", "c"][:w]
        if w == 1:
            self.layouts = ("c", "f", "view", "df", "dfarr")
        if layouts is not None:
            self.layouts = tuple(layouts)

    def alphabet(self, p, ref):
        return list(self.d.alphabet(p)) + [["ref", 1], ["ref", 3]]

    def plan(self, ev, p, ref):
        if isinstance(ev, (list, tuple)):
            return "set_reference", "reference", [("X", self.menu[ev[1]], self.names, None)], {}
        kind = "test"
        if self.sig_name == "KdqTreeBatch" and getattr(ref, "_kdqtree", True) is None:
            kind = "reference"  # documented: the first batch given to update is the reference
        return "update", kind, [("X", self.menu[ev], self.names, None)], {}


MD3_REF2 = MD3_REF.assign(x0=MD3_REF["x0"] + 0.5)


class MD3Fam(Fam):
    layouts = ("df", "dfmix", "dfarr")
    COLS = ["x0", "x1", "y"]

    def new(self, p):
        clf = ThresholdClassifier(margin=0.3)
        clf.fit(MD3_REF[["x0", "x1"]], MD3_REF["y"])
        return MD3(clf=clf, margin_calculation_function=md3_margin, **self.d.ctor(p))

    def alphabet(self, p, ref):
        if ref.waiting_for_oracle:
            return ["l_ok", "l_bad"]
        return ["u_in", "u_out", "ref2"]

    def plan(self, ev, p, ref):
        f64, f32, i64 = np.dtype("float64"), np.dtype("float32"), np.dtype("int64")
        if ev in ("ref", "ref2"):
            src = MD3_REF if ev == "ref" else MD3_REF2
            return "set_reference", "reference", [("X", src[self.COLS].to_numpy(dtype=float), self.COLS, [f64, f32, i64])], {"target_name": "y"}
        thr = float(ref.classifier.thr_)
        if ev == "u_in":
            return "update", "observation", [("X", np.array([[thr + 0.125, 0.0]]), self.COLS[:2], [f64, i64])], {}
        if ev == "u_out":
            return "update", "observation", [("X", np.array([[thr + 5.0, 0.0]]), self.COLS[:2], [f64, i64])], {}
        n = 0 if ref.oracle_data is None else len(ref.oracle_data)
        x0 = thr + (1.0 if n % 2 == 0 else -1.0)
        truth = 1 if x0 > thr else 0
        y = truth if ev == "l_ok" else 1 - truth
        return "give_oracle_label", "observation", [("labeled_sample", np.array([[x0, 1.0, float(y)]]), self.COLS, [f64, f32, i64])], {}


def _first_column(X):
    """what a user writes as a column selector: a *slice* (a view for ndarrays)."""
    if isinstance(X, pd.DataFrame):
        return X[[X.columns[0]]]
    return X[:, 0:1]


class StreamEnsFam(Fam):
    layouts = ("c", "f", "view", "df", "dfarr")

    def configs(self, tier):
        return [{"election": "min1"}, {"election": "majority"}]

    def new(self, p):
        members = {
            "cusum": DRIVERS["CUSUM"].cls(**DRIVERS["CUSUM"].ctor(DRIVERS["CUSUM"].configs("quick")[2])),
            "ph": DRIVERS["PageHinkley"].cls(**DRIVERS["PageHinkley"].ctor(DRIVERS["PageHinkley"].configs("quick")[1])),
            "adwin": DRIVERS["ADWIN"].cls(**DRIVERS["ADWIN"].ctor(DRIVERS["ADWIN"].configs("quick")[0])),
        }
        el = MinimumApprovalElection(approvals_needed=1) if p["election"] == "min1" else SimpleMajorityElection()
        return StreamingEnsemble(members, el)

    def alphabet(self, p, ref):
        return [-2, 0, 1, 4]

    def plan(self, ev, p, ref):
        return "update", "observation", [("X", np.array([[float(ev)]]), ["x"], None)], {"y_true": None, "y_pred": None}


class BatchEnsFam(Fam):
    is_batch = True
    menu = BATCH_2D
    names = ["a", "b"]

    def configs(self, tier):
        return [{"election": "min1", "selector": False}, {"election": "majority", "selector": True}]

    def new(self, p):
        members = {
            "nndvi": DRIVERS["NNDVI"].cls(**DRIVERS["NNDVI"].ctor(DRIVERS["NNDVI"].configs("quick")[0])),
            "kdq": DRIVERS["KdqTreeBatch"].cls(**DRIVERS["KdqTreeBatch"].ctor(DRIVERS["KdqTreeBatch"].configs("quick")[0])),
            "hdddm": DRIVERS["HDDDM"].cls(**DRIVERS["HDDDM"].ctor(DRIVERS["HDDDM"].configs("quick")[0])),
        }
        el = MinimumApprovalElection(approvals_needed=1) if p["election"] == "min1" else SimpleMajorityElection()
        sel = {"hdddm": _first_column} if p["selector"] else {}
        return BatchEnsemble(members, el, sel)

    def alphabet(self, p, ref):
        return [0, 1, 2, 3, ["ref", 1]]

    def plan(self, ev, p, ref):
        if isinstance(ev, (list, tuple)):
            return "set_reference", "reference", [("X", self.menu[ev[1]], self.names, None)], {}
        return "update", "test", [("X", self.menu[ev], self.names, None)], {}


FAMILIES = {}
for _n in ("DDM", "EDDM", "STEPD", "ADWINAccuracy", "LinearFourRates"):
    FAMILIES[_n] = ErrFam(_n)
for _n in ("ADWIN", "CUSUM", "PageHinkley", "KdqTreeStreaming"):
    FAMILIES[_n] = UniFam(_n)
FAMILIES["PCACD"] = PCAFam("PCACD")
for _n in ("HDDDM", "CDBD", "KdqTreeBatch", "NNDVI"):
    FAMILIES[_n] = BatchFam(_n)
# every batch detector fed UNIVARIATE batches as vectors (1-D ndarray, 1-D slices / strided views of a longer
# caller buffer, Series): the documented "row vector is coerced into a column vector" path of BatchDetector._validate_X
VEC_FAMILY = {}
for _n in ("NNDVI", "HDDDM", "CDBD", "KdqTreeBatch"):
    VEC_FAMILY[_n] = _n + "~vec"
    FAMILIES[_n + "~vec"] = BatchFam(_n + "~vec", driver=_n, menu=BATCH_1D, layouts=VEC_LAYOUTS)
FAMILIES["MD3"] = MD3Fam("MD3")
FAMILIES["StreamingEnsemble"] = StreamEnsFam("StreamingEnsemble")
FAMILIES["BatchEnsemble"] = BatchEnsFam("BatchEnsemble")


# =============================================================================
# the node state: two live detectors + every container the caller still owns
# =============================================================================
class Live:
    def __init__(self, fam, cfg):
        self.fam = fam
        self.cfg = cfg
        self.seed = None
        self.events = []
        self.calls = []  # (method, kind, argument specs, extra kwargs) per position, for re-execution
        self.held = []  # the caller keeps (and may reuse) everything it ever passed
        self.overwritten = []  # positions whose containers were overwritten
        self.adopted_ow = False  # a drifted batch was adopted and then overwritten
        self.buffers = {}  # ow == "reuse": the containers the caller recycles
        rng.seed_step(0, fam.name, cfg["id"], "init")
        self.det = fam.new(cfg["params"])
        rng.seed_step(0, fam.name, cfg["id"], "init")
        self.twin = fam.new(cfg["params"])

    def __deepcopy__(self, memo):
        # D and the caller's containers are re-executed call by call — the only
        # copy that neither cuts nor invents aliases; T only ever saw private
        # data nobody touches, so an ordinary deep copy is faithful for it.
        new = Live.__new__(Live)
        new.fam, new.cfg, new.seed = self.fam, self.cfg, self.seed
        new.events, new.calls, new.held, new.overwritten = [], [], [], []
        new.buffers = {}
        new.adopted_ow = self.adopted_ow
        rng.seed_step(0, self.fam.name, self.cfg["id"], "init")
        new.det = self.fam.new(self.cfg["params"])
        new.twin = copy.deepcopy(self.twin, memo)
        for pos, (ev, call) in enumerate(zip(self.events, self.calls)):
            new.apply(ev, pos, None, call)
        return new

    # ------------------------------------------------------------------
    def apply(self, ev, pos, ctx, recorded=None):
        fam, cfg = self.fam, self.cfg
        p = cfg["params"]
        layout = cfg["layout"]
        quiet = ctx is None
        if not quiet:
            if self.seed is None:
                self.seed = ctx.seed
            elif self.seed != ctx.seed:
                raise HarnessError("HARNESS-CRASH: seed changed inside a history")
        call = recorded if quiet else fam.plan(ev, p, self.twin)
        method, kind, specs, extra = call
        if cfg["ow"] == "reuse":
            # the caller owns ONE container per (argument, shape, dtypes): it writes the next batch / observation into
            # it in place and hands over the very same object again
            held = {}
            for a, data, names, dts in specs:
                data = np.asarray(data)
                bkey = (a, tuple(data.shape), str(data.dtype), tuple(names), None if dts is None else tuple(str(t) for t in dts))
                h = self.buffers.get(bkey)
                if h is None:
                    h = self.buffers[bkey] = Held(layout, data, names, dts)
                else:
                    h.refill(data)
                    if not quiet:
                        ctx.mark("same_container_object_refilled_and_passed_again")
                        ctx.count("refilled_layout:%s" % layout)
                held[a] = h
        else:
            held = {a: Held(layout, data, names, dts) for a, data, names, dts in specs}
        where = "%s.%s(%s) at position %d [%s]" % (fam.sig_name, method, ", ".join(held), pos, LAYOUT_TEXT[layout])

        # ---- D: caller-owned containers ---------------------------------------
        before = None if quiet else {a: h.fingerprint() for a, h in held.items()}
        rng.seed_step(self.seed, fam.name, cfg["id"], pos)
        d_exc = None
        try:
            getattr(self.det, method)(**{a: h.obj for a, h in held.items()}, **extra)
        except Exception as e:  # noqa: BLE001 - compared with the twin below
            d_exc = e
        self.held.append(held)
        self.events.append(ev)
        self.calls.append(call)
        if quiet:
            if d_exc is not None:
                raise HarnessError("HARNESS-NONDET: re-execution of %s raised %r" % (where, d_exc))
            self._overwrite(held, pos, kind, None)
            return None
        if not quiet:
            for a, h in held.items():
                after = h.fingerprint()
                if after != before[a]:
                    raise Violation(
                        "argument-modified",
                        "%s modified its argument %r (%s changed) during the call" % (where, a, describe_fp_diff(before[a][0], after[0]) or "the array the view was cut from"),
                        expected="argument bit-for-bit as passed",
                        observed=jsonable(_conv(h.obj)),
                        sig="argument-modified:%s:%s:%s" % (fam.sig_name, method, type(h.obj).__name__),
                    )
            ctx.count("arguments_compared_before_after", len(held))

        # ---- T: private containers, same seed ------------------------------------
        priv = {a: Held(layout, data, names, dts) for a, data, names, dts in specs}
        rng.seed_step(self.seed, fam.name, cfg["id"], pos)
        t_exc = None
        try:
            getattr(self.twin, method)(**{a: h.obj for a, h in priv.items()}, **extra)
        except Exception as e:  # noqa: BLE001
            t_exc = e

        ow_txt = (
            "the caller recycles one container per argument: it writes the next data into it in place and passes the same object again"
            if cfg["ow"] == "reuse"
            else "the caller had overwritten what it passed at position(s) %s" % self.overwritten
        )
        if (d_exc is None) != (t_exc is None) or (d_exc is not None and type(d_exc) is not type(t_exc)):
            raise Violation(
                "exception-differs-from-private-copy-run",
                "%s %s, whereas the same history on private copies %s; %s%s"
                % (where, "raised %r" % d_exc if d_exc is not None else "was accepted", "raised %r" % t_exc if t_exc is not None else "was accepted", ow_txt, self._alias_note()),
                expected=repr(t_exc),
                observed=repr(d_exc),
                sig="live-reference:%s" % fam.sig_name,
            )
        if d_exc is not None:
            ctx.terminal = True
            ctx.count("agreed_exception:%s" % type(d_exc).__name__)
            return {"exception": type(d_exc).__name__}

        ot = public(self.twin)
        od = public(self.det)
        bad = diff_keys(ot, od)
        if bad:
            raise Violation(
                "trace-differs-from-private-copy-run",
                "%s: public observables %s differ from the run on private copies; %s%s" % (where, bad, ow_txt, self._alias_note()),
                expected={k: ot.get(k) for k in bad},
                observed={k: od.get(k) for k in bad},
                sig="live-reference:%s" % fam.sig_name,
            )
        ctx.count("twin_compared_steps")
        ctx.count("layout:%s" % layout)
        ctx.count("call:%s.%s" % (fam.name, method))
        state = ot["drift_state"]
        if state == "drift":
            ctx.mark("drift_transitions")
            ctx.count("drift:%s" % fam.name)
        elif state == "warning":
            ctx.mark("warning_transitions")
        if self.overwritten:
            ctx.count("calls_after_an_overwrite")
        if self.adopted_ow and method == "update":
            ctx.count("update_after_adopted_batch_was_overwritten")
            ctx.count("update_after_adopted_batch_was_overwritten:%s" % fam.name)

        # ---- the caller reuses its containers --------------------------------------
        did = self._overwrite(held, pos, kind, ctx)
        if did:
            if fam.is_batch and method == "update" and state == "drift":
                self.adopted_ow = True
                ctx.mark("drifted_batch_adopted_then_overwritten")
            od2 = public(self.det)
            bad = diff_keys(ot, od2)
            if bad:
                raise Violation(
                    "observables-follow-caller-overwrite",
                    "%s: after the caller overwrote its %s in place, public observables %s of the detector changed%s"
                    % (where, "/".join(held), bad, self._alias_note()),
                    expected={k: ot.get(k) for k in bad},
                    observed={k: od2.get(k) for k in bad},
                    sig="live-reference:%s" % fam.sig_name,
                )
            if alias_paths(self.det, [b for h in held.values() for b in h.buffers()]):
                ctx.count("diagnostic_private_alias_of_overwritten_container")
        o = {"state": state, "overwritten": bool(did)}
        for k in ("total_samples", "total_batches", "total_updates", "retraining_recs"):
            if k in ot:
                o[k] = ot[k]
        return o

    def _overwrite(self, held, pos, kind, ctx):
        ow = self.cfg["ow"]
        if not (ow == "all" or ow == pos):
            return False
        for a, h in held.items():
            probe = h.live_probe() if ctx is not None else None
            h.overwrite(pos)
            if ctx is not None and h.is_frame:
                ctx.count("dataframe_overwrites")
                if probe is not None and np.array_equal(probe, junk_for(probe.shape, probe.dtype, pos)):
                    # what .values handed out before the overwrite now shows the junk: a view case
                    ctx.count("dataframe_values_is_live_view_cases")
            elif ctx is not None and isinstance(h.obj, pd.Series):
                ctx.count("series_overwrites")
                if probe is not None and np.array_equal(probe, junk_for(probe.shape, probe.dtype, pos)):
                    ctx.count("series_values_is_live_view_cases")
        self.overwritten.append(pos)
        if ctx is not None:
            ctx.mark("overwrite_after_%s" % {"reference": "reference_batch", "test": "test_batch", "observation": "single_observation"}[kind])
            ctx.count("overwrite_layout:%s" % self.cfg["layout"])
        return True

    def _alias_note(self):
        bufs = [b for pos in self.overwritten for h in self.held[pos].values() for b in h.buffers()] if self.overwritten else []
        if not bufs:
            bufs = [b for hd in self.held for h in hd.values() for b in h.buffers()]
        paths = alias_paths(self.det, bufs)
        return " (detector state overlapping caller memory: %s)" % ", ".join(paths) if paths else ""


class DetSystem(System):
    def __init__(self, fam):
        self.fam = fam
        self.name = fam.name

    def init(self, cfg):
        return {"live": Live(self.fam, cfg)}

    def alphabet(self, cfg, state, pos):
        if cfg.get("alphabet") is not None:
            return list(cfg["alphabet"])
        return self.fam.alphabet(cfg["params"], state["live"].twin)

    def step(self, cfg, state, ev, pos, ctx):
        return state["live"].apply(ev, pos, ctx)


# =============================================================================
# injectors
# =============================================================================
INJECTORS = {
    "FeatureShiftInjector": FeatureShiftInjector,
    "FeatureSwapInjector": FeatureSwapInjector,
    "FeatureCoverInjector": FeatureCoverInjector,
    "LabelSwapInjector": LabelSwapInjector,
    "LabelJoinInjector": LabelJoinInjector,
    "LabelProbabilityInjector": LabelProbabilityInjector,
    "LabelDirichletInjector": LabelDirichletInjector,
    "BrownianNoiseInjector": BrownianNoiseInjector,
}
INJ_COLS = ["f0", "f1", "y"]
INJ_DATA = {
    # 4 / 5 rows, two feature columns (dyadic), one label column
    "A": [[0.5, 4.0, 0.0], [1.5, 3.0, 1.0], [2.5, 2.0, 0.0], [3.5, 1.0, 2.0]],
    "B": [[1.0, -2.0, 0.0], [0.25, 8.0, 0.0], [3.0, 0.0, 1.0], [-1.0, 6.0, 1.0], [2.0, 2.0, 1.0]],
}
INJ_MIX = [np.dtype("float64"), np.dtype("float32"), np.dtype("int64")]


def _windows(n):
    return [(f, t) for f in range(n + 1) for t in range(f, n + 1)]


def injector_cases(name, tier):
    """JSON-able argument menus; column positions are turned into labels for frames."""
    out = []
    for dk, rows in INJ_DATA.items():
        n = len(rows)
        if name == "FeatureCoverInjector":
            for ss in (2, 3, 4, 6):
                out.append({"data": dk, "args": {"col": 2, "sample_size": ss, "random_state": 0}})
            continue
        for f, t in _windows(n):
            w = {"data": dk, "from": f, "to": t}
            if name == "FeatureShiftInjector":
                menu = [{"col": c, "shift_factor": sf} for c in (0, 1) for sf in (0.5,)]
            elif name == "FeatureSwapInjector":
                menu = [{"col_1": 0, "col_2": 1}, {"col_1": 1, "col_2": 0}, {"col_1": 0, "col_2": 0}]
            elif name == "LabelSwapInjector":
                menu = [{"target_col": 2, "class_1": 0, "class_2": 1}, {"target_col": 2, "class_1": 1, "class_2": 2}]
            elif name == "LabelJoinInjector":
                menu = [{"target_col": 2, "class_1": 0, "class_2": 1, "new_class": 5}]
            elif name == "LabelProbabilityInjector":
                probs = [[[0, 0.5]], [[1, 1.0]], [], [[0, 0.25], [1, 0.25], [2, 0.5]], [[0, 0.5], [1, 0.5]], [[7, 0.5]], [[0, 0.75], [1, 0.75]]]
                menu = [{"target_col": 2, "class_probabilities": pr} for pr in probs]
            elif name == "LabelDirichletInjector":
                menu = [{"target_col": 2, "alpha": al} for al in ([[0, 1], [1, 1], [2, 2]], [[0, 4], [1, 1]])]
            elif name == "BrownianNoiseInjector":
                menu = [{"col": c, "x0": 0.5, "random_state": 3} for c in (0, 1)]
            for m in menu:
                out.append(dict(w, args=m))
    return out


class InjectorSystem(System):
    """One call = one execution; the event is the complete call description."""

    def __init__(self, name):
        self.name = name
        self.cls = INJECTORS[name]

    def init(self, cfg):
        return {}

    def alphabet(self, cfg, state, pos):
        return injector_cases(self.name, cfg.get("tier", "quick")) if pos == 0 else []

    def step(self, cfg, state, ev, pos, ctx):
        layout = cfg["layout"]
        data = np.array(INJ_DATA[ev["data"]], dtype=float)
        held = Held(layout, data, INJ_COLS, INJ_MIX)
        frame = held.is_frame
        args = {}
        dict_args = {}
        for k, v in ev["args"].items():
            if k in ("col", "col_1", "col_2", "target_col") and frame:
                v = INJ_COLS[v]
            if k in ("class_probabilities", "alpha"):
                v = {a: b for a, b in v}
                dict_args[k] = v
            args[k] = v
        if "from" in ev:
            args["from_index"], args["to_index"] = ev["from"], ev["to"]
        dict_before = {k: (copy.deepcopy(v), list(v.items())) for k, v in dict_args.items()}
        desc = "%s(%s, %s)" % (self.name, LAYOUT_TEXT[layout] + " %dx%d" % data.shape, ", ".join("%s=%r" % kv for kv in args.items()))
        before = held.fingerprint()
        inj = self.cls()
        rng.seed_step(ctx.seed, self.name, cfg["id"], json.dumps(ev, sort_keys=True))
        exc = out = None
        try:
            out = inj(held.obj, **args)
        except Exception as e:  # noqa: BLE001 - whether a call may be refused is C20's business
            exc = e
        ctx.count("layout:%s" % layout)
        ctx.count("injector:%s" % self.name)
        tag = " (the call raised %s)" % type(exc).__name__ if exc is not None else ""
        after = held.fingerprint()
        if after != before:
            raise Violation(
                "input-modified",
                "%s modified its input (%s changed)%s" % (desc, describe_fp_diff(before[0], after[0]) or "the array the view was cut from", tag),
                expected=data.tolist(),
                observed=jsonable(_conv(held.obj)),
                sig="input-modified:%s" % self.name,
            )
        for k, v in dict_args.items():
            was, items = dict_before[k]
            if v != was or list(v.items()) != items:
                raise Violation(
                    "dict-argument-modified",
                    "%s modified the caller's %s dict%s" % (desc, k, tag),
                    expected=jsonable(items),
                    observed=jsonable(list(v.items())),
                    sig="dict-argument-modified:%s:%s" % (self.name, k),
                )
            ctx.mark("dict_arguments_compared")
        if exc is not None:
            ctx.count("injector_call_raised:%s" % type(exc).__name__)
            return {"outcome": "raised " + type(exc).__name__}
        if (frame and not isinstance(out, pd.DataFrame)) or (not frame and type(out) is not np.ndarray):
            raise Violation(
                "container-type",
                "%s returned a %s" % (desc, type(out).__name__),
                expected=type(held.obj).__name__,
                observed=type(out).__name__,
                sig="container-type:%s" % self.name,
            )
        if out is held.obj:
            raise Violation("result-is-input", "%s returned the input object itself" % desc, sig="shares-memory:%s" % self.name)
        obufs = [out] if not frame else [out.iloc[:, j].to_numpy() for j in range(out.shape[1])]
        for ob in obufs:
            if ob.dtype == object or not ob.size:
                continue
            for ib in held.buffers():
                if ib.size and np.shares_memory(ob, ib):
                    raise Violation(
                        "result-shares-memory-with-input",
                        "%s: the result shares memory with the input" % desc,
                        expected="np.shares_memory == False",
                        observed="np.shares_memory == True",
                        sig="shares-memory:%s" % self.name,
                    )
        ctx.count("shares_memory_checked")
        res_before = fingerprint(out)
        held.overwrite(1)
        if held.fingerprint() == before:
            raise HarnessError("HARNESS-VACUOUS: overwrite did not change the caller's container")
        if fingerprint(out) != res_before:
            raise Violation(
                "result-follows-input",
                "%s: the result changed when the caller overwrote the input afterwards" % desc,
                sig="shares-memory:%s" % self.name,
            )
        ctx.mark("overwrite_after_injector_call")
        ctx.count("container:%s" % ("DataFrame" if frame else "ndarray"))
        # the same injector object used on the OTHER container type first: the container type of the
        # result must follow the input of the current call, not state kept from an earlier call
        args_other = {}
        for k, v in ev["args"].items():
            if k in ("col", "col_1", "col_2", "target_col") and not frame:
                v = INJ_COLS[v]
            if k in ("class_probabilities", "alpha"):
                v = {a: b for a, b in v}
            args_other[k] = v
        if "from" in ev:
            args_other["from_index"], args_other["to_index"] = ev["from"], ev["to"]
        other = data.copy() if frame else pd.DataFrame(data.copy(), columns=INJ_COLS)
        held2 = Held(layout, data, INJ_COLS, INJ_MIX)
        inj2 = self.cls()
        rng.seed_step(ctx.seed, self.name, cfg["id"], "reuse")
        try:
            inj2(other, **args_other)
            primed = True
        except Exception:  # noqa: BLE001
            primed = False
        if primed:
            args2 = {k: (dict(v) if isinstance(v, dict) else v) for k, v in args.items()}
            try:
                out2 = inj2(held2.obj, **args2)
            except Exception as e:  # noqa: BLE001
                raise Violation(
                    "container-type",
                    "%s raised %s: %s when the same injector object had been used on a %s before"
                    % (desc, type(e).__name__, str(e)[:120], "ndarray" if frame else "DataFrame"),
                    sig="container-type-after-reuse:%s" % self.name,
                )
            if (frame and not isinstance(out2, pd.DataFrame)) or (not frame and type(out2) is not np.ndarray):
                raise Violation(
                    "container-type",
                    "%s returned a %s when the same injector object had been used on a %s before"
                    % (desc, type(out2).__name__, "ndarray" if frame else "DataFrame"),
                    expected=type(held2.obj).__name__,
                    observed=type(out2).__name__,
                    sig="container-type-after-reuse:%s" % self.name,
                )
            ctx.count("injector_reused_across_container_types")
        return {"outcome": "ok", "type": type(out).__name__, "shape": list(out.shape)}


# =============================================================================
# injector objects used several times: chains of calls on data the caller already holds
# =============================================================================
CHAIN = "~chain"
_CHAIN_ARGS = {
    "FeatureShiftInjector": [{"col": 0, "shift_factor": 0.5}, {"col": 1, "shift_factor": -0.25}],
    "FeatureSwapInjector": [{"col_1": 0, "col_2": 1}, {"col_1": 1, "col_2": 2}],
    "LabelSwapInjector": [{"target_col": 2, "class_1": 0, "class_2": 1}, {"target_col": 2, "class_1": 1, "class_2": 2}],
    "LabelJoinInjector": [{"target_col": 2, "class_1": 0, "class_2": 1, "new_class": 5}, {"target_col": 2, "class_1": 1, "class_2": 2, "new_class": 0}],
    "LabelProbabilityInjector": [{"target_col": 2, "class_probabilities": [[0, 0.5]]}, {"target_col": 2, "class_probabilities": [[1, 1.0]]}],
    "LabelDirichletInjector": [{"target_col": 2, "alpha": [[0, 4], [1, 1]]}, {"target_col": 2, "alpha": [[0, 1], [1, 2]]}],
    "BrownianNoiseInjector": [{"col": 0, "x0": 0.5, "random_state": 3}, {"col": 1, "x0": 1.0, "random_state": 4}],
}


def chain_moves(name, n):
    """what one call of a chain may be (window x argument menu); moves[0] is the chain's opening call"""
    if name == "FeatureCoverInjector":  # no window; the result has one column less, so later calls name another column
        return [{"args": {"col": 2, "sample_size": 4, "random_state": 0}}, {"args": {"col": 1, "sample_size": 3, "random_state": 1}}]
    return [{"from": f, "to": t, "args": a} for f, t in ((0, n), (1, 3), (0, 2)) for a in _CHAIN_ARGS[name]]


CHAIN3_LAYOUTS = ("c", "df")  # quick tier: chains of three calls on these layouts only (pandas makes them slow)


def injector_chains(name, dk, tier, layout):
    """Every chain of the stated shape.  A call = (where its input comes from, which of two injector objects of the
    class runs it, move).  Sources: "new" = a fresh caller container of the layout, "out<j>" = the object call j
    returned, "in<j>" = the very object call j was given (it must still be what it was)."""
    n = len(INJ_DATA[dk])
    mv = chain_moves(name, n)
    quick = tier == "quick"
    first = [mv[0]] if len(mv) == 2 or (quick and dk != "A") else [mv[0], mv[4]]
    second = mv[:4] if quick else mv
    out = []
    for m1 in first:
        for src in ("new", "out1", "in1"):
            for ob in (0, 1):
                for m2 in second:
                    out.append({"data": dk, "calls": [dict(m1, src="new", obj=0), dict(m2, src=src, obj=ob)]})
    if (dk == "A" and layout in CHAIN3_LAYOUTS) or not quick:
        m2s = [mv[min(3, len(mv) - 1)]] if quick else mv[2:4] or mv
        m3s = mv[:2]
        src3 = ("out1", "out2", "in1") if quick else ("new", "out1", "out2", "in1", "in2")
        for s2 in ("new", "out1", "in1"):
            for o2 in (0, 1):
                for m2 in m2s:
                    for s3 in src3:
                        for o3 in (0, 1):
                            for m3 in m3s:
                                out.append({"data": dk, "calls": [dict(mv[0], src="new", obj=0), dict(m2, src=s2, obj=o2), dict(m3, src=s3, obj=o3)]})
    return out


def _private_copy(obj):
    if isinstance(obj, pd.DataFrame):
        return obj.copy(deep=True)
    return np.array(obj, order="K", copy=True)


def _buffers_of(obj):
    if isinstance(obj, pd.DataFrame):
        return [obj.iloc[:, j].to_numpy() for j in range(obj.shape[1])]
    return [obj]


def _overwrite_result(obj, salt):
    """the caller reuses an object an injector returned; False if it cannot be written in place"""
    if isinstance(obj, np.ndarray):
        if not obj.flags.writeable or not obj.size:
            return False
        obj[...] = junk_for(obj.shape, np.int64, salt).astype(obj.dtype)
        return True
    if not obj.size:
        return False
    j2 = junk_for(obj.shape, np.int64, salt)
    for j, dt in enumerate(obj.dtypes.tolist()):
        obj.iloc[:, j] = j2[:, j] if dt == object else j2[:, j].astype(dt)
    return True


class InjectorChainSystem(System):
    """One chain of calls = one execution (the event is the complete chain description).

    The caller keeps every object it passed and every object it got back.  After each call: every object the caller
    holds is bit-for-bit what it was (the call's own input included); the result is an object the caller did not hold
    before, of the input's container type, sharing memory with nothing the caller holds; the result equals, bit for
    bit, what a brand-new injector object returns for a private copy of the input under the same seed (and both raise
    or neither).  At the end the caller overwrites each object in turn: no other object may follow."""

    def __init__(self, name):
        self.base = name
        self.name = name + CHAIN
        self.cls = INJECTORS[name]

    def init(self, cfg):
        return {}

    def alphabet(self, cfg, state, pos):
        return injector_chains(self.base, cfg["data"], cfg.get("tier", "quick"), cfg["layout"]) if pos == 0 else []

    def _args(self, call, frame):
        args = {}
        for k, v in call["args"].items():
            if k in ("col", "col_1", "col_2", "target_col") and frame:
                v = INJ_COLS[v]
            if k in ("class_probabilities", "alpha"):
                v = {a: b for a, b in v}
            args[k] = v
        if "from" in call:
            args["from_index"], args["to_index"] = call["from"], call["to"]
        return args

    def step(self, cfg, state, ev, pos, ctx):
        layout = cfg["layout"]
        base = self.base
        data = np.array(INJ_DATA[ev["data"]], dtype=float)
        calls = ev["calls"]
        # where the object given to call k was born: ("new", k) or ("out", j)
        origin = {}
        for k, call in enumerate(calls, 1):
            src = call["src"]
            origin[k] = ("new", k) if src == "new" else ("out", int(src[3:])) if src.startswith("out") else origin[int(src[2:])]
        # reference run, executed completely BEFORE the caller's chain (so that state an implementation might keep on
        # the class cannot be disturbed by it): every call on a brand-new injector object and on a private object of
        # the same layout and content, same seeds
        touts, texcs = {}, {}
        for k, call in enumerate(calls, 1):
            kind, j = origin[k]
            if kind == "out" and j not in touts:
                break
            tin = Held(layout, data, INJ_COLS, INJ_MIX).obj if kind == "new" else _private_copy(touts[j])
            rng.seed_step(ctx.seed, base, cfg["id"], "chain", k)
            try:
                touts[k] = self.cls()(tin, **self._args(call, isinstance(tin, pd.DataFrame)))
            except Exception as e:  # noqa: BLE001
                texcs[k] = e
                break
        tfps = {k: fingerprint(v) for k, v in touts.items()}
        del tin

        injs = [self.cls(), self.cls()]
        held = []  # [label, object, fingerprint function, fingerprint, overwrite function, the object's buffers]
        ins, outs = {}, {}
        done = 0
        for k, call in enumerate(calls, 1):
            src = call["src"]
            if src == "new":
                h = Held(layout, data, INJ_COLS, INJ_MIX)
                obj = h.obj
                held.append(["the input of call %d" % k, obj, h.fingerprint, h.fingerprint(), h.overwrite, h.buffers()])
                ctx.count("chain_src:new")
            elif src.startswith("out"):
                j = int(src[3:])
                if j not in outs:
                    break  # the earlier call did not complete: nothing to pass on
                obj = outs[j]
                ctx.mark("chain_src:own_earlier_result")
            else:
                obj = ins[int(src[2:])]
                ctx.mark("chain_src:same_input_again")
            ins[k] = obj
            frame = isinstance(obj, pd.DataFrame)
            args = self._args(call, frame)
            desc = "%s call %d of the chain %s [%s, data %s]: %s(%s, %s) on injector object #%d" % (
                base, k, json.dumps([c["src"] + "@%d" % c["obj"] for c in ev["calls"]]), LAYOUT_TEXT[layout], ev["data"], base,
                {"new": "a fresh container", "out": "the result of call " + src[3:], "in": "the input of call " + src[2:] + " again"}[src.rstrip("0123456789")],
                ", ".join("%s=%r" % kv for kv in args.items()), call["obj"],
            )
            if call["obj"] == 1:
                ctx.count("chain_second_injector_object")
            rng.seed_step(ctx.seed, base, cfg["id"], "chain", k)
            exc = out = None
            try:
                out = injs[call["obj"]](obj, **args)
            except Exception as e:  # noqa: BLE001 - compared with the fresh injector below
                exc = e
            tag = " (the call raised %s)" % type(exc).__name__ if exc is not None else ""
            for e in held:
                now = e[2]()
                if now != e[3]:
                    mine = e[1] is obj
                    raise Violation(
                        "input-modified" if mine else "held-object-modified",
                        "%s modified %s, which belongs to the caller (%s changed)%s"
                        % (desc, "its input" if mine else e[0], describe_fp_diff(e[3][0], now[0]) or "the array the view was cut from", tag),
                        expected="bit-for-bit unchanged",
                        observed=jsonable(_conv(e[1])),
                        sig="%s:%s" % ("input-modified" if mine else "held-object-modified", base),
                    )
            ctx.count("chain_held_objects_compared", len(held))
            texc, tout = texcs.get(k), touts.get(k)
            if texc is None and tout is None:
                raise HarnessError("HARNESS-CRASH: the reference run ended before call %d although the caller's chain did not" % k)
            if (exc is None) != (texc is None) or (exc is not None and type(exc) is not type(texc)):
                raise Violation(
                    "differs-from-fresh-injector-on-private-copy",
                    "%s %s, whereas a new injector object given a private copy of the same data %s"
                    % (desc, "raised %r" % exc if exc is not None else "returned", "raised %r" % texc if texc is not None else "returned"),
                    expected=repr(texc),
                    observed=repr(exc),
                    sig="injector-keeps-state:%s" % base,
                )
            if exc is not None:
                ctx.count("chain_agreed_exception:%s" % type(exc).__name__)
                break
            if (frame and not isinstance(out, pd.DataFrame)) or (not frame and type(out) is not np.ndarray):
                raise Violation("container-type", "%s returned a %s" % (desc, type(out).__name__), expected=type(obj).__name__, observed=type(out).__name__, sig="container-type:%s" % base)
            for e in held:
                if out is e[1]:
                    raise Violation(
                        "result-is-held-object",
                        "%s returned %s itself instead of a new object" % (desc, "its input" if e[1] is obj else e[0]),
                        sig="shares-memory:%s" % base,
                    )
            obufs = _buffers_of(out)
            for ob in obufs:
                if ob.dtype == object or not ob.size:
                    continue
                for e in held:
                    if any(ib.size and ib.dtype != object and np.shares_memory(ob, ib) for ib in e[5]):
                        raise Violation(
                            "result-shares-memory-with-held-object",
                            "%s: the result shares memory with %s" % (desc, "its input" if e[1] is obj else e[0]),
                            expected="np.shares_memory == False",
                            observed="np.shares_memory == True",
                            sig="shares-memory:%s" % base,
                        )
            ctx.count("shares_memory_checked")
            fo, ft = fingerprint(out), tfps[k]
            if fo != ft:
                raise Violation(
                    "differs-from-fresh-injector-on-private-copy",
                    "%s: the result differs (%s) from what a new injector object returns for a private copy of the same data" % (desc, describe_fp_diff(fo, ft)),
                    expected=jsonable(_conv(tout)),
                    observed=jsonable(_conv(out)),
                    sig="injector-keeps-state:%s" % base,
                )
            ctx.count("chain_calls_compared_with_fresh_injector")
            outs[k] = out
            held.append(["the result of call %d" % k, out, (lambda o=out: (fingerprint(o),)), (fo,), (lambda salt, o=out: _overwrite_result(o, salt)), obufs])
            done = k
        # the caller reuses, one after the other, everything it holds (first what it passed, then what it got back, in
        # chain order); nothing it has not overwritten yet may follow
        for i, e in enumerate(held):
            e.append(0 if e[0].startswith("the input") else 1)
        order = sorted(range(len(held)), key=lambda i: (held[i][6], i))
        for n_done, i in enumerate(order):
            e = held[i]
            if e[4](50 + i) is False:
                ctx.count("chain_result_not_writable_or_empty")
                continue
            later = [held[j] for j in order[n_done + 1 :]]
            if e[6] == 1 and e[2]() == e[3]:
                raise HarnessError("HARNESS-VACUOUS: overwrite did not change %s" % e[0])
            if e[6] == 0 and any(x[6] == 0 for x in later):
                continue  # all inputs are overwritten before the first comparison
            for e2 in later:
                if e2[2]() != e2[3]:
                    raise Violation(
                        "held-object-follows-overwrite",
                        "%s chain %s [%s, data %s]: when the caller overwrote %s in place, %s changed as well"
                        % (base, json.dumps(ev["calls"]), LAYOUT_TEXT[layout], ev["data"], "what it had passed" if e[6] == 0 else e[0], e2[0]),
                        sig="shares-memory:%s" % base,
                    )
            ctx.mark("overwrite_after_injector_chain")
        ctx.count("layout:%s" % layout)
        ctx.count("injector_chain:%s" % base)
        ctx.count("chain_completed_calls:%d" % done)
        return {"outcome": "ok", "calls_completed": done}


# =============================================================================
# plans
# =============================================================================
SYSTEMS = {n: DetSystem(f) for n, f in FAMILIES.items()}
SYSTEMS.update({n: InjectorSystem(n) for n in INJECTORS})
SYSTEMS.update({n + CHAIN: InjectorChainSystem(n) for n in INJECTORS})

R0, R1, R3 = ["ref", 0], ["ref", 1], ["ref", 3]
Q, T = "quick", "thorough"

# name -> list of plans.  A plan: parameter-set index, scripted prefix (chosen so
# that it ends in — or is one event short of — an alarm; REQUIRED proves the
# alarms still happen), alphabet of the exhaustive suffix (None = the driver's
# full alphabet / MD3's enabled events), suffix depth per tier (None = plan not
# run in that tier).
PLANS = {}


def _plan(name, ci, prefix, alphabet, dq, dt):
    PLANS.setdefault(name, []).append({"ci": ci, "prefix": list(prefix), "alphabet": alphabet, Q: dq, T: dt})


for _ci, _pre in enumerate(([0], [0, 0], [1, 1, 1], [1, 1, 1, 1, 1])):
    _plan("DDM", _ci, _pre, None, 3, 5)
for _ci, _pre in enumerate(([1, 0, 1, 1], [1, 0, 0, 1, 1, 1], [1, 1, 0, 0, 0, 1, 1])):
    _plan("EDDM", _ci, _pre, None, 3, 5)
for _ci, _pre in enumerate(([0, 0, 1], [0, 0, 0, 1, 1], [0, 0, 0, 0, 1, 1])):
    _plan("STEPD", _ci, _pre, None, 3, 5)
_plan("ADWINAccuracy", 0, [0, 0, 0, 0, 1, 1, 1, 1, 1, 1], None, 2, 4)
_plan("ADWINAccuracy", 1, [0] * 13 + [1] * 11, None, None, 2)
_plan("ADWIN", 0, [0, 5], None, 3, 4)
_plan("ADWIN", 3, [0, 5, 5, 5], None, 2, 3)
_plan("ADWIN", 2, [0, 0, 0, 0, 5, 5, 5, 5, 5], None, 2, 3)
_plan("ADWIN", 1, [0] * 8 + [5, 5], None, None, 3)
_plan("CUSUM", 0, [4], None, 3, 4)
_plan("CUSUM", 1, [4, 4], None, 2, 3)
_plan("CUSUM", 2, [-2, 0, 1], None, 3, 4)  # mean/sd estimated from the stored stream, re-estimated after the alarm
_plan("CUSUM", 3, [0, 0, -2, -2], None, 2, 4)
_plan("PageHinkley", 0, [-2], None, 3, 4)
_plan("PageHinkley", 1, [-2, -2], None, 2, 3)
_plan("PageHinkley", 2, [-2, -2, -2, -2], None, 2, 3)
_plan("LinearFourRates", 1, [0, 0, 2, 2], None, 2, 3)
_plan("LinearFourRates", 0, [0, 0, 0, 1, 1], None, None, 2)
_plan("LinearFourRates", 2, [2, 2, 2, 2, 2, 0], None, None, 2)
_plan("KdqTreeStreaming", 0, [0, 1, 0, 0], None, 2, 3)
_plan("KdqTreeStreaming", 1, [0, 1, 0, 0, 0], None, None, 2)
_plan("KdqTreeStreaming", 2, [0, 0, 1, 1, 1, 1], None, None, 2)
_plan("PCACD", 1, [0, 1, 2, 0, 1, 2, 0, 1, 3, 3], None, 2, 3)  # the next 3 alarms
_plan("PCACD", 0, [0, 1, 2, 0, 1, 2, 3], None, None, 2)
_plan("PCACD", 2, [0, 1, 2, 0, 1, 2], None, None, 2)
for _n in ("HDDDM", "CDBD"):
    _A4 = [0, 1, 3, R1]
    _plan(_n, 0, [R0, 1], _A4, 2, None)  # detect_batch 1: alarm (and adoption) on the first test batch
    _plan(_n, 1, [R0, 0, 1], _A4, 2, None)
    _plan(_n, 2, [R0, 0, 0, 1], _A4, 2, None)
    _plan(_n, 0, [R0, 1], None, None, 3)
    _plan(_n, 1, [R0, 0, 1], None, None, 3)
    _plan(_n, 2, [R0, 0, 0, 1], None, None, 3)
    _plan(_n, 3, [R0, 0, 1], None, None, 2)
    _plan(_n, 4, [R0, 0, 0, 1], None, None, 2)
    _plan(_n, 0, [R0], None, 2, 3)  # no scripted alarm: everything straight after the reference
_plan("KdqTreeBatch", 0, [R0, 1], [0, 1, R1], 2, None)
_plan("KdqTreeBatch", 0, [R0, 1], [0, 1, 3, R1], None, 3)
_plan("KdqTreeBatch", 1, [R0, 1], [0, 1, 3, R1], None, 2)
_plan("KdqTreeBatch", 2, [1, 0], [0, 1, R1], 1, 2)  # first update doubles as the reference
_plan("NNDVI", 0, [R0, 1], [0, 1, 3, R1], 2, None)
_plan("NNDVI", 0, [R0, 1], None, None, 3)
_plan("NNDVI", 1, [R0], [0, 1, R1, R3], 2, 3)
# univariate batches handed over as vectors (VEC_LAYOUTS); menus = BATCH_1D
_plan("NNDVI~vec", 0, [R0, 1], [0, 1, 3, R1], 2, None)
_plan("NNDVI~vec", 0, [R0, 1], [0, 1, 3, R1], None, 3)
_plan("NNDVI~vec", 1, [R0], [0, 1, R1, R3], 2, 3)
for _n in ("HDDDM~vec", "CDBD~vec"):
    _plan(_n, 0, [R0, 1], _A4, 2, None)  # detect_batch 1: the drifted vector batch is adopted as reference
    _plan(_n, 1, [R0, 0, 1], _A4, 1, None)
    _plan(_n, 0, [R0, 1], _A4, None, 3)
    _plan(_n, 1, [R0, 0, 1], None, None, 2)
    _plan(_n, 2, [R0, 0, 0, 1], _A4, None, 2)
    _plan(_n, 3, [R0, 0, 1], _A4, None, 2)
_plan("KdqTreeBatch~vec", 0, [R0, 1], [0, 1, R1], 1, None)
_plan("KdqTreeBatch~vec", 0, [R0, 1], [0, 1, R1], None, 2)
_plan("KdqTreeBatch~vec", 2, [1, 0], [0, 1, R1], None, 1)  # first update doubles as the reference
_plan("MD3", 0, ["ref", "u_in", "u_in", "u_in"], None, 3, 5)  # warning, then two labels -> drift and re-reference
_plan("MD3", 1, ["ref", "u_in", "u_in"], None, 4, 5)
_plan("MD3", 2, ["ref"], None, None, 4)
_plan("StreamingEnsemble", 0, [-2], None, 2, 3)
_plan("StreamingEnsemble", 1, [-2, 0], None, 2, 3)
_plan("BatchEnsemble", 1, [R0, 1], [0, 1, R1], 1, 2)
_plan("BatchEnsemble", 0, [R0, 1], [0, 1, R1], None, 2)

# measured ms per checked call (for load balancing only)
COST = {"NNDVI~vec": 12, "KdqTreeBatch~vec": 60, "HDDDM~vec": 7, "CDBD~vec": 5, "NNDVI": 12, "BatchEnsemble": 50, "KdqTreeBatch": 60, "HDDDM": 7, "CDBD": 5, "PCACD": 6, "KdqTreeStreaming": 25, "MD3": 10, "LinearFourRates": 9, "StreamingEnsemble": 3}


class _FreshRef:
    waiting_for_oracle = False


# layouts that are also run with ONE recycled container per argument (refilled in place and passed again at every call)
REUSE_LAYOUTS = ("c", "df", "vec", "ser", "nd1")


def _ow_positions(L):
    return ["all"] + list(range(L))


# =============================================================================
# round 5: TWO detectors alive together, fed from ONE caller container
# =============================================================================
SHARED = "Shared"
PAIR_EXCLUDE = {SHARED}  # the system already is a two-object system; one execution = one complete interleaving
_SOLO_CACHE = {}


def _interleavings(na, nb):
    """every order in which a's na calls and b's nb calls can be made (lists of 0 / 1)"""
    out = []
    for pos in itertools.combinations(range(na + nb), nb):
        s = [0] * (na + nb)
        for q in pos:
            s[q] = 1
        out.append(s)
    return out


def _weave(na, nb, first, block, lead=0):
    s, left, who = [0] * lead, [na - lead, nb], first
    while left[0] or left[1]:
        take = min(block, left[who])
        s += [who] * take
        left[who] -= take
        who = 1 - who
    return s


def _few_schedules(na, nb):
    """long histories: strict alternation starting with either detector, alternation in blocks of two, detector a
    running one call ahead of b, and one complete history after the other"""
    out = []
    for s in (_weave(na, nb, 0, 1), _weave(na, nb, 1, 1), _weave(na, nb, 0, 2), _weave(na, nb, 1, 2), _weave(na, nb, 1, 1, lead=1), [0] * na + [1] * nb, [1] * nb + [0] * na):
        if s.count(0) != na or s.count(1) != nb:
            raise HarnessError("HARNESS-CRASH: bad schedule")
        if s not in out:
            out.append(s)
    return out


class SharedSystem(System):
    """Two detectors (same class or different classes) live in one process and are fed by ONE caller who owns ONE
    container per (argument, shape, dtypes): before every call it writes the data of that call into the container in
    place and hands the very same object to whichever detector is next.  One execution = one complete interleaving of
    the two detectors' operation lists (the event is the order).

    Oracle: each detector is judged by its SOLO twin - a detector of the same class and parameters that ran the same
    operation list alone, in a pristine process state (``mc.procstate.reset()``), on private containers nobody touches,
    with the same random draws: after every call the called detector's public observables equal the twin's, bit for
    bit (both raise the same exception type or neither raises); the call leaves its argument bit-for-bit unchanged; and
    the detector that was NOT called reports exactly what it reported before (neither the other detector's call nor
    the caller's refill / overwrite of the shared container may reach it)."""

    name = SHARED

    def init(self, cfg):
        return {}

    def alphabet(self, cfg, state, pos):
        if pos:
            return []
        na, nb = len(cfg["ops"][0]), len(cfg["ops"][1])
        return [{"order": s} for s in (_interleavings(na, nb) if cfg["sched"] == "all" else _few_schedules(na, nb))]

    # the solo twin of detector i: complete history, alone, pristine process state, private containers
    def _solo(self, cfg, seed, i):
        ck = (seed, json.dumps(cfg, sort_keys=True, default=repr), i)
        if ck in _SOLO_CACHE:
            return _SOLO_CACHE[ck]
        from mc import procstate

        fam, p, layout = FAMILIES[cfg["fams"][i]], cfg["params"][i], cfg["layout"]
        procstate.reset()
        rng.seed_step(0, SHARED, fam.name, cfg["id"], "init", i)
        det = fam.new(p)
        trace = []
        for k, ev in enumerate(cfg["ops"][i]):
            call = fam.plan(ev, p, det)
            method, kind, specs, extra = call
            priv = {a: Held(layout, data, names, dts) for a, data, names, dts in specs}
            rng.seed_step(seed, SHARED, cfg["id"], i, k)
            exc = None
            try:
                getattr(det, method)(**{a: h.obj for a, h in priv.items()}, **extra)
            except Exception as e:  # noqa: BLE001 - the shared run must raise the same
                exc = e
            trace.append((call, exc, None if exc is not None else public(det)))
            if exc is not None:
                break
        if len(_SOLO_CACHE) > 64:
            _SOLO_CACHE.clear()
        _SOLO_CACHE[ck] = trace
        return trace

    def step(self, cfg, state, ev, pos, ctx):
        from mc import procstate

        layout = cfg["layout"]
        fams = [FAMILIES[n] for n in cfg["fams"]]
        traces = [self._solo(cfg, ctx.seed, 0), self._solo(cfg, ctx.seed, 1)]
        procstate.reset()
        dets = []
        for i in (0, 1):
            rng.seed_step(0, SHARED, fams[i].name, cfg["id"], "init", i)
            dets.append(fams[i].new(cfg["params"][i]))
        buffers, last_user = {}, {}
        last = [None, None]
        done, dead = [0, 0], [False, False]
        states = [[], []]
        who = "ab"
        for i in ev["order"]:
            if dead[i] or done[i] >= len(traces[i]):
                continue
            k = done[i]
            fam = fams[i]
            call, texc, tobs = traces[i][k]
            method, kind, specs, extra = call
            held = {}
            for a, data, names, dts in specs:
                data = np.asarray(data)
                bkey = (a, tuple(data.shape), str(data.dtype), tuple(names), None if dts is None else tuple(str(t) for t in dts))
                h = buffers.get(bkey)
                if h is None:
                    h = buffers[bkey] = Held(layout, data, names, dts)
                else:
                    h.refill(data)
                    if last_user[bkey] != i:
                        ctx.mark("shared_container_refilled_and_handed_to_the_other_detector")
                        if done[0] == done[1]:
                            ctx.count("shared_container_handed_over_at_equal_call_counts")
                        if kind != "observation":
                            ctx.count("shared_batch_container_handed_to_the_other_detector")
                        else:
                            ctx.count("shared_observation_container_handed_to_the_other_detector")
                    else:
                        ctx.count("shared_container_passed_to_the_same_detector_again")
                last_user[bkey] = i
                held[a] = h
            where = "two live detectors (a: %s, b: %s) fed from one caller container per argument [%s], order %s: call %d of detector %s, %s.%s(%s)" % (
                fams[0].sig_name, fams[1].sig_name, LAYOUT_TEXT[layout], "".join(who[x] for x in ev["order"]), k, who[i], fam.sig_name, method, ", ".join(held))
            before = {a: h.fingerprint() for a, h in held.items()}
            rng.seed_step(ctx.seed, SHARED, cfg["id"], i, k)
            exc = None
            try:
                getattr(dets[i], method)(**{a: h.obj for a, h in held.items()}, **extra)
            except Exception as e:  # noqa: BLE001 - compared with the solo twin
                exc = e
            for a, h in held.items():
                after = h.fingerprint()
                if after != before[a]:
                    raise Violation(
                        "argument-modified",
                        "%s modified its argument %r (%s changed) during the call" % (where, a, describe_fp_diff(before[a][0], after[0]) or "the array the view was cut from"),
                        expected="argument bit-for-bit as passed",
                        observed=jsonable(_conv(h.obj)),
                        sig="argument-modified:%s:%s:%s" % (fam.sig_name, method, type(h.obj).__name__),
                    )
            ctx.count("arguments_compared_before_after", len(held))
            if (exc is None) != (texc is None) or (exc is not None and type(exc) is not type(texc)):
                raise Violation(
                    "exception-differs-from-solo-private-copy-run",
                    "%s %s, whereas the same detector used alone on private copies %s" % (where, "raised %r" % exc if exc is not None else "was accepted", "raised %r" % texc if texc is not None else "was accepted"),
                    expected=repr(texc),
                    observed=repr(exc),
                    sig="shared-container:%s" % fam.sig_name,
                )
            done[i] += 1
            if exc is not None:
                dead[i] = True
                last[i] = None  # what a detector reports after a call it refused is not judged here
                ctx.count("shared_agreed_exception:%s:%s" % (fam.name, type(exc).__name__))
                states[i].append("raised " + type(exc).__name__)
                continue
            od = public(dets[i])
            bad = diff_keys(tobs, od)
            if bad:
                raise Violation(
                    "trace-differs-from-solo-private-copy-run",
                    "%s: public observables %s differ from those of the same detector used alone, in a fresh process state, on private copies of the same data" % (where, bad),
                    expected={x: tobs.get(x) for x in bad},
                    observed={x: od.get(x) for x in bad},
                    sig="shared-container:%s" % fam.sig_name,
                )
            ctx.count("shared_calls_compared_with_solo_twin")
            ctx.count("shared_call:%s.%s" % (fam.name, method))
            last[i] = tobs
            states[i].append(tobs["drift_state"])
            if tobs["drift_state"] == "drift":
                ctx.mark("shared_drift_transitions")
                ctx.count("shared_drift:%s" % fam.name)
            if cfg["after"] == "junk":
                for h in held.values():
                    h.overwrite(k)
                ctx.mark("shared_container_overwritten_with_junk_after_the_call")
                od = public(dets[i])
                bad = diff_keys(tobs, od)
                if bad:
                    raise Violation(
                        "observables-follow-caller-overwrite",
                        "%s: after the caller overwrote the shared container in place, public observables %s of the detector changed" % (where, bad),
                        expected={x: tobs.get(x) for x in bad},
                        observed={x: od.get(x) for x in bad},
                        sig="shared-container:%s" % fam.sig_name,
                    )
            j = 1 - i
            if last[j] is not None:
                oj = public(dets[j])
                bad = diff_keys(last[j], oj)
                if bad:
                    raise Violation(
                        "other-detector-changed",
                        "%s: public observables %s of detector %s (%s), which was not called, changed" % (where, bad, who[j], fams[j].sig_name),
                        expected={x: last[j].get(x) for x in bad},
                        observed={x: oj.get(x) for x in bad},
                        sig="shared-container:%s" % fams[j].sig_name,
                    )
                ctx.count("shared_uncalled_detector_compared")
        ctx.count("shared_layout:%s" % layout)
        ctx.count("shared_pair:%s+%s" % (cfg["fams"][0], cfg["fams"][1]))
        ctx.count("shared_same_class_pairs" if fams[0].sig_name == fams[1].sig_name else "shared_different_class_pairs")
        ctx.count("shared_sched:%s" % cfg["sched"])
        if cfg["fams"][0] == cfg["fams"][1] and json.dumps(cfg["params"][0], sort_keys=True, default=repr) != json.dumps(cfg["params"][1], sort_keys=True, default=repr):
            ctx.count("shared_same_class_different_parameters")
        if done[0] and done[1]:
            ctx.mark("shared_runs_with_both_detectors_used")
        return {"calls": done, "a": states[0], "b": states[1]}


def _rot(ops, alphabet):
    """the other detector's data: every symbol replaced by its successor in the alphabet (differs at every position)"""
    keys = [json.dumps(x) for x in alphabet]
    return [alphabet[(keys.index(json.dumps(e)) + 1) % len(alphabet)] for e in ops]


def _stream_ops(name, ci, n):
    fam = FAMILIES[name]
    p = fam.configs(Q)[ci]
    alph = fam.alphabet(p, _FreshRef())
    pre = next((pl["prefix"] for pl in PLANS.get(name, []) if pl["ci"] == ci), [])
    a = (list(pre) + [alph[q % len(alph)] for q in range(n)])[: max(n, 0)] if n else list(pre) + [alph[0], alph[-1]]
    return a, _rot(a, alph)


# detectors whose containers have the same argument name, shape and column names can be fed from one container
SH_BATCH2 = ("HDDDM", "KdqTreeBatch", "NNDVI", "BatchEnsemble")  # BATCH_2D, 6 x 2
SH_VEC = ("CDBD~vec", "HDDDM~vec", "NNDVI~vec", "KdqTreeBatch~vec")  # BATCH_1D as vectors, 6 rows
SH_UNI = ("ADWIN", "CUSUM", "PageHinkley", "KdqTreeStreaming", "StreamingEnsemble")  # one number per call
SH_ERR = ("DDM", "EDDM", "STEPD", "ADWINAccuracy", "LinearFourRates")  # y_true, y_pred per call
SH_HEAVY = ("KdqTreeStreaming", "LinearFourRates", "PCACD", "MD3", "StreamingEnsemble")
SH_LAYOUTS_2D = ("c", "f", "view", "df", "dfarr")  # no mixed-dtype frame: its column dtypes are chosen from the first data written
SH_BATCH_OPS = ([R0, 1, 0], [R1, 0, 2])  # a's and b's operation lists: different data at every position
SH_KDQ_NOREF_OPS = ([1, 0, 2], [0, 1, 0])  # KdqTreeBatch without set_reference: the first update is the reference
SH_CI = {"CUSUM": 2, "DDM": 2}  # parameter set of the every-interleaving tasks (CUSUM #0 refuses every call after its first alarm, DDM #0 alarms at every call)
SH_MD3_OPS = (["ref", "u_in", "u_in", "u_in"], ["ref2", "u_out", "u_in", "u_in"])


def shared_configs(tier):
    """(fams, parameter indices, operation lists, layouts, schedule kind, after)"""
    quick = tier == Q
    out = []

    def add(fa, fb, cia, cib, ops, layouts, sched="all", after="refill"):
        out.append(((fa, fb), (cia, cib), ops, tuple(layouts), sched, after))

    # batch detectors, 2-D batches: every ordered pair of classes (same class included)
    names = SH_BATCH2[:3]
    for fa in names:
        for fb in names:
            add(fa, fb, 0, 0, SH_BATCH_OPS, ("c", "df") if quick and fa == fb else ("c",) if quick else SH_LAYOUTS_2D)
            if fa == fb or not quick:
                add(fa, fb, 0, 0, SH_BATCH_OPS, ("c",) if quick else ("c", "df", "dfarr"), after="junk")
    # same class, DIFFERENT parameter sets (what a key made of the argument and a counter forgets)
    for fa in names:
        add(fa, fa, 0, 1, SH_BATCH_OPS, ("c",) if quick else ("c", "df"), sched="few" if quick else "all")
        add(fa, fa, 1, 0, SH_BATCH_OPS, ("df",) if quick else ("c", "df"), sched="few" if quick else "all")
    add("KdqTreeBatch", "KdqTreeBatch", 2, 2, SH_KDQ_NOREF_OPS, ("c",) if quick else ("c", "df"))
    add("KdqTreeBatch", "NNDVI", 2, 1, (SH_KDQ_NOREF_OPS[0], SH_BATCH_OPS[1]), ("c",) if quick else ("c", "df"))
    add("BatchEnsemble", "BatchEnsemble", 0, 1, SH_BATCH_OPS, ("c",) if quick else ("c", "df"), sched="few" if quick else "all")
    add("BatchEnsemble", "NNDVI", 1, 0, SH_BATCH_OPS, ("df",) if quick else ("c", "df"), sched="few" if quick else "all")
    add("NNDVI", "BatchEnsemble", 1, 0, SH_BATCH_OPS, ("c",) if quick else ("c", "df"), sched="few" if quick else "all")
    # batch detectors, univariate batches handed over as vectors
    for x, fa in enumerate(SH_VEC):
        for y, fb in enumerate(SH_VEC):
            if quick and fa != fb and (y - x) % len(SH_VEC) != 1:
                continue
            add(fa, fb, 0, 0, SH_BATCH_OPS, ("vec", "ser") if (fa == fb and not (quick and fa.startswith("Kdq"))) or not quick else ("vec",))
    add("CDBD", "CDBD", 0, 0, SH_BATCH_OPS, ("c", "df"))
    # streaming detectors: one observation per call
    for group in (SH_UNI, SH_ERR):
        for x, fa in enumerate(group):
            for y, fb in enumerate(group):
                if quick and fa != fb and (y - x) % len(group) != 1:
                    continue
                heavy = fa in SH_HEAVY or fb in SH_HEAVY
                n = 3 if heavy and quick else 4
                c0a, c0b = SH_CI.get(fa, 0), SH_CI.get(fb, 0)
                ops = (_stream_ops(fa, c0a, n)[0], _stream_ops(fb, c0b, n)[1])
                lay = [l for l in (("c", "df", "nd1") if fa == fb or not quick else ("c",)) if l in FAMILIES[fa].layouts and l in FAMILIES[fb].layouts]
                add(fa, fb, c0a, c0b, ops, lay)
                # the scripted histories that run into the alarms, a few schedules
                cia = PLANS[fa][0]["ci"]
                cib = PLANS[fb][0]["ci"]
                add(fa, fb, cia, cib, (_stream_ops(fa, cia, 0)[0], _stream_ops(fb, cib, 0)[1]), lay[:2] if fa == fb else lay[:1], sched="few")
                if fa == fb and len(PLANS[fa]) > 1 and PLANS[fa][1]["ci"] != cia:
                    # same class, different parameter sets
                    cib = PLANS[fa][1]["ci"]
                    add(fa, fb, cia, cib, (_stream_ops(fa, cia, 0)[0], _stream_ops(fb, cib, 0)[1]), lay[:1], sched="few")
                    add(fa, fb, cib, cia, (_stream_ops(fa, cib, 0)[0], _stream_ops(fb, cia, 0)[1]), lay[1:2], sched="few")
    ops = (_stream_ops("PCACD", 1, 3 if quick else 4)[0], _stream_ops("PCACD", 1, 3 if quick else 4)[1])
    add("PCACD", "PCACD", 1, 1, ops, ("c", "df", "nd1") if quick else ("c", "f", "view", "df", "dfarr", "nd1", "series"))
    add("PCACD", "PCACD", 1, 1, (_stream_ops("PCACD", 1, 0)[0], _stream_ops("PCACD", 1, 0)[1]), ("c", "df"), sched="few")
    add("MD3", "MD3", 0, 0, SH_MD3_OPS, ("df",) if quick else MD3Fam.layouts)
    add("MD3", "MD3", 0, 1, (["ref", "u_in", "u_in", "u_in", "l_bad", "l_bad", "u_in"], ["ref2", "u_out", "u_in", "u_in", "l_ok", "l_ok", "u_out"]), ("df", "dfmix"), sched="few")
    return out


def shared_tasks(tier):
    out = []
    for n, (fs, cis, ops, layouts, sched, after) in enumerate(shared_configs(tier)):
        params = [FAMILIES[f].configs(tier)[c] for f, c in zip(fs, cis)]
        na, nb = len(ops[0]), len(ops[1])
        runs = len(_interleavings(na, nb)) if sched == "all" else len(_few_schedules(na, nb))
        for layout in layouts:
            cid = "shared:%s#%d+%s#%d:%s:%s:%s:%d" % (fs[0], cis[0], fs[1], cis[1], layout, sched, after, n)
            out.append(
                {
                    "system": SHARED,
                    "cfg": {"id": cid, "fams": list(fs), "params": params, "ops": [list(ops[0]), list(ops[1])], "layout": layout, "sched": sched, "after": after},
                    "prefix": [],
                    "depth": 1,
                    "label": "%s|%s#%d+%s#%d|%s|%s|%s" % (SHARED, fs[0], cis[0], fs[1], cis[1], layout, sched, after),
                    "cost": max(COST.get(fs[0], 2), COST.get(fs[1], 2)) * runs * (na + nb) * (2 if layout.startswith("df") else 1),
                    "validate_every": 29,
                }
            )
    return out


SYSTEMS[SHARED] = SharedSystem()


def tasks(tier, seed):
    out = []
    for name, plans in PLANS.items():
        fam = FAMILIES[name]
        cfgs = fam.configs(tier)
        for pi, pl in enumerate(plans):
            depth = pl[tier]
            if depth is None:
                continue
            ci, prefix = pl["ci"], pl["prefix"]
            p = cfgs[ci]
            L = len(prefix) + depth
            width = len(pl["alphabet"] or fam.alphabet(p, _FreshRef()))
            for layout in fam.layouts:
                for ow in _ow_positions(L) + (["reuse"] if layout in REUSE_LAYOUTS else []):
                    cfg = {"id": ci, "params": p, "layout": layout, "ow": ow, "alphabet": pl["alphabet"]}
                    out.append(
                        {
                            "system": name,
                            "cfg": cfg,
                            "prefix": list(prefix),
                            "depth": depth,
                            "label": "%s|%d|%s|ow=%s|plan%d" % (name, ci, layout, ow, pi),
                            "cost": COST.get(name, 1) * (width**depth) * L * (2 if layout.startswith("df") else 1),
                            "validate_every": 53,
                        }
                    )
    for name in INJECTORS:
        for layout in LAYOUTS:
            out.append(
                {
                    "system": name,
                    "cfg": {"id": 0, "layout": layout, "tier": tier},
                    "prefix": [],
                    "depth": 1,
                    "label": "%s|%s" % (name, layout),
                    "cost": 300,
                    "validate_every": 37,
                }
            )
    for name in INJECTORS:
        for layout in LAYOUTS:
            for dk in INJ_DATA:
                out.append(
                    {
                        "system": name + CHAIN,
                        "cfg": {"id": 0, "layout": layout, "tier": tier, "data": dk},
                        "prefix": [],
                        "depth": 1,
                        "label": "%s%s|%s|%s" % (name, CHAIN, layout, dk),
                        "cost": 400,
                        "validate_every": 41,
                    }
                )
    out.extend(shared_tasks(tier))
    return out


ADOPTERS = ("HDDDM", "CDBD", "KdqTreeBatch", "NNDVI") + tuple(VEC_FAMILY.values())
_SEED_DEPENDENT = ("KdqTreeBatch", "KdqTreeStreaming", "NNDVI", "LinearFourRates", "BatchEnsemble", "StreamingEnsemble", "KdqTreeBatch~vec", "NNDVI~vec")
REQUIRED = (
    [
        "overwrite_after_reference_batch",
        "overwrite_after_test_batch",
        "overwrite_after_single_observation",
        "overwrite_after_injector_call",
        "injector_reused_across_container_types",
        "drifted_batch_adopted_then_overwritten",
        "update_after_adopted_batch_was_overwritten",
        "dataframe_values_is_live_view_cases",
        "dict_arguments_compared",
        "calls_after_an_overwrite",
        "drift_transitions",
        "warning_transitions",
        "arguments_compared_before_after",
        "shares_memory_checked",
        "container:ndarray",
        "container:DataFrame",
    ]
    + ["overwrite_layout:%s" % l for l in LAYOUTS + ROW_LAYOUTS + VEC_LAYOUTS]
    + ["layout:%s" % l for l in LAYOUTS + ROW_LAYOUTS + VEC_LAYOUTS]
    + ["series_values_is_live_view_cases", "same_container_object_refilled_and_passed_again"]
    + ["refilled_layout:%s" % l for l in REUSE_LAYOUTS]
    + ["call:%s.%s" % (n, m) for n in VEC_FAMILY.values() for m in ("set_reference", "update")]
    # per-family counters are demanded only where they do not depend on bootstrap / permutation / Monte-Carlo draws
    # (those vary with VERIF_SEED; the stochastic families are still counted and reported)
    + ["update_after_adopted_batch_was_overwritten:%s" % n for n in ADOPTERS if n not in _SEED_DEPENDENT]
    + ["drift:%s" % n for n in FAMILIES if n not in _SEED_DEPENDENT]
    + ["call:MD3.update", "call:MD3.set_reference", "call:MD3.give_oracle_label"]
    + ["injector:%s" % n for n in INJECTORS]
    + ["injector_chain:%s" % n for n in INJECTORS]
    + [
        "chain_src:own_earlier_result",
        "chain_src:same_input_again",
        "chain_second_injector_object",
        "chain_calls_compared_with_fresh_injector",
        "chain_completed_calls:2",
        "chain_completed_calls:3",
        "overwrite_after_injector_chain",
    ]
    # round 5: two live detectors fed from one caller container (system Shared)
    + [
        "shared_runs_with_both_detectors_used",
        "shared_container_refilled_and_handed_to_the_other_detector",
        "shared_container_handed_over_at_equal_call_counts",
        "shared_batch_container_handed_to_the_other_detector",
        "shared_observation_container_handed_to_the_other_detector",
        "shared_container_passed_to_the_same_detector_again",
        "shared_container_overwritten_with_junk_after_the_call",
        "shared_calls_compared_with_solo_twin",
        "shared_uncalled_detector_compared",
        "shared_same_class_pairs",
        "shared_different_class_pairs",
        "shared_drift_transitions",
        "shared_sched:all",
        "shared_sched:few",
        "shared_same_class_different_parameters",
    ]
    + ["shared_layout:%s" % l for l in ("c", "df", "vec", "ser", "nd1", "dfmix")]
    + ["shared_call:%s.set_reference" % n for n in SH_BATCH2 + SH_VEC + ("CDBD", "MD3")]
    + ["shared_call:%s.update" % n for n in SH_BATCH2 + SH_VEC + SH_UNI + SH_ERR + ("CDBD", "PCACD", "MD3")]
    + ["shared_call:MD3.give_oracle_label"]
    + ["shared_drift:%s" % n for n in ("HDDDM", "CDBD", "CDBD~vec", "HDDDM~vec", "ADWIN", "CUSUM", "PageHinkley", "DDM", "EDDM", "STEPD", "ADWINAccuracy", "PCACD", "MD3")]
)


def describe(tier):
    plans = {}
    for name, pls in PLANS.items():
        fam = FAMILIES[name]
        for pl in pls:
            if pl[tier] is None:
                continue
            plans.setdefault(name, []).append(
                "params#%d: prefix %s + every suffix of length %d over %s; overwrite after exactly one call (each of the %d positions) and after all calls; layouts %s; "
                "on layouts %s also with one recycled container per argument (refilled in place, same object passed at every call)"
                % (
                    pl["ci"],
                    json.dumps(pl["prefix"]),
                    pl[tier],
                    json.dumps(pl["alphabet"]) if pl["alphabet"] is not None else "the full alphabet %s" % json.dumps(fam.alphabet(fam.configs(tier)[pl["ci"]], _FreshRef())),
                    len(pl["prefix"]) + pl[tier],
                    "/".join(fam.layouts),
                    "/".join(l for l in fam.layouts if l in REUSE_LAYOUTS),
                )
            )
    return {
        "rule": "detectors (incl. the <detector>~vec systems: univariate batches handed over as vectors): per detector, parameter set and container layout, a scripted valid history that runs into an alarm "
        "followed by every continuation of the stated length; each such history is executed once per overwrite pattern "
        "(after exactly one call, for every position, and after every call; on the layouts %s also: no junk, but the caller keeps "
        "ONE container per argument and shape, writes the next batch / observation into it in place and passes the very same object "
        "again) on a detector fed caller-owned containers and, " % "/".join(REUSE_LAYOUTS)
        + "in lock-step, on a twin fed private containers; injectors: every (injector, layout, data set, window, argument "
        "menu entry) is one execution, and every chain of two / three calls of the stated shape on one or two injector objects "
        "of a class is one execution; non-trivial = an execution containing a caller overwrite, an alarm or a dict argument",
        "bounds": {
            "layouts": LAYOUT_TEXT,
            "detector_plans": plans,
            "batch_menus": "checks/drivers.py BATCH_1D / BATCH_2D (6-9 rows), ['ref', i] = set_reference(menu i)",
            "injector_data": {k: "%d rows x 3 columns" % len(v) for k, v in INJ_DATA.items()},
            "injector_windows": "every 0 <= from <= to <= n",
            "injector_cases_per_layout": {n: len(injector_cases(n, tier)) for n in INJECTORS},
            "vector_families": "systems <detector>~vec: NNDVI, HDDDM, CDBD, KdqTreeBatch fed the univariate menu BATCH_1D with every batch "
            "(set_reference and update) handed over as a vector: layouts %s" % "/".join(VEC_LAYOUTS),
            "injector_chains": {
                "systems": "<injector>~chain, one execution per chain, per layout (%s) and data set" % "/".join(LAYOUTS),
                "call": "input source (new = fresh caller container of the layout, out<j> = the object call j returned, in<j> = the very "
                "object call j received) x which of two injector objects of the class runs it x move (window x argument menu)",
                "moves_for_data_A (data B: the full window is 0..5)": {n: chain_moves(n, 4) for n in INJECTORS},
                "two_calls": "call 1 = new container, object #0, move 0%s; call 2 = {new, out1, in1} x {object #0, #1} x %s"
                % ((" (data A also move 4)", "moves 0-3") if tier == "quick" else (" or move 4", "every move")),
                "three_calls": (
                    "data A, layouts %s: call 1 = move 0; call 2 = {new, out1, in1} x {#0, #1} x move 3; call 3 = {out1, out2, in1} x {#0, #1} x moves 0-1" % "/".join(CHAIN3_LAYOUTS)
                    if tier == "quick"
                    else "all data sets and layouts: call 1 = move 0; call 2 = {new, out1, in1} x {#0, #1} x moves 2-3; call 3 = {new, out1, out2, in1, in2} x {#0, #1} x moves 0-1"
                ),
                "chains_per_layout": {n: sum(len(injector_chains(n, dk, tier, "c")) for dk in INJ_DATA) for n in INJECTORS},
            },
            "junk": "777 + 13*position + 3*arange(size), cast to the container's dtype(s)",
            "shared_container_pairs": {
                "system": "Shared: two live detectors a and b (constructed up front, in one process) and ONE caller container per (argument name, "
                "shape, dtype, column names): before every call the caller writes that call's data into the container in place and hands the "
                "same object to the detector whose turn it is; one execution = one order of the two operation lists; a detector's history ends "
                "at a call it refuses (its solo twin must refuse it with the same exception type)",
                "schedules": "all = every interleaving of the two operation lists (lists of 3+3: 20 orders, 4+4: 70); few = long scripted histories "
                "(the plans' prefixes that run into alarms + 2 calls) under abab.., baba.., aabb.., bbaa.., a one call ahead, all of a then all of b, all of b then all of a",
                "after": "refill = nothing but the next refill touches the container; junk = the caller also overwrites it with junk right after every call",
                "batch_operation_lists": {"a": SH_BATCH_OPS[0], "b": SH_BATCH_OPS[1], "KdqTreeBatch without set_reference": SH_KDQ_NOREF_OPS},
                "streaming_operation_lists": "a: the first plan's prefix of the parameter set continued by the alphabet in order, cut to 4 calls (3 for %s in quick); "
                "b: a's list of its own class with every symbol replaced by its successor in the alphabet (different data at every position)" % "/".join(SH_HEAVY),
                "tasks": ["%s#%d (a) + %s#%d (b): ops %s / %s, layouts %s, schedule %s, %s" % (fs[0], cis[0], fs[1], cis[1], json.dumps(ops[0]), json.dumps(ops[1]), "/".join(lay), sched, after)
                          for fs, cis, ops, lay, sched, after in shared_configs(tier)],
                "not_shared": "containers of different shape (menu entry 3 of the batch menus, 9 rows), detectors of different input width "
                "(2-D batch detectors with univariate ones, error-rate detectors with data detectors), mixed-dtype frames except MD3's (their column dtypes follow the first data written)",
            },
        },
        "explanation": "oracle (a): fingerprint of every argument (dtype, shape, strides, flags, bytes; frames: class, columns, "
        "index, per-column dtypes and bytes; for views also the array they were cut from) taken before the call equals the one "
        "taken after it; oracle (b): all public instance attributes, counters, drift_state, retraining_recs, method-based "
        "observables (ADWIN mean/variance, STEPD accuracies, Page-Hinkley to_dataframe(), kdq to_plotly_dataframe() counts, "
        "ensemble members recursively) of the detector equal the twin's, bit for bit, after every call and again after the "
        "caller's overwrite, and both raise or neither does; node snapshots re-execute the history instead of deep-copying "
        "it, so that retained views stay views; injectors: input fingerprint, dict arguments (deep equality and key order), "
        "container type, np.shares_memory(result columns, input buffers), result unchanged after the input is overwritten; "
        "injector chains (the same injector object(s) called two or three times on containers the caller already holds - "
        "fresh ones, earlier results, an earlier input again): after every call each object the caller holds (all earlier "
        "inputs and results) has its fingerprint of before the call, the result is none of the held objects, has the input's "
        "container type, shares memory with none of them and is bit-for-bit what a brand-new injector object returns for a "
        "private copy of the same data under the same seed (that reference run is executed completely before the chain, and "
        "both raise the same exception type or neither raises); finally the caller overwrites everything it passed and then "
        "each result in turn: no object not yet overwritten may change; "
        "system Shared (two detectors alive together - same class and different classes, batch and streaming, ensembles, MD3 - fed "
        "alternately from one caller container that is refilled in place between calls): every detector is judged by its SOLO twin, "
        "a detector of the same class and parameters that ran the same operation list alone, before the shared run, in a process state "
        "reset with mc.procstate.reset(), on private containers, with the same random draws (numpy's RNG is re-seeded from (VERIF_SEED, "
        "task, detector a/b, index of the call in the detector's own list) before either call): after each call the argument is "
        "bit-for-bit unchanged, the called detector's public observables equal the twin's bit for bit (same exception type or none), "
        "and the detector that was not called reports what it reported before",
        "assumptions": [
            "a caller overwrite is an in-place write through the object that was passed (ndarray: arr[...] = junk; DataFrame: "
            "df.iloc[:, :] = junk, column-wise for mixed dtypes; frame wrapping an ndarray: write through the ndarray)",
            "under pandas 3 (copy-on-write) DataFrame.values of a single-dtype frame is a read-only view that follows such a write; "
            "the counter dataframe_values_is_live_view_cases proves the explored frames really are of that kind",
            "private state is read only to name the aliasing attribute in messages (np.shares_memory walk), never to decide",
            "whether an injector call may raise (empty windows, unknown classes, oversize samples) is C20's business: "
            "a raising call is still required to leave its arguments untouched; a chain ends at a call that raises (the "
            "reference injector must raise the same exception type)",
            "a pandas Series is overwritten through Series.iloc[:] (or through the ndarray it wraps); under pandas 3 "
            "np.asarray(series) / Series.to_numpy() is a read-only view that follows such a write "
            "(counter series_values_is_live_view_cases); a Series cut from a caller frame (df['a']) is not explored: "
            "copy-on-write detaches it on either side's first write, so no alias can show",
            "results an injector returns as read-only arrays (FeatureCoverInjector on ndarray input hands back "
            "DataFrame.to_numpy()) or empty results are not overwritten in the chain's last phase (counter chain_result_not_writable_or_empty)",
            "vector inputs are explored for the batch detectors' X only: y_true / y_pred of the error-rate detectors are reduced "
            "to one int inside update() and never stored, and batch y arguments are unused (C16)",
            "MD3 runs with the deterministic stub classifier of checks/drivers.py; its frames are single-dtype (label as float), "
            "mixed-dtype (float64/float32/int64) and ndarray-backed",
            "numpy's global RNG is re-seeded from (VERIF_SEED, detector, parameter set, position) before the detector's and before the twin's call",
        ],
    }
