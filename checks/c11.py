"""C11 — PCA-CD scores each component on aligned supports and alarms via Page-Hinkley.

Explored (DESIGN §4 C11): streams of points from a small menu in 2-D and 3-D fed
one row at a time to the real ``PCACD``; oracle: lock-step agreement with the
executable specification in models/pcacd.py on drift_state, total_samples,
samples_since_reset, num_pcs after every update and — read defensively — on the
score appended to ``_change_score`` (must be an admissible value of the
specified score, 0 when the test window equals the reference window under the
intersection metric).
"""
import copy

import numpy as np

from menelaus.data_drift import PCACD

from mc.explorer import System, Violation
from mc.numeric import close, lockstep
from mc.observe import stream_obs
from mc.rng import seed_step
from models.pcacd import PCACDModel, Undefined

PROPERTY = "C11"

# Point menus (symbol -> row).  General position on purpose: no two symbols share
# a coordinate, no three are collinear / equally spaced, so that projections do
# not sit on bin edges by construction; the nearly collinear subset 0,1,2 gives
# one dominant component, symbols 3 and 4 add spread across it.
POINTS = {
    2: [(0.0, 0.0), (1.0, 1.25), (2.5, 2.0), (4.0, 4.5), (1.5, 5.0), (5.0, 0.5)],
    # mirror-symmetric about the diagonal: projections tie with bin edges and the
    # sign of a component is decided by rounding (exercises the admissible-set logic)
    "2sym": [(0.0, 0.0), (1.0, 2.0), (2.0, 1.0), (4.0, 4.0), (3.0, 3.0)],
    3: [
        (0.0, 0.0, 0.0),
        (1.0, 1.25, 0.5),
        (2.5, 2.0, 3.0),
        (4.0, 4.5, 1.0),
        (1.5, 5.0, 2.5),
        (5.0, 0.5, 4.0),
    ],
}

# round 4 (lattice families): a quantised reading (levels 0..8) next to constant
# columns, and two quantised, uncorrelated readings.  One column carries each
# retained component, the projection is (reading - mean), and with window sizes /
# units chosen so that the mean is a dyadic number every projection and every bin
# edge is exact: the readings sit *exactly* on bin edges (see _lattice_tasks).
POINTS["lat2"] = [(float(k), 2.5) for k in range(9)]
POINTS["lat3"] = [(-1.0, float(k), 2.5) for k in range(9)]
# symbol a + 5 * b: first reading a in 0..4, second reading 16 * b in {0, 16, 32}, and a constant
POINTS["grid"] = [(float(a), 16.0 * b, 0.5) for b in range(3) for a in range(5)]


# ----------------------------------------------------------------------------
# round 3b: the same menus in other units of measurement, at other levels, as
# integers.  A configuration may carry ``cfg["transform"] = {"unit": u, "level":
# l, "dtype": t}`` (u, l scalars or one value per column): symbol p is fed as the
# row  l + u * p  (computed once, in float64; the detector and the specification
# receive the very same numbers), converted to ``dtype`` for the detector.
# Nothing in the property depends on the unit (scores are ratios of counts /
# normalised densities on data-driven supports and bandwidths) or on the level
# (PCA centres the data), so the oracle is unchanged: lock-step agreement with the
# specification, whose "no spread" guards are relative to the data's magnitude.
# ----------------------------------------------------------------------------
def _row(cfg, ev):
    p = POINTS[cfg.get("menu", cfg["dim"])][ev]
    tr = cfg.get("transform")
    if not tr:
        return p
    d = len(p)
    unit = tr.get("unit", 1.0)
    level = tr.get("level", 0.0)
    unit = list(unit) if isinstance(unit, (list, tuple)) else [unit] * d
    level = list(level) if isinstance(level, (list, tuple)) else [level] * d
    return tuple(float(level[j]) + float(unit[j]) * p[j] for j in range(d))


def _impl_scores(det):
    s = getattr(det, "_change_score", None)
    if isinstance(s, (list, tuple)):
        return s
    return None


class PCACDSystem(System):
    name = "PCACD"

    def init(self, cfg):
        p = cfg["params"]
        det = PCACD(**p)
        sc = _impl_scores(det)
        return {
            "det": det,
            "model": PCACDModel(**p),
            "base": None if sc is None else len(sc),
            "aux": {"multi": False, "drifts": 0},
        }

    def alphabet(self, cfg, state, pos):
        return list(cfg["alphabet"])

    def step(self, cfg, state, ev, pos, ctx):
        # Canonical memory layout: snapshots are deep copies, and pandas/numpy
        # arithmetic differs in the last bits between a freshly grown frame and
        # its copy.  Copying before every update makes an execution a function of
        # the event sequence alone (deepcopy is idempotent w.r.t. layout).
        det = state["det"] = copy.deepcopy(state["det"])
        p = cfg["params"]
        x = _row(cfg, ev)
        dtype = (cfg.get("transform") or {}).get("dtype", "float64")
        before = _impl_scores(det)
        n_before = None if before is None else len(before)
        seed_step(ctx.seed, cfg["id"], pos)
        exc = None
        try:
            det.update(np.array([x], dtype=dtype))
        except Exception as e:  # judged below
            exc = e
        obs = stream_obs(det)
        obs["num_pcs"] = None if det.num_pcs is None else int(det.num_pcs)
        after = _impl_scores(det)
        impl_score = None
        if after is not None and state["base"] is not None:
            obs["checks"] = len(after) - state["base"]
            if n_before is not None and len(after) == n_before + 1:
                impl_score = float(after[-1])
                obs["score"] = impl_score if impl_score != impl_score else round(impl_score, 6)

        plain = ("state", "total", "since", "num_pcs") + (("checks",) if "checks" in obs else ())

        def call(m, D):
            try:
                return m.step(x, D, impl_score)
            except Undefined as u:
                return {"undefined": u.reason}

        def agree(e):
            if "undefined" in e:
                return True
            return all(close(e[k], obs[k]) for k in plain)

        seed_step(ctx.seed, cfg["id"], pos)
        model, exp, ok = lockstep(state["model"], call, agree, stats=ctx.stats)
        state["model"] = model

        if "undefined" in exp:
            # ill-posed for the specification (see models/pcacd.py): out of scope
            ctx.count("undefined_" + exp["undefined"].split("(")[0].strip().replace(" ", "_")[:40])
            ctx.terminal = True
            obs["undefined"] = exp["undefined"]
            if exc is not None:
                obs["exception"] = type(exc).__name__
            return obs

        diag = {
            "model_last_check": model.last,
            "impl_lower": _plain(getattr(det, "lower", None)),
            "impl_upper": _plain(getattr(det, "upper", None)),
        }
        tag = "scaling" if p.get("online_scaling", True) else "noscale"
        if exc is not None:
            raise Violation(
                "PCACD-exception",
                "PCACD(%s).update raised %s: %s on sample %d (specification: state=%r)"
                % (_pstr(p), type(exc).__name__, str(exc)[:200], pos + 1, exp["state"]),
                expected={k: exp[k] for k in plain},
                observed={"exception": type(exc).__name__, "message": str(exc)[:300]},
                sig="PCACD-exception-%s-%s" % (type(exc).__name__, tag),
            )
        if exp["checked"] and impl_score is not None and not exp["score_ok"]:
            multi = exp["num_pcs"] is not None and exp["num_pcs"] > 1
            isnan = impl_score != impl_score
            raise Violation(
                "PCACD-score-nan" if isnan else "PCACD-score",
                "PCACD(%s) recorded change score %r on sample %d, specification gives %r "
                "(admissible %r, %d component(s)%s)"
                % (
                    _pstr(p),
                    impl_score,
                    pos + 1,
                    exp["score"],
                    exp["admissible"],
                    exp["num_pcs"],
                    ", test window == reference window" if exp["identical_windows"] else "",
                ),
                expected={"score": exp["score"], "admissible": exp["admissible"], **diag},
                observed=obs,
                sig="PCACD-score-%s-%s" % (p["divergence_metric"], "nan" if isnan else "multi" if multi else "single"),
            )
        if not ok:
            bad = [k for k in plain if not close(exp[k], obs[k])]
            raise Violation(
                "PCACD-spec",
                "PCACD(%s) disagrees with its specification on %s after sample %d"
                % (_pstr(p), bad, pos + 1),
                expected={k: exp.get(k) for k in plain + ("score", "checked")},
                observed={**obs, **diag},
                sig="PCACD-spec-" + "+".join(bad),
            )

        # ---- coverage counters
        aux = state["aux"]
        metric = p["divergence_metric"]
        fam = cfg.get("fam")
        if fam:
            if exp["checked"]:
                ctx.count("fam_%s_checks" % fam)
                if (impl_score if impl_score is not None else exp["score"]) > 1e-9:
                    ctx.count("fam_%s_nonzero_scores" % fam)
                if exp["num_pcs"] >= 2:
                    ctx.count("fam_%s_multi_component_checks" % fam)
            if obs["state"] == "drift":
                ctx.count("fam_%s_drifts" % fam)
                if exp["epoch"] >= 2:
                    ctx.count("fam_%s_second_epoch_drifts" % fam)
        if exp.get("exact_dropped"):
            ctx.count("exact_regime_left")  # a row off the dyadic grid: back to the tolerant edge rule
        if exp["checked"] and exp["exact_comps"]:
            # strict regime (models/pcacd.py "Exactly decidable bin edges")
            lat = "lat_" if fam and fam.startswith("lattice") else ""
            ctx.count(lat + "exact_edge_checks")
            if exp["exact_comps"] >= 2:
                ctx.count(lat + "exact_edge_checks_two_components")
            if p.get("online_scaling", True):
                ctx.count(lat + "exact_edge_checks_scaled")
            if exp["epoch"] >= 2:
                ctx.count(lat + "exact_edge_checks_second_epoch")
            if exp["edge_ties"]:
                ctx.count(lat + "exact_edge_tie_checks")
                if exp["identical_windows"]:
                    ctx.count(lat + "exact_edge_tie_identical_windows")
                elif (impl_score if impl_score is not None else exp["score"]) > 1e-9:
                    ctx.count(lat + "exact_edge_tie_nonzero_scores")
                if exp["convention_matters"]:
                    ctx.count(lat + "exact_edge_convention_sensitive_checks")
                if obs["state"] == "drift":
                    ctx.count(lat + "exact_edge_tie_drifts")
                if model.lam >= 1:
                    ctx.count(lat + "exact_edge_tie_checks_lambda1")
        if exp["phase"] == "slide":
            if not p.get("online_scaling", True):
                ctx.count("noscale_sliding_steps")
            if not exp["checked"]:
                ctx.count("step2_skipped_samples")
        if exp["checked"]:
            ctx.count("checks")
            ctx.count("checks_" + metric)
            if impl_score is None:
                ctx.count("checks_without_readable_score")
                if exp["ambiguous"]:
                    # cannot be resolved without the recorded score: stop here
                    ctx.count("ambiguous_unresolved")
                    ctx.terminal = True
            if exp["ambiguous"]:
                ctx.count("ambiguous_bin_checks")
            if exp["num_pcs"] >= 2:
                ctx.count("multi_component_checks")
                aux["multi"] = True
            if exp["num_pcs"] >= 3:
                ctx.count("three_component_checks")
            if exp["epoch"] >= 2:
                ctx.count("second_epoch_checks")
            if model.lam >= 1:
                ctx.count("lambda1_checks")
                if 0 < exp["ph_diff"] <= exp["ph_theta"]:
                    ctx.count("lambda1_positive_diff_below_threshold")
                if obs["state"] == "drift":
                    ctx.count("lambda1_drifts")
            used = impl_score if impl_score is not None else exp["score"]
            if exp["identical_windows"] and metric == "intersection" and not exp["ambiguous"]:
                # (with values on a bin edge the two windows may legitimately be
                # binned differently: batch vs. row-wise projection round differently)
                if abs(used) > 1e-9:
                    raise Violation(
                        "PCACD-identical-windows",
                        "test window equals reference window but intersection score is %r" % used,
                        expected={"score": 0.0},
                        observed=obs,
                    )
                ctx.count("zero_score_identical_windows")
                if exp["num_pcs"] >= 2:
                    ctx.count("zero_score_identical_windows_multi")
            elif used > 1e-9:
                ctx.count("nonzero_scores_" + metric)
        if exp["phase"] == "fit":
            ctx.count("fits_%dpc" % exp["num_pcs"])
        if obs["state"] == "drift":
            aux["drifts"] += 1
            ctx.mark("drift_transitions")
            if exp["epoch"] >= 2:
                ctx.count("second_epoch_drifts")
            if exp["num_pcs"] >= 2:
                ctx.count("multi_component_drifts")
        if exp["since"] == 0 and exp["total"] > 0:
            ctx.mark("rebuild_starts")
        if pos == cfg.get("len", -1) - 1:
            if aux["multi"]:
                ctx.count("multi_component_histories")
            if aux["drifts"] >= 2:
                ctx.count("histories_with_two_drifts")
        return obs


def _plain(v):
    if isinstance(v, dict):
        return {str(k): float(x) for k, x in v.items()}
    if v is None:
        return None
    try:
        return float(v)
    except Exception:
        return repr(v)


def _pstr(p):
    return "w=%d ev=%s delta=%s %s period=%s scaling=%s" % (
        p["window_size"],
        p["ev_threshold"],
        p["delta"],
        p["divergence_metric"],
        p["sample_period"],
        p.get("online_scaling", True),
    )


SYSTEMS = {"PCACD": PCACDSystem()}


# ----------------------------------------------------------------------------
# configurations
# ----------------------------------------------------------------------------
SAMPLE_PERIOD = {(3, 1): 0.34, (3, 2): 0.67, (4, 1): 0.25, (4, 2): 0.5, (5, 1): 0.2, (5, 2): 0.4}

# (dim, w) -> two scenarios (default period, alphabet).  Measured number of
# retained components of the default reference window for
# (scaled ev .6, scaled ev .99, raw ev .6, raw ev .99) in the comment.
SCENARIOS = {
    (2, 3): [((0, 1, 2), (0, 1, 2, 3)), ((0, 4, 5), (0, 1, 4, 5))],  # 1212 / 2222
    (2, 4): [((0, 1, 2, 3), (0, 1, 2, 3)), ((0, 1, 4, 5), (0, 1, 4, 5))],  # 1212 / 2222
    (2, 5): [((0, 1, 2, 3, 4), (0, 1, 2, 3, 4)), ((0, 1, 2, 4, 5), (0, 1, 2, 4, 5))],  # 1212 / 2222
    (3, 3): [((0, 1, 2), (0, 1, 2, 3)), ((0, 4, 5), (0, 3, 4, 5))],  # 1212 / 1222
    (3, 4): [((0, 1, 2, 3), (0, 1, 2, 3)), ((0, 3, 4, 5), (0, 3, 4, 5))],  # 1212 / 2323
    (3, 5): [((0, 1, 2, 3, 4), (0, 1, 2, 3, 4)), ((0, 1, 3, 4, 5), (0, 1, 3, 4, 5))],  # 1313 / 2323
}
METRICS = ("intersection", "kl")


def _all_configs():
    """Full factorial, stable ids."""
    out = []
    i = 0
    for di, dim in enumerate((2, 3)):
        for sc in (0, 1):
            for w in (3, 4, 5):
                for st in (1, 2):
                    for mi, metric in enumerate(METRICS):
                        for si, scaling in enumerate((True, False)):
                            for ei, ev in enumerate((0.6, 0.99)):
                                for dl, delta in enumerate((0.0, 0.1)):
                                    period, alpha = SCENARIOS[(dim, w)][sc]
                                    out.append(
                                        {
                                            "id": i,
                                            "dim": dim,
                                            "alphabet": list(alpha),
                                            "period": list(period),
                                            "bits": {"dim": di, "scen": sc, "step": st - 1, "metric": mi,
                                                     "scaling": si, "ev": ei, "delta": dl},
                                            "params": {
                                                "window_size": w,
                                                "ev_threshold": ev,
                                                "delta": delta,
                                                "divergence_metric": metric,
                                                "sample_period": SAMPLE_PERIOD[(w, st)],
                                                "online_scaling": scaling,
                                            },
                                        }
                                    )
                                    i += 1
    return out


def _half(c):
    return sum(c["bits"].values()) % 2 == 0


def _frac16(c):
    b = c["bits"]
    return (
        b["step"] == (b["metric"] ^ b["scaling"] ^ b["dim"])
        and b["ev"] == (b["scaling"] ^ b["dim"] ^ b["scen"])
        and b["delta"] == (b["metric"] ^ b["dim"] ^ b["scen"])
    )


def _frac32(c):
    b = c["bits"]
    return b["ev"] == (b["metric"] ^ b["scaling"] ^ b["dim"]) and b["delta"] == (b["dim"] ^ b["scen"] ^ b["step"])


def _frac8(c):
    b = c["bits"]
    return (
        b["scen"] == (b["metric"] ^ b["scaling"])
        and b["step"] == (b["metric"] ^ b["dim"])
        and b["ev"] == (b["scaling"] ^ b["dim"])
        and b["delta"] == (b["metric"] ^ b["scaling"] ^ b["dim"])
    )


def _label(c, what):
    p = c["params"]
    return "PCACD|%d|%dD w%d %s %s ev%s d%s st%d|%s" % (
        c["id"], c["dim"], p["window_size"], p["divergence_metric"][:5],
        "scal" if p["online_scaling"] else "raw", p["ev_threshold"], p["delta"],
        c["bits"]["step"] + 1, what,
    )


def _dev_tasks(c, k, periods=5, split=False, menu=None):
    """Deviation-bounded histories around the periodic default of period w."""
    w = c["params"]["window_size"]
    L = periods * w
    default = [c["period"][i % w] for i in range(L)]
    menu = list(menu if menu is not None else c["alphabet"])
    cfg = {key: c[key] for key in ("id", "dim", "alphabet", "params", "transform", "fam") if key in c}
    cfg["len"] = L
    base = {"system": "PCACD", "cfg": cfg, "mode": "dev", "default": default, "menu": menu, "validate_every": 50}
    if not split or k == 0:
        t = dict(base)
        t.update({"k": k, "label": _label(c, "dev k%d" % k), "cost": (L ** k) * (len(menu) - 1) ** k + L})
        return [t]
    out = []
    t = dict(base)
    t.update({"k": 0, "label": _label(c, "dev k%d default" % k), "cost": L})
    out.append(t)
    for p in range(L):
        for a in menu:
            if a == default[p]:
                continue
            t = dict(base)
            t.update(
                {
                    "k": k - 1,
                    "prefix": default[:p] + [a],
                    "label": _label(c, "dev k%d first@%d=%d" % (k, p, a)),
                    "cost": p + ((L - p) ** (k - 1)) * (len(menu) - 1) ** (k - 1) * (L - p) / max(1, k),
                }
            )
            out.append(t)
    return out


def _dfs_tasks(c, alphabet, split):
    """All streams of length 2w+2 over ``alphabet`` (first ``split`` symbols fixed per task)."""
    import itertools

    w = c["params"]["window_size"]
    depth = 2 * w + 2
    cfg = {key: c[key] for key in ("id", "dim", "params")}
    cfg["alphabet"] = list(alphabet)
    cfg["len"] = depth
    out = []
    for prefix in itertools.product(alphabet, repeat=split):
        out.append(
            {
                "system": "PCACD",
                "cfg": cfg,
                "prefix": list(prefix),
                "depth": depth - split,
                "validate_every": 199,
                "label": _label(c, "dfs %d^%d %s" % (len(alphabet), depth, "".join(map(str, prefix)))),
                "cost": len(alphabet) ** (depth - split),
            }
        )
    return out


def _lambda1_tasks(tier):
    """window 60 => Page-Hinkley threshold round(0.6) = 1, 7 bins, step 3: a long
    scripted history (periodic, then a shifted mix, long enough for a second
    epoch) with single deviations around the change point."""
    w = 60
    default = [0, 1, 2, 3] * 33 + [4, 5, 3, 4, 5, 0] * 16
    L = len(default)
    zone = range(128, 148) if tier == "quick" else range(124, 160)
    combos = [("intersection", True, 0.1), ("kl", False, 0.0)]
    if tier != "quick":
        combos = [(m, s, d) for m in METRICS for s in (True, False) for d in (0.0, 0.1)]
    out = []
    for j, (metric, scaling, delta) in enumerate(combos):
        cfg = {
            "id": 1000 + j,
            "dim": 2,
            "alphabet": [0, 3, 4, 5],
            "len": L,
            "params": {
                "window_size": w,
                "ev_threshold": 0.99,
                "delta": delta,
                "divergence_metric": metric,
                "sample_period": 0.05,
                "online_scaling": scaling,
            },
        }
        # split the zone over several tasks (disjoint sets of deviation positions)
        zl = list(zone)
        for part in range(4):
            mine = set(zl[part::4])
            out.append(
                {
                    "system": "PCACD",
                    "cfg": cfg,
                    "mode": "dev",
                    "default": default,
                    "menu": [[0, 3, 4, 5] if i in mine else [] for i in range(L)],
                    "menu_per_pos": True,
                    "k": 1,
                    "validate_every": 10,
                    "label": "PCACD|%d|2D w60 %s %s ev0.99 d%s st3|lambda1 dev k1 part%d"
                    % (cfg["id"], metric[:5], "scal" if scaling else "raw", delta, part),
                    "cost": 40 * len(mine) * 3 * 100,
                }
            )
    return out


def _stepcap_tasks(tier):
    """round 5: the documented check schedule is "every min(100, round(sample_period * window_size)) samples".  Every other
    family has sample_period * window_size <= 3, where the cap of 100 never binds.  Windows just above 100 with
    sample_period near 1: the product is 101 .. 108 (cap binds: step 100) or 99 (control, below the cap); scripted
    history — two windows of a periodic stream, then a shifted mix for 230 samples, so that two or three scheduled scores
    and a Page-Hinkley alarm (threshold round(0.01 w) = 1) fall inside it; no deviation in quick, single deviations around the
    first scheduled score in thorough."""
    out = []
    grid = [(104, 1.0, "intersection", False), (120, 0.9, "kl", True), (110, 0.9, "intersection", True)]
    if tier != "quick":
        grid += [(101, 1.0, "kl", False), (128, 0.8, "intersection", False), (200, 1.0, "intersection", True)]
    for j, (w, sp, metric, scaling) in enumerate(grid):
        default = ([0, 1, 2, 3] * w)[: 2 * w] + [4, 5, 3, 4, 5, 0] * 39
        L = len(default)
        cfg = {
            "id": 7000 + j, "dim": 2, "alphabet": [0, 3, 4, 5], "len": L, "fam": "stepcap",
            "params": {"window_size": w, "ev_threshold": 0.99, "delta": 0.0, "divergence_metric": metric,
                       "sample_period": sp, "online_scaling": scaling},
        }
        zone = set() if tier == "quick" else set(range(2 * w + 96, 2 * w + 104))
        out.append({
            "system": "PCACD", "cfg": cfg, "mode": "dev", "default": default,
            "menu": [[0, 3, 4, 5] if i in zone else [] for i in range(L)], "menu_per_pos": True,
            "k": 0 if tier == "quick" else 1, "validate_every": 2,
            "label": "PCACD|%d|2D w%d sp%s %s %s|stepcap" % (cfg["id"], w, sp, metric[:5], "scal" if scaling else "raw"),
            "cost": 40 * L * 100,
        })
    return out


def _twoobj_tasks(tier):
    """round 5: two PCACD objects in one process fed DIFFERENT periodic streams past their window fill (the derived Pair:
    family only reaches depth 5 on the window-3 dfs tasks, where neither instance finishes its 2w-sample fill).  Scripted
    pair histories through mc.pairs.Pair: instance a is fed a stream of period w (its test window always equals its
    reference window: every score must be 0), instance b another point cycle; schedules alt (strict alternation) and blocks
    (a runs ahead, b catches up, a goes on); both orders; each instance judged by its own model exactly as alone."""
    out = []
    cycles = {3: ([0, 1, 2], [3, 1, 2]), 4: ([0, 1, 2, 3], [3, 3, 1, 0])}
    j = 0
    for w, metric, scaling, ev in ((3, "intersection", False, 0.99), (3, "intersection", True, 0.6), (4, "intersection", False, 0.99),
                                   (3, "kl", False, 0.99)):
        base = {"dim": 2, "alphabet": [0, 1, 2, 3], "fam": "twoobj",
                "params": {"window_size": w, "ev_threshold": ev, "delta": 0.0, "divergence_metric": metric,
                           "sample_period": 0.34 if w == 3 else 0.25, "online_scaling": scaling}}
        ca, cb = cycles[w]
        reps = 7 if tier == "quick" else 11
        for first, second in ((ca, cb), (cb, ca)):
            sa, sb = first * reps, second * reps
            for sched in ("alt",):  # equal-length scripts: strict alternation consumes both exactly (one execution per task)
                depth = len(sa) + len(sb)
                cfg = {"id": "twoobj-%d-%s" % (j, sched), "a": dict(base, id=7100 + j, len=len(sa)),
                       "b": dict(base, id="%d~b" % (7100 + j), len=len(sb)), "sched": sched, "script": [sa, sb],
                       "h": 2 * w + 2, "hb": 2 * w + 3}
                out.append({"system": "Pair:PCACD", "cfg": cfg, "prefix": [], "depth": depth, "pair": True, "validate_every": 2,
                            "label": "Pair:PCACD|twoobj|w%d %s %s|%s|%d" % (w, metric[:5], "scal" if scaling else "raw", sched, j),
                            "cost": 40 * depth})
            j += 1
    return out


def _sym_tasks(tier):
    """Mirror-symmetric menu (bin-edge ties, sign decided by rounding)."""
    out = []
    i = 2000
    for w in (4, 5):
        for metric in METRICS:
            for scaling in (True, False):
                c = {
                    "id": i,
                    "dim": 2,
                    "alphabet": [0, 1, 2, 3] if w == 4 else [0, 1, 2, 3, 4],
                    "period": [0, 1, 2, 3] if w == 4 else [0, 1, 2, 3, 4],
                    "bits": {"step": 0},
                    "params": {
                        "window_size": w,
                        "ev_threshold": 0.99,
                        "delta": 0.1 if scaling else 0.0,
                        "divergence_metric": metric,
                        "sample_period": SAMPLE_PERIOD[(w, 1)],
                        "online_scaling": scaling,
                    },
                }
                i += 1
                k = 2 if (tier != "quick" and w == 4) else 1
                for t in _dev_tasks(c, k, split=k > 1):
                    t["cfg"]["menu"] = "2sym"
                    t["label"] = t["label"].replace("|2D", "|2Dsym")
                    out.append(t)
    return out


# ----------------------------------------------------------------------------
# round 3b families: unit of measurement, mixed units, level, integer dtype
# ----------------------------------------------------------------------------
# Units explored with online_scaling=False (the raw data reach the projection, the
# histogram supports and the kernel bandwidth) ...
UNITS_SMALL = [1e-12, 1e-9, 1e-6, 2.0 ** -16, 1e-4, 1e-3, 1e-2]
UNITS_LARGE = [1e2, 1e3, 2.0 ** 16, 1e6, 1e9, 1e12]
# ... and with online_scaling=True (the unit must be removed by the scaler)
UNITS_SCALED = [1e-12, 1e-6, 1e-3, 1e3, 1e6, 1e12]
# one unit per column (first ``dim`` entries are used)
MIXED = {
    "A": (1e-3, 1e3, 1.0),
    "B": (1e6, 1e-6, 1.0),
    "C": (0.25, 8.0, 1.0),
}
# offsets added to every row (dyadic, so that the rows stay exactly representable).
# 2^16 keeps the float error of a correct implementation (level * 2^-52 * a few
# operations ~ 1e-10 of the spread) an order of magnitude below the bin-edge / score
# tolerance 1e-9 of the specification; larger levels would need looser tolerances.
LEVELS = {
    "p1024": 1024.0,
    "m65536": -65536.0,
    "cols": (65536.0, -1024.0, 0.5),
}


def _ustr(u):
    return "%g" % u


def _pick(index, dim, scen, w, step, metric, scaling, ev, delta):
    return index[(dim % 2, scen % 2, w, step % 2, metric, scaling, ev % 2, delta % 2)]


W9_PERIOD = (0, 1, 2, 3, 4, 5, 0, 2, 4)  # components retained (scaled .6/.99, raw .6/.99): 2-D 1212, 3-D 1323
W9_ALPHABET = (0, 2, 3, 5)


def _w9_task(cid, fam, tag, transform, u, si, quick):
    """Intersection metric on window 9 = 3 bins (windows 3..5 have one or two bins: a
    two-bin histogram cannot see a support that is wrong symmetrically, a one-bin
    histogram sees nothing).  Periodic default over 5 periods; single deviations
    (every other symbol of the alphabet) at one position of the reference window,
    one of the first test window and every position of the third period (the
    first 9 sliding updates) -- quick; at every position -- thorough."""
    w = 9
    L = 5 * w
    step = 1 + (u + si) % 2
    cfg = {
        "id": cid,
        "dim": 2 + u % 2,
        "alphabet": list(W9_ALPHABET),
        "len": L,
        "transform": transform,
        "fam": fam,
        "params": {
            "window_size": w,
            "ev_threshold": (0.6, 0.99)[(u // 2 + si + 1) % 2],
            "delta": (0.0, 0.1)[(u + 1) % 2],
            "divergence_metric": "intersection",
            "sample_period": {1: 0.12, 2: 0.2}[step],
            "online_scaling": si == 0,
        },
    }
    zone = set(range(L)) if not quick else ({3, w + 3} | set(range(2 * w, 3 * w)))
    default = [W9_PERIOD[i % w] for i in range(L)]
    menu = [list(W9_ALPHABET) if i in zone else [] for i in range(L)]
    c = {"id": cid, "dim": cfg["dim"], "params": cfg["params"], "bits": {"step": step - 1}}
    return {
        "system": "PCACD",
        "cfg": cfg,
        "mode": "dev",
        "default": default,
        "menu": menu,
        "menu_per_pos": True,
        "k": 1,
        "validate_every": 50,
        "label": _label(c, "%s %s dev k1" % (fam, tag)),
        "cost": L + sum(3 * (L - i) for i in zone),
    }


def _family_tasks(tier, allc):
    """Extra deviation-bounded tasks (k = 1, the periodic default over 5 periods,
    every position x every other symbol of the alphabet) on configurations taken
    from the factorial: for every value of the family parameter both metrics x
    scaling on/off as stated, the remaining factors (dimension, scenario, step,
    ev_threshold, delta, window) rotate with the parameter's index.  The
    intersection metric uses window 9 (three bins, see _w9_task), 'kl' alternates
    windows 3 and 4 (quick) / 4 and 5 (thorough)."""
    q = tier == "quick"
    index = {}
    for c in allc:
        b = c["bits"]
        index[(b["dim"], b["scen"], c["params"]["window_size"], b["step"], b["metric"], b["scaling"],
               b["ev"], b["delta"])] = c
    out = []
    nid = [3000]

    def add(fam, tag, transform, u, mi, si):
        # mi: 0 intersection / 1 kl; si: 0 scaling on / 1 off (bits of _all_configs)
        if mi == 0:
            out.append(_w9_task(nid[0], fam, tag, transform, u, si, q))
            nid[0] += 1
            return
        w = ((3, 4) if q else (4, 5))[(u + si) % 2]
        base = _pick(index, u + mi, u // 2 + si, w, u + si + 1, mi, si, u // 2 + mi + si, u + mi + 1)
        c = dict(base)
        c["id"] = nid[0]
        nid[0] += 1
        c["transform"] = transform
        c["fam"] = fam
        for t in _dev_tasks(c, 1):
            t["label"] = t["label"].replace("|dev k1", "|%s %s dev k1" % (fam, tag))
            out.append(t)

    for u, unit in enumerate(UNITS_SMALL):
        for mi in (0, 1):
            add("unit_small", "x" + _ustr(unit), {"unit": unit}, u, mi, 1)
    for u, unit in enumerate(UNITS_LARGE):
        for mi in (0, 1):
            add("unit_large", "x" + _ustr(unit), {"unit": unit}, u, mi, 1)
    for u, unit in enumerate(UNITS_SCALED if q else UNITS_SMALL + UNITS_LARGE):
        for mi in (0, 1):
            add("unit_small" if unit < 1 else "unit_large", "x" + _ustr(unit), {"unit": unit}, u, mi, 0)
    for u, (name, units) in enumerate(sorted(MIXED.items())):
        for mi in (0, 1):
            for si in (0, 1):
                if q and name == "B" and si == 1:
                    continue  # raw data: like A, one column dominates (thorough only)
                if q and name == "C" and si == 0:
                    continue  # mild mix, removed by the scaler like A and B (thorough only)
                add("mixed_units", name, {"unit": list(units)}, u + mi, mi, si)
    for u, (name, level) in enumerate(sorted(LEVELS.items())):
        for mi in (0, 1):
            for si in (0, 1):
                if q and (u + mi + si) % 3 == 2:
                    continue
                add("level", name, {"level": list(level) if isinstance(level, tuple) else level}, u + si, mi, si)
    # integer rows: the menus times 4 are integers; fed as int64 arrays
    for mi in (0, 1):
        for si in (0, 1):
            add("int64", "x4", {"unit": 4.0, "dtype": "int64"}, mi + si, mi, si)
    return out


def _long_family_tasks(tier):
    """window 60 (7 bins, Page-Hinkley threshold 1, sklearn's covariance solver):
    the scripted 228-sample history of the lambda1 family, without deviations, in
    other units / at another level / as integers."""
    default = [0, 1, 2, 3] * 33 + [4, 5, 3, 4, 5, 0] * 16
    variants = [
        ("unit_small", "x1e-06", {"unit": 1e-6}),
        ("unit_large", "x1e+06", {"unit": 1e6}),
        ("level", "m65536", {"level": -65536.0}),
        ("int64", "x4", {"unit": 4.0, "dtype": "int64"}),
        ("unit_small", "x1e-12", {"unit": 1e-12}),
        ("unit_large", "x1e+12", {"unit": 1e12}),
        ("mixed_units", "A", {"unit": list(MIXED["A"])}),
        ("level", "cols", {"level": list(LEVELS["cols"])}),
    ]
    if tier == "quick":
        variants = variants[:4]
    out = []
    i = 4000
    for v, (fam, tag, transform) in enumerate(variants):
        for mi, metric in enumerate(METRICS):
            for si, scaling in enumerate((True, False)):
                i += 1
                if tier == "quick" and (v + mi + si) % 2 == 1:
                    continue
                cfg = {
                    "id": i,
                    "dim": 2,
                    "alphabet": [0, 3, 4, 5],
                    "len": len(default),
                    "transform": transform,
                    "fam": fam,
                    "params": {
                        "window_size": 60,
                        "ev_threshold": 0.99,
                        "delta": 0.1 if (v + mi) % 2 else 0.0,
                        "divergence_metric": metric,
                        "sample_period": 0.05,
                        "online_scaling": scaling,
                    },
                }
                out.append(
                    {
                        "system": "PCACD",
                        "cfg": cfg,
                        "mode": "dev",
                        "default": default,
                        "menu": [0, 3, 4, 5],
                        "k": 0,
                        "validate_every": 1,
                        "label": "PCACD|%d|2D w60 %s %s ev0.99 d%s st3|%s %s long k0"
                        % (i, metric[:5], "scal" if scaling else "raw", cfg["params"]["delta"], fam, tag),
                        "cost": 40 * 300,
                    }
                )
    return out

# ----------------------------------------------------------------------------
# round 4 families: readings exactly on interior bin edges (lattice data)
# ----------------------------------------------------------------------------
def _spread(levels, stride):
    """Deterministic interleaving of a sorted window (stride coprime with its length)."""
    w = len(levels)
    return [levels[(i * stride) % w] for i in range(w)]


def _levels(counts):
    return [k for k, c in enumerate(counts) for _ in range(c)]


# online_scaling=False: window mean dyadic, (max - min) / bins dyadic => projection = reading - mean, every
# interior edge is a reading (or half-way between two), counts per level 0..8 below
LAT_RAW = {
    4: _spread(_levels([1, 0, 0, 0, 2, 0, 0, 0, 1]), 1),  # 2 bins, edge at level 4
    9: _spread(_levels([2, 0, 2, 1, 2, 0, 2, 0, 0]), 2),  # 3 bins over 0..6, edges at levels 2 and 4
    16: _spread(_levels([2, 0, 3, 1, 4, 1, 3, 0, 2]), 5),  # 4 bins, edges at levels 2, 4, 6
    25: _spread(_levels([6, 5, 5, 3, 4, 2, 0, 0, 0]), 7),  # 5 bins over 0..5, edges at levels 1..4
    64: _spread(_levels([16, 4, 4, 4, 8, 4, 4, 4, 16]), 27),  # 8 bins, every level is an edge
}
# online_scaling=True: additionally the standard deviation of the window is a power of two (2 here)
LAT_SCALED = {
    8: _spread(_levels([1, 0, 0, 0, 6, 0, 0, 0, 1]), 3),  # standardised -2, 0, 2; 2 bins, edge at 0
    16: _spread(_levels([1, 0, 4, 0, 6, 0, 4, 0, 1]), 5),  # standardised -2..2 in steps of 1; 4 bins
    64: _spread(_levels([4, 4, 4, 12, 16, 12, 4, 4, 4]), 27),  # standardised -2..2 in steps of 1/2; 8 bins
}
# two uncorrelated readings (a in 0..4, 16 b in {0, 16, 32}): the full 5 x 3 grid four times + four times its
# centre: covariance exactly diagonal, two retained components (ev 0.99), both on exact edges
LAT_GRID64 = _spread(sorted([a + 5 * b for b in range(3) for a in range(5)] * 4 + [7] * 4), 27)
LAT_STEP = {4: (0.25, 0.5), 8: (0.13, 0.25), 9: (0.12, 0.2), 16: (0.07, 0.13), 25: (0.04, 0.08), 64: (0.02, 0.05)}
# dyadic units / levels (the lattice stays a lattice) and integer rows
LAT_TRANSFORMS = [
    ("x2^-10", {"unit": 2.0 ** -10}),
    ("x1024-65536", {"unit": 1024.0, "level": -65536.0}),
    ("cols", {"unit": [0.25, 8.0, 2.0], "level": [1024.0, -0.5, 3.0]}),
    ("int64x2", {"unit": 2.0, "dtype": "int64"}),
]


def _lattice_cfg(cid, fam, menu, w, scaling, stepi, ev, delta, alphabet, L, transform=None):
    cfg = {
        "id": cid,
        "dim": len(POINTS[menu][0]),
        "menu": menu,
        "alphabet": list(alphabet),
        "len": L,
        "fam": fam,
        "params": {
            "window_size": w,
            "ev_threshold": ev,
            "delta": delta,
            "divergence_metric": "intersection",
            "sample_period": LAT_STEP[w][stepi],
            "online_scaling": scaling,
        },
    }
    if transform:
        cfg["transform"] = transform
    return cfg


def _lattice_label(cfg, what):
    p = cfg["params"]
    return "PCACD|%d|%s w%d inter %s ev%s d%s sp%s|%s %s" % (
        cfg["id"], cfg["menu"], p["window_size"], "scal" if p["online_scaling"] else "raw",
        p["ev_threshold"], p["delta"], p["sample_period"], cfg["fam"], what)


def _lattice_dev(cfg, default, zone, k, what, parts=1):
    """k deviations at positions of ``zone`` (every other alphabet symbol); split over ``parts`` tasks by the
    position of the first deviation when k == 1."""
    L = len(default)
    zone = sorted(zone)
    out = []
    for part in range(parts):
        mine = set(zone[part::parts]) if k == 1 else set(zone)
        out.append({
            "system": "PCACD",
            "cfg": cfg,
            "mode": "dev",
            "default": list(default),
            "menu": [list(cfg["alphabet"]) if i in mine else [] for i in range(L)],
            "menu_per_pos": True,
            "k": k,
            "validate_every": 25,
            "label": _lattice_label(cfg, "%s k%d%s" % (what, k, " part%d" % part if parts > 1 else "")),
            "cost": L + (sum(L - i for i in mine) * (len(cfg["alphabet"]) - 1)) ** k,
        })
        if k != 1:
            break
    return out


def _lattice_tasks(tier):
    """Readings that sit *exactly* on interior bin edges, in both windows (models/pcacd.py "Exactly decidable
    bin edges": the two histograms must then count them on the same side).  Default = the periodic stream (test
    window == reference window at every check: score exactly 0, although most readings are on edges), deviations
    move single readings onto / off / across edges; window 64 additionally has a scripted level shift (Page-Hinkley
    threshold 1) and a second epoch."""
    q = tier == "quick"
    out = []
    cid = 5000
    alpha = [0, 2, 3, 4, 6, 8]

    # -- one quantised reading next to constant columns, small windows (Page-Hinkley threshold 0)
    small = [("lattice_raw", "lat2", w, False) for w in (4, 9, 16, 25)]
    small += [("lattice_raw", "lat3", w, False) for w in (9, 16)]
    small += [("lattice_scaled", "lat2", w, True) for w in (8, 16)]
    for n, (fam, menu, w, scaling) in enumerate(small):
        period = (LAT_SCALED if scaling else LAT_RAW)[w]
        a = [s for s in alpha if s <= max(period) + 2]
        L = 5 * w
        default = [period[i % w] for i in range(L)]
        for stepi in (0, 1):
            cid += 1
            if q and (w == 25 or ((w >= 16 or menu == "lat3") and stepi != n % 2)):
                continue
            cfg = _lattice_cfg(cid, fam, menu, w, scaling, stepi, (0.99, 0.6)[(n + stepi) % 2],
                               (0.0, 0.1)[(n // 2 + stepi) % 2], a, L)
            if w <= 9 and not q:
                out += _lattice_dev(cfg, default, range(L), 2, "dev")
            else:
                zone = range(L) if (w <= 9 or not q) else sorted({1, w // 2, w + 2} | set(range(2 * w, 3 * w + 2)))
                out += _lattice_dev(cfg, default, zone, 1, "dev", parts=2 if w >= 16 else 1)

    # -- the same in dyadic units / at dyadic levels / as integers (window 16: 4 bins)
    for n, (tag, transform) in enumerate(LAT_TRANSFORMS):
        for scaling in (False, True):
            cid += 1
            if transform.get("dtype") and scaling and q:
                continue
            w = 16
            menu = "lat3" if (tag == "cols" and not scaling) else "lat2"
            period = (LAT_SCALED if scaling else LAT_RAW)[w]
            L = 5 * w
            default = [period[i % w] for i in range(L)]
            tr = dict(transform)
            d = len(POINTS[menu][0])
            for key in ("unit", "level"):
                if isinstance(tr.get(key), list):
                    tr[key] = tr[key][:d] if d == 3 else tr[key][:2]
            cfg = _lattice_cfg(cid, "lattice_units", menu, w, scaling, n % 2, 0.99, (0.0, 0.1)[n % 2], alpha, L, tr)
            zone = range(L) if not q else sorted({1, w + 2} | set(range(2 * w, 3 * w, 2)))
            out += _lattice_dev(cfg, default, zone, 1, tag + " dev")

    # -- window 64: 8 bins, Page-Hinkley threshold 1, sklearn's covariance solver; scripted level shift after
    #    5 periods (part of the mass crosses one edge), single deviations around the windows' boundaries
    long = [
        ("lattice_raw", "lat2", False, LAT_RAW[64], {0: 1}, [0, 1, 4, 8], 0.99),
        ("lattice_scaled", "lat2", True, LAT_SCALED[64], {0: 1, 8: 7, 4: 5}, [0, 1, 4, 8], 0.99),
        ("lattice_scaled", "lat3", True, LAT_SCALED[64], {0: 1, 8: 7, 4: 5}, [0, 3, 5, 8], 0.6),
        ("lattice_grid", "grid", False, LAT_GRID64, {a: a + 5 for a in range(5)}, [0, 6, 7, 14], 0.99),
        ("lattice_grid", "grid", False, LAT_GRID64, {a + 5 * b: min(a + 1, 4) + 5 * b for a in range(5) for b in range(3)},
         [0, 6, 7, 14], 0.99),
        ("lattice_grid", "grid", False, LAT_GRID64, {a: a + 5 for a in range(5)}, [0, 6, 7, 14], 0.6),
    ]
    w = 64
    for n, (fam, menu, scaling, period, shift, a, ev) in enumerate(long):
        default = period * 5 + [shift.get(s, s) for s in period] * 4
        L = len(default)
        for stepi in (0, 1):
            cid += 1
            if q and (stepi != (n + 1) % 2 or n in (2, 5)):
                continue
            cfg = _lattice_cfg(cid, fam, menu, w, scaling, stepi, ev, (0.1, 0.0)[n % 2], a, L)
            if fam == "lattice_grid":
                zone = [70, 130, 131, 190, 321, 322, 323, 340, 380]  # reference window kept: covariance stays diagonal
            else:
                zone = [5, 70, 130, 131, 190, 321, 322, 323, 340, 380]
            if not q:
                zone = sorted(set(zone) | set(range(128, 140)) | set(range(316, 332)))
            out += _lattice_dev(cfg, default, zone, 1, "shift dev", parts=2 if q else 4)
    return out


def tasks(tier, seed):
    allc = _all_configs()
    W = lambda c: c["params"]["window_size"]  # noqa: E731
    out = []
    if tier == "quick":
        for c in allc:
            if _half(c):
                out += _dev_tasks(c, 1)
            if W(c) == 4 and _frac16(c):
                out += _dev_tasks(c, 2, split=True)
        for c in allc:
            if W(c) == 3 and _frac8(c) and c["bits"]["step"] == 0:
                out += _dfs_tasks(c, c["alphabet"][:3], split=1)
    else:
        for c in allc:
            out += _dev_tasks(c, 1)
            if W(c) == 3:
                out += _dev_tasks(c, 2, split=True)
            if W(c) == 4 and _half(c):
                out += _dev_tasks(c, 2, split=True)
            if W(c) == 5 and _frac32(c):
                out += _dev_tasks(c, 2, split=True, menu=c["alphabet"][:4])
            if W(c) == 3 and _frac16(c):
                out += _dev_tasks(c, 3, split=True)
            if W(c) == 4 and _frac8(c) and c["bits"]["dim"] == c["bits"]["metric"]:
                out += _dev_tasks(c, 3, split=True)
        for c in allc:
            if W(c) == 3 and _frac8(c):
                out += _dfs_tasks(c, c["alphabet"], split=2)
    out += _lambda1_tasks(tier)
    out += _stepcap_tasks(tier)
    out += _twoobj_tasks(tier)
    out += _sym_tasks(tier)
    out += _family_tasks(tier, allc)
    out += _long_family_tasks(tier)
    out += _lattice_tasks(tier)
    return out


REQUIRED = [
    "fam_stepcap_checks",
    "drift_transitions",
    "second_epoch_drifts",
    "multi_component_histories",
    "multi_component_checks",
    "three_component_checks",
    "zero_score_identical_windows",
    "zero_score_identical_windows_multi",
    "nonzero_scores_intersection",
    "nonzero_scores_kl",
    "noscale_sliding_steps",
    "step2_skipped_samples",
    "histories_with_two_drifts",
    "exact_ties",
    "lambda1_drifts",
    "lambda1_positive_diff_below_threshold",
    "ambiguous_bin_checks",
] + [
    # round 3b families (PCACD draws no random numbers: none of these depends on VERIF_SEED)
    "fam_%s_%s" % (fam, what)
    for fam in ("unit_small", "unit_large", "mixed_units", "level", "int64")
    for what in ("checks", "nonzero_scores", "multi_component_checks", "drifts")
] + [
    # round 4 lattice families (readings exactly on interior bin edges, strict same-side oracle)
    "lat_exact_edge_checks",
    "lat_exact_edge_checks_two_components",
    "lat_exact_edge_checks_scaled",
    "lat_exact_edge_checks_second_epoch",
    "lat_exact_edge_tie_checks",
    "lat_exact_edge_tie_identical_windows",
    "lat_exact_edge_tie_nonzero_scores",
    "lat_exact_edge_convention_sensitive_checks",
    "lat_exact_edge_tie_drifts",
    "lat_exact_edge_tie_checks_lambda1",
] + [
    "fam_%s_%s" % (fam, what)
    for fam in ("lattice_raw", "lattice_scaled", "lattice_grid", "lattice_units")
    for what in ("checks", "nonzero_scores", "drifts")
]

TIME_BUDGET = {"quick": 2400, "thorough": 14400}


def describe(tier):
    q = tier == "quick"
    return {
        "rule": "streams of menu points fed row by row to the real PCACD next to the executable specification "
        "(models/pcacd.py); (1) deviation-bounded histories: the periodic stream of period window_size over "
        "5 periods (test window == reference window at every check) with every choice of <= k positions replaced "
        "by every other menu symbol, run to completion with prefix sharing; (2) every stream of length 2w+2 over "
        "the alphabet for w = 3; (3) window 60 (Page-Hinkley threshold 1): a scripted 228-sample history with a "
        "change point and every single deviation in a zone around it; (4) the same menus in other units of "
        "measurement (row = level + unit * point, one unit for all columns or one per column), at other levels and "
        "as int64 rows: deviation-bounded histories (k = 1) and the scripted window-60 history, same oracle "
        "(the specification is evaluated on the very same rows; nothing in it is an absolute magnitude); "
        "(5) lattice data: a quantised reading (levels 0..8) next to constant columns, or two uncorrelated quantised "
        "readings, with windows whose mean (and, with online scaling, power-of-two standard deviation) make every "
        "projection and every bin edge exact in binary64, so that most readings sit exactly on interior bin edges: "
        "periodic default (test window == reference window: score exactly 0) with single deviations, window 64 with a "
        "scripted level shift; there the recorded score must be the score of ONE consistent edge convention applied "
        "to both histograms (left-closed as numpy, or right-closed); "
        "a history is non-trivial when at least one "
        "update reported drift or started a rebuild; histories are distinct event sequences or configurations",
        "bounds": {
            "points": {str(k): v for k, v in POINTS.items()},
            "configurations": "dim {2,3} x 2 scenarios (default period, alphabet of 4-5 symbols) x window_size {3,4,5} x "
            "step {1,2} (sample_period) x divergence_metric {intersection, kl} x online_scaling {on, off} x "
            "ev_threshold {0.6, 0.99} x delta {0, 0.1}: 384 configurations",
            "deviation_k1": "half fraction (192 configurations), L = 5w" if q else "all 384 configurations, L = 5w",
            "deviation_k2": "w=4: 16-run resolution-IV fraction" if q
            else "w=3: all 128 configurations; w=4: half fraction (64); w=5: 32-run fraction (3 alternatives per position)",
            "deviation_k3": "none" if q else "w=3: 16-run fraction; w=4: 4 configurations",
            "dfs": "3^8 streams (w=3) for 4 configurations" if q else "4^8 streams (w=3) for 8 configurations",
            "lambda1": "w=60, 2 configurations, single deviations at 20 positions x 3 symbols" if q
            else "w=60, 8 configurations (metric x scaling x delta), single deviations at 36 positions x 3 symbols",
            "symmetric_menu": "8 configurations, k=1" if q else "8 configurations, k=2 (w=4) / k=1 (w=5)",
            "family_unit": "online_scaling off: units %s and %s; online_scaling on: units %s; each x {intersection, kl}; "
            "dimension, scenario, step, ev_threshold, delta rotate with the unit's index"
            % (
                [_ustr(u) for u in UNITS_SMALL],
                [_ustr(u) for u in UNITS_LARGE],
                [_ustr(u) for u in (UNITS_SCALED if q else UNITS_SMALL + UNITS_LARGE)],
            ),
            "family_mixed_units": "per-column units %s x {intersection, kl}%s"
            % ({k: list(v) for k, v in sorted(MIXED.items())},
               " (A: scaling on/off, B: on, C: off)" if q else " x scaling on/off"),
            "family_level": "offsets %s x {intersection, kl} x scaling on/off%s"
            % ({k: (list(v) if isinstance(v, tuple) else v) for k, v in sorted(LEVELS.items())},
               " (8 of the 12 combinations)" if q else ""),
            "family_int64": "points x 4 fed as int64 arrays x {intersection, kl} x scaling on/off",
            "family_histories": "kl: window %s, L = 5w, k = 1 over every position and every other alphabet symbol; "
            "intersection: window 9 (3 bins), period %s, alphabet %s, L = 45, k = 1 over %s"
            % ("3/4" if q else "4/5", list(W9_PERIOD), list(W9_ALPHABET),
               "positions 3, 12 and 18..26" if q else "every position"),
            "family_lattice": "intersection metric only; menus lat2 (reading, const), lat3 (const, reading, const), grid "
            "(reading a, reading 16 b, const); raw windows %s, scaled windows %s (level counts 0..8: see LAT_RAW / "
            "LAT_SCALED), step 1 and 2 (window 64: 1 and 3), ev_threshold and delta rotate; L = 5w, k = 1 over %s; dyadic "
            "units / levels / int64 (%s) on window 16, raw and scaled; window 64 (8 bins, Page-Hinkley threshold 1): 5 "
            "periods + 4 shifted periods (576 samples), single deviations at %s: lat2 raw, lat2 scaled, %sgrid raw with "
            "two retained components (shift in either reading)%s"
            % (
                "4, 9, 16 (lat2, lat3)" if q else "4, 9, 16, 25 (lat2), 9, 16 (lat3)",
                "8, 16 (lat2)",
                "every position (w <= 9) / 3 positions + the first w+2 sliding updates (w = 16)" if q
                else "every position (k = 2 for w <= 9)",
                [t for t, _ in LAT_TRANSFORMS],
                "9-10 positions around the window boundaries and the shift" if q else "38 positions",
                "" if q else "lat3 scaled (ev 0.6), ",
                "" if q else " and with one retained component (ev 0.6)",
            ),
            "family_twoobj": "round 5: two PCACD objects in one process (system Pair:PCACD through mc/pairs.py with scripted histories): "
                             "instance a is fed a stream of period w (every score must be 0), instance b another point cycle, strict "
                             "alternation, both orders, 7 (thorough 11) periods each, windows 3 and 4, intersection raw / scaled and kl; each "
                             "instance judged by its own model exactly as alone (one execution per task, 8 tasks)",
            "family_stepcap": "round 5: windows 104 / 120 / 110 (thorough also 101 / 128 / 200) with sample_period 1.0 / 0.9 / 0.8 — "
                              "sample_period * window_size just above (cap of 100 binds) and just below 100 — scripted histories of "
                              "2w + 234 samples (two or three scheduled scores each), no deviation in quick, every single replacement "
                              "around the first scheduled score in thorough",
            "family_long": "window 60 scripted history (228 samples, no deviation): %s"
            % ("unit 1e-6, unit 1e6, level -65536, int64: 2 of the 4 metric x scaling combinations each" if q
               else "units 1e-12, 1e-6, 1e6, 1e12, mixed units A, levels -65536 and per-column, int64: "
               "metric x scaling"),
        },
        "explanation": "states = tree nodes (the score history grows, no transposition merging); "
        "traces_validated_against_impl = maximal executions on which the real detector and the specification were "
        "compared after every update (drift_state, total_samples, samples_since_reset, num_pcs, number of scores "
        "recorded, and the recorded score against the set of admissible specified scores)",
        "assumptions": [
            "sklearn PCA(n_components=ev_threshold) fitted on the (standardised) reference window is trusted; "
            "reference windows whose components are not numerically identifiable (no variance, equal eigenvalues, "
            "cumulative explained variance within 1e-9 of ev_threshold) are outside the specification and close "
            "the branch (counted as undefined_*)",
            "'kl' is the Jensen-Shannon distance between the two vectors of Epanechnikov-KDE values, each evaluated "
            "at its own window's points, bandwidth 1.06*s*n^(-1/5) (DESIGN 2.5); a projected window without spread "
            "(zero bandwidth) is outside the specification",
            "a constant column of the reference window is left unscaled by online scaling (it has no loading on any "
            "retained component)",
            "check schedule: a score is computed on sliding updates with (total_samples - 1) mod step == 0 (DESIGN 4 C11)",
            "values within 1e-9 of an interior bin edge may fall on either side (set of admissible scores; this also "
            "makes the oracle independent of the sign sklearn gives a component); the recorded score, once found "
            "admissible, is the value fed to the specification's Page-Hinkley recurrence (exact rationals); alarm "
            "comparisons within 1e-9 absolute are numerically undecidable and follow the implementation "
            "(near_tie_steered); exact zeros produced by min <- sum are enforced strictly",
            "the detector is deep-copied before every update so that snapshot exploration and fresh execution see "
            "the same memory layout (pandas/numpy results differ in the last bits between a grown frame and its copy)",
            "window_size <= 50 gives Page-Hinkley threshold 0; threshold 1 is exercised with window_size 60 and 64 only",
            "lattice families: the strict same-side rule is applied only where the specification has verified in "
            "rational arithmetic that the retained component is a signed unit vector and that all values, means, "
            "standardised values, projections and bin edges lie on one dyadic grid of at most 40 bits (counted in "
            "lat_exact_edge_*); otherwise (sklearn's SVD returns 0.9999999999999998 for some small windows, a deviation "
            "in the reference window makes its mean non-dyadic or the covariance non-diagonal, two standardised "
            "uncorrelated readings have equal eigenvalues) the tolerant rule applies, and a window with more than 64 "
            "admissible count vectors (many values within 1e-9 of edges that are not exactly decidable) is outside the "
            "specification and closes the branch (undefined_too_many_values_*); 'kl' is not affected by bin edges "
            "and has no lattice family",
            "unit / level families: 'no spread', 'no variance' and 'constant column' in the specification mean below "
            "1e-9 of the magnitude of the data fed to the PCA, never an absolute number; score, bin-edge and "
            "Page-Hinkley tolerances are unchanged (scores are unit-free); levels are limited to 2^16 so that the "
            "float error of a correct implementation (level * 2^-52 * a few operations, relative to a spread of "
            "order 1) stays an order of magnitude below those tolerances; units 1e-12 .. 1e12 only (no "
            "underflow / overflow of variances); float32 rows are not explored (sklearn then computes the PCA in "
            "single precision, whose error of ~1e-7 is above the oracle's tolerance)",
        ],
    }
