"""C06 — Linear Four Rates tracks the four rates and tests them against simulated bounds.

Explored (DESIGN §4 C06): every sequence over the four confusion cells up to a
depth, for a grid of (time_decay_factor, levels, burn_in, subsample, round_val)
and for all 15 non-empty ``rates_tracked`` subsets, plus deviation-bounded long
histories (L = 20, <= k deviations) around stationary and switching default
streams.  Oracle: lock-step agreement with the executable specification
``models/lfr.py`` on drift_state, retraining_recs, counters and
all_drift_states after every update.  Both sides consume numpy's global RNG
from the same per-step seed (§2.3), so the Monte-Carlo bounds are the same
function of the same draws; what is decided is "the bounds are the stated
percentiles of the stated draws and the state follows them".

A second family of runs (``band``) is a deterministic cross-check of the
quantile orientation that does not depend on the draw protocol: with
num_mc = 4000 the bounds used by the model (and, if the private cache is
readable, by the detector) must lie inside the DKW band of the *exact*
distribution of the statistic (2^N outcomes, N <= 12).

Round 3b, long epochs (``long`` / ``xlong`` / ``epochs`` families): an event
may be a run-length block ``[pattern, n]``; histories are hundreds to tens of
thousands of samples of one epoch (rates of 350/352 ... 35000/35002, whose
last step is 1e-5 ... 1e-9 of the rate) followed by a window in which every
choice of <= k deviations is explored, and histories with dozens of resets.
Besides the public observables the statistic of every tracked rate is read
from the detector's private table when that is possible (sharpening).

Round 4, underflow (``uflow`` / ``edge-eta`` families): epochs so long -- or decay
factors so small -- that eta^N is a subnormal double or 0.0 (N beyond 1023 / 1075
at eta 0.5, 6724 / 7073 at the default 0.9, 308 / 324 at 0.1), where an
algebraically equal evaluation of the weights eta^(N-i) through eta^N or eta^-i
yields 0, inf or NaN; ladders of epoch lengths around those thresholds for every
rate and six decay factors, and the ends 0 and 1 of the documented range of the
decay factor.  Besides the decisions, the bounds the detector caches are compared
with the stated percentiles of the stated draws whenever the private cache is
readable (``LFR-bounds-value``, all families).
"""
import copy
import itertools
from fractions import Fraction

from menelaus.concept_drift import LinearFourRates

from mc import rng
from mc.explorer import System, Violation, dev_split
from mc.numeric import Decider, close, diff_keys, lockstep
from mc.observe import stream_obs
from models.lfr import (RATES, TAIL, LFRModel, exact_statistic_distribution, quantile_band, rate_of,
                        underflow_thresholds)

PROPERTY = "C06"
# wall-clock safety net only; sized for a machine shared with other builders
TIME_BUDGET = {"quick": 3600, "thorough": 21600}

CELLS = ["TN", "FP", "FN", "TP"]  # event e = 2*y_true + y_pred
DKW_EPS = 0.05  # P(sup|Fn-F| > eps) <= 2exp(-2*4000*eps^2) = 4e-9 per simulation


def _pub(d):
    return {k: v for k, v in d.items() if not k.startswith("_")}


def _impl_bounds(det, p, N, round_val):
    """Best-effort read of the detector's private bounds cache (sharpening only)."""
    cache = getattr(det, "_bounds", None)
    if not isinstance(cache, dict):
        return None
    tol = 0.51 * 10.0 ** (-round_val)
    for k, inner in cache.items():
        try:
            if abs(float(k) - p) <= tol and isinstance(inner, dict) and N in inner:
                b = inner[N]
                return [float(b[x]) for x in ("lb_warn", "ub_warn", "lb_detect", "ub_detect")]
        except (TypeError, ValueError, KeyError):
            return None
    return None


def _impl_bounds_at(det, key_int, N, round_val):
    """The detector's cache entry for the rounded rate key_int / 10^round_val and denominator N, or None
    when the private cache is not readable in the expected shape (sharpening only, nothing is demanded then)."""
    cache = getattr(det, "_bounds", None)
    if not isinstance(cache, dict):
        return None
    target = key_int / 10.0 ** round_val
    tol = 1e-6 * 10.0 ** (-round_val)  # keys are multiples of 10^-round_val: no neighbour is that close
    try:
        for k, inner in cache.items():
            if abs(float(k) - target) <= tol:
                if not isinstance(inner, dict) or N not in inner:
                    return None
                b = inner[N]
                return [float(b[x]) for x in ("lb_warn", "ub_warn", "lb_detect", "ub_detect")]
    except (TypeError, ValueError, KeyError):
        return None
    return None


class LFRSystem(System):
    name = "LFR"

    def init(self, cfg):
        p = dict(cfg["params"])
        st = {
            "det": LinearFourRates(parallelize=False, **dict(p, rates_tracked=list(p["rates_tracked"]))),
            "model": LFRModel(**p),
        }
        if cfg.get("long"):
            st["model"].compact = True
        if cfg.get("shadow"):
            rest = [r for r in RATES if r not in p["rates_tracked"]]
            st["shadow"] = LFRModel(**dict(p, rates_tracked=rest)) if rest else None
        return st

    def alphabet(self, cfg, state, pos):
        return [0, 1, 2, 3]

    def observe(self, det, compact=False):
        o = stream_obs(det)
        a = getattr(det, "all_drift_states", None)
        if isinstance(a, list):
            if compact:  # long epochs: length and tail per sample, complete lists at the end of every event
                o["all_len"] = len(a)
                o["all_tail"] = a[-TAIL:]
            else:
                o["all_states"] = list(a)
        return o

    def step(self, cfg, state, ev, pos, ctx):
        """One event: a single confusion cell (int) or a run-length block
        ``[pattern, n]`` = the cells of ``pattern`` repeated n times (long epochs).
        Every sample of a block is compared exactly like a single event; the
        observation returned for a block is that of its last sample plus a summary."""
        if not isinstance(ev, list):
            obs = self.sample(cfg, state, ev, pos, 0, ctx, inside_block=False)
            obs["cell"] = CELLS[ev]
            return obs
        pattern, n = ev
        flagged = {}
        j = 0
        obs = None
        total = n * len(pattern)
        for _ in range(n):
            for cell in pattern:
                j += 1
                obs = self.sample(cfg, state, cell, pos, j, ctx, inside_block=j < total)
                if obs["state"] is not None:
                    flagged[obs["state"]] = flagged.get(obs["state"], 0) + 1
        ctx.count("block_events")
        ctx.count("block_samples", total)
        obs["block"] = {"pattern": [CELLS[c] for c in pattern], "samples": total, "flagged": flagged}
        return obs

    def sample(self, cfg, state, ev, pos, j, ctx, inside_block):
        det = state["det"]
        long_mode = bool(cfg.get("long"))
        yt, yp = ev >> 1, ev & 1
        prev_state = state["model"].state
        known = set(state["model"].cache) if cfg.get("band") else None
        # seed schedule: (seed, cfg, event position) for single events -- unchanged since round 1 --
        # and (seed, cfg, event position, sample number) inside a block
        parts = (pos,) if j == 0 else (pos, j)
        rng.seed_step(ctx.seed, cfg["id"], *parts)
        try:
            det.update(y_true=yt, y_pred=yp)
            obs = self.observe(det, long_mode)
        except Exception as e:  # the property allows no exception on valid labels
            raise Violation(
                "LFR-exception",
                "LinearFourRates.update(y_true=%d, y_pred=%d) raised %s: %s after %d samples"
                % (yt, yp, type(e).__name__, e, state["model"].total),
                expected="no exception",
                observed=repr(e),
            )

        def call(m, D):
            rng.seed_step(ctx.seed, cfg["id"], *parts)
            return m.step(ev, D)

        def expected(e):
            # all_drift_states is compared when the detector has it (complete, or length + tail in long mode)
            return {k: v for k, v in _pub(e).items() if k in obs or k not in ("all_states", "all_len", "all_tail")}

        def agree(e):
            return not diff_keys(expected(e), obs)

        if long_mode and not state["model"].next_is_tested():
            # an untested sample takes no decision: nothing can be numerically undecidable, so the
            # specification is advanced in place (no snapshot) and must agree as it stands
            model = state["model"]
            exp = call(model, Decider())
            ok = agree(exp)
        else:
            model, exp, ok = lockstep(state["model"], call, agree, stats=ctx.stats)
            if not ok and long_mode:
                model, exp, ok = self.steer_all(state["model"], exp, call, agree, obs.get("state"), ctx)
        state["model"] = model
        if not ok:
            e = expected(exp)
            bad = diff_keys(e, obs)
            raise Violation(
                "LFR-spec",
                "LinearFourRates disagrees with its executable specification on %s after %d samples "
                "(cell %s, model detail %s)" % (bad, exp["total"], CELLS[ev], exp["_detail"]),
                expected=e,
                observed=obs,
            )
        if long_mode and not inside_block:
            a = getattr(det, "all_drift_states", None)
            if isinstance(a, list) and a != model.all_states:
                i = next((i for i, (x, y) in enumerate(zip(a, model.all_states)) if x != y), min(len(a), len(model.all_states)))
                raise Violation(
                    "LFR-spec",
                    "all_drift_states differs from the states reported update by update, first at index %d "
                    "(after %d samples)" % (i, model.total),
                    expected=model.all_states[max(0, i - 2): i + 3],
                    observed=a[max(0, i - 2): i + 3],
                )
        self.statistic_check(det, model, ctx)
        self.bounds_read(cfg, det, model, ctx)
        d = model.diag
        st = obs["state"]
        decisive = d["near"] == 0
        if st == "drift":
            ctx.mark("drift_transitions")
        elif st == "warning":
            ctx.mark("warning_transitions")
        if d["eligible"]:
            ctx.count("tested_steps")
            if decisive:
                ctx.count("decisive_" + str(st).lower())
                if d["lb_detect"]:
                    ctx.count("lower_bound_alarms")
                if d["ub_detect"]:
                    ctx.count("upper_bound_alarms")
                if d["lb_warn"]:
                    ctx.count("lower_bound_warnings")
                if d["ub_warn"]:
                    ctx.count("upper_bound_warnings")
            else:
                ctx.count("steps_with_near_tie")
        elif model.since > model.burn_in:
            ctx.count("subsample_skipped_steps")
        for k in ("simulations", "cache_hits", "cache_hits_after_reset", "cache_hits_other_exact_rate",
                  "rounding_ties", "stat_updates", "stat_kept"):
            if d[k]:
                ctx.count(k, d[k])
        for k in ("lb_warn", "ub_warn", "lb_detect", "ub_detect"):
            if d["tie_" + k]:
                ctx.mark("strict_tie_" + k, d["tie_" + k])
        if d["cache_hits_after_reset"] or d["cache_hits_other_exact_rate"]:
            ctx.mark()
        if st == "drift" and model.drifts == 2:
            ctx.count("histories_with_2_drifts")
        if st == "drift" and model.drifts == 3:
            ctx.count("histories_with_3_drifts")
        if st == "drift" and prev_state == "drift":
            ctx.count("back_to_back_drifts")
        r = obs["recs"]
        if r[0] is not None and r[1] is not None and r[0] < r[1]:
            ctx.count("recs_with_warning_before_drift")
        if long_mode:
            self.long_counters(cfg, model, st, prev_state, ctx)
        if cfg.get("family") == "uflow":
            self.uflow_counters(cfg, model, ctx)

        sh = state.get("shadow")
        if sh is not None:
            # what the untracked rates would have said, same epochs as the real run
            sh.state = prev_state
            rng.seed_step(ctx.seed, cfg["id"], pos, "shadow")
            sh.step(ev, Decider())
            if sh.state == "drift" and st != "drift" and sh.diag["near"] == 0:
                ctx.mark("untracked_rate_would_have_alarmed")
                if st is None:
                    ctx.count("untracked_alarm_while_state_none")
            elif sh.state == "warning" and st is None and sh.diag["near"] == 0:
                ctx.count("untracked_rate_would_have_warned")
            sh.state = None

        if cfg.get("band"):
            self.band_check(cfg, det, model, known, ctx, pos)
        return obs

    def steer_all(self, model, exp0, call, agree, target, ctx):
        """Near-tie steering without the three-flip cap of mc.numeric.lockstep.

        Deep inside an epoch with a very pure rate the statistic and all four bounds sit within a few
        1e-16 of 1 (or of 0): R = 1 - eta^k/2 and the largest simulated value 1 - eta^N differ by less
        than one unit in the last place, for every tracked rate at once, so up to 16 comparisons of one
        step are numerically undecidable (relative margin <= 1e-9) -- more than lockstep's search tries.
        Same rule, constructed instead of searched: only undecidable comparisons may be inverted, and
        they are inverted exactly as far as needed to reproduce the state the detector reported; every
        decidable comparison stays as computed and everything else (recs, counters, cache) must agree."""
        if target not in (None, "warning", "drift"):
            return model, exp0, False
        d0 = Decider()
        m0 = copy.deepcopy(model)
        e0 = call(m0, d0)
        near = set(d0.near)
        flags = []
        for r in m0.tracked:
            if r in e0["_detail"]:
                flags.extend(e0["_detail"][r]["flags"])
        if not near or len(flags) != d0.i:
            return model, exp0, False
        warn_idx = [i for i in range(len(flags)) if i % 4 in (0, 1)]
        det_idx = [i for i in range(len(flags)) if i % 4 in (2, 3)]
        flips = set()
        if target in (None, "warning"):
            flips |= {i for i in det_idx if flags[i] and i in near}
        if target is None:
            flips |= {i for i in warn_idx if flags[i] and i in near}
        if target == "warning" and not any(flags[i] for i in warn_idx):
            cand = [i for i in warn_idx if i in near]
            flips |= set(cand[:1])
        if target == "drift" and not any(flags[i] for i in det_idx):
            cand = [i for i in det_idx if i in near]
            flips |= set(cand[:1])
        if not flips:
            return model, exp0, False
        m1 = copy.deepcopy(model)
        e1 = call(m1, Decider(flips=flips))
        if agree(e1):
            ctx.stats["near_tie_steered"] += 1
            ctx.stats["near_tie_steered_beyond_3_flips"] += 1
            return m1, e1, True
        return model, exp0, False

    def statistic_check(self, det, model, ctx):
        """Sharpening (like the bounds read of the band family): when the detector's private table of
        test statistics is readable, the entry of every *tracked* rate for the current sample must be
        the exponentially weighted average the property states.  A correct float evaluation of
        R <- eta*R + (1-eta)*hit carries a relative error of a few 1e-16 per update, damped by eta, i.e.
        at most ~1e-16/(1-eta) in total: far inside the 1e-9 / 1e-12 tolerance for every decay factor
        used here.  Unreadable (renamed / restructured) private state is skipped and counted."""
        tab = getattr(det, "_r_stat", None)
        row = tab.get(model.since) if isinstance(tab, dict) else None
        if not isinstance(row, dict):
            ctx.count("statistic_unreadable")
            return
        for r in model.tracked:
            try:
                v = float(row[r])
            except (KeyError, TypeError, ValueError):
                ctx.count("statistic_unreadable")
                return
            e = float(model.R[r])
            if not close(v, e):
                raise Violation(
                    "LFR-statistic",
                    "test statistic of %s after %d samples of the epoch (%d in total) is %r, the exponentially "
                    "weighted average updated whenever the rate changed is %r (confusion counts [pred][true] %s)"
                    % (r, model.since, model.total, v, e, model.C),
                    expected=e,
                    observed=v,
                )
        ctx.count("statistic_reads")

    def bounds_read(self, cfg, det, model, ctx):
        """Sharpening, all families (round 4): the bounds the specification simulated at this step -- the
        stated percentiles of the stated draws for the current rate estimate and denominator -- against the
        entry the detector put into its private cache for the same (rounded rate, denominator), when that
        cache is readable.  Both sides evaluate the same weighted sums of the same draws: the detector
        sequentially (relative error <= N * 1.1e-16 of a sum of non-negative terms, 1e-12 at N = 10^4), the
        specification with fsum / numpy.dot; numpy.percentile is the same primitive.  1e-9 relative / 1e-12
        absolute therefore separates a correct evaluation from a numerically careless one (weights that lose
        their leading digits, underflow to 0 or turn into NaN) by three orders of magnitude.  This decides
        the bounds themselves; without it a detector whose bounds are NaN, or off by a per cent, is noticed
        only when a decision happens to differ."""
        for k_int, N, p, b in model.diag.get("new_bounds", ()):
            ib = _impl_bounds_at(det, k_int, N, model.round_val)
            if ib is None:
                ctx.count("bounds_unreadable")
                continue
            ctx.count("bounds_reads")
            if not close(list(b), ib):
                raise Violation(
                    "LFR-bounds-value",
                    "bounds cached by the detector for rate %s, N=%d (eta=%s, num_mc=%d) after %d samples differ "
                    "from the stated percentiles of (1-eta)*sum eta^(N-i)*Bernoulli(rate) over the stated draws"
                    % (p, N, model.eta, model.num_mc, model.total),
                    expected=list(b),
                    observed=ib,
                )

    def uflow_counters(self, cfg, model, ctx):
        """Anti-vacuity for the underflow family: in which range of doubles eta^N lay when a rate was tested.
        Functions of the event sequence and the parameters only (the first window sample of every history is
        tested whatever the draws were)."""
        if not model.diag["eligible"]:
            return
        ns, n0 = cfg["uflow"]
        for r in model.tracked:
            N = rate_of(model.C, r)[1]
            if N >= n0:
                ctx.mark("uflow_tested_weights_zero")
                if N >= n0 + n0 // 5:
                    ctx.count("uflow_tested_weights_zero_by_far")
            elif N >= ns:
                ctx.mark("uflow_tested_weights_subnormal")
            else:
                ctx.count("uflow_tested_weights_normal")

    def long_counters(self, cfg, model, st, prev_state, ctx):
        """Anti-vacuity for the long-epoch families: tested samples deep inside an epoch, at very pure rates."""
        d = model.diag
        if not d["eligible"]:
            return
        fam = cfg.get("family", "long")
        ctx.count(fam + "_tested_steps")
        if model.since >= 300:
            ctx.count(fam + "_tested_since_300")
        if model.since >= 1000:
            ctx.count(fam + "_tested_since_1000")
        if model.since >= 5000:
            ctx.count(fam + "_tested_since_5000")
        # a tracked rate whose last step was below 1e-5 relative, 1e-7 relative (the resolution of single
        # precision) -- the regions where "changed" and "close" come apart
        best = None
        for r in model.tracked:
            p, N = rate_of(model.C, r)
            if N < 3 or p in (0, 1):
                continue
            m = min(p.numerator, p.denominator - p.numerator)
            rel = Fraction(m, N * (N - 1)) / p  # size of the step that produced a rate like this one
            best = rel if best is None else min(best, rel)
        if best is not None:
            if best < Fraction(1, 10 ** 5):
                ctx.count(fam + "_tested_rate_step_below_1e-5")
            if best < Fraction(1, 10 ** 7):
                ctx.count(fam + "_tested_rate_step_below_1e-7")
        if d["near"] == 0:
            if st is None:
                ctx.count(fam + "_decisive_none")
            elif st == "warning":
                ctx.count(fam + "_decisive_warning")
            else:
                ctx.count(fam + "_decisive_drift")
            if st is None and prev_state == "warning":
                ctx.mark(fam + "_recovered_from_warning")

    def band_check(self, cfg, det, model, known, ctx, pos):
        """Bounds simulated at this step vs. the exact distribution (N <= 12)."""
        n = model.num_mc
        eps = DKW_EPS + 2.0 / n
        wl, dl = model.warning_level, model.detect_level
        levels = (wl, 1 - wl, dl, 1 - dl)
        names = ("lb_warn", "ub_warn", "lb_detect", "ub_detect")
        for key, (b, _, p) in model.cache.items():
            if key in known or key[1] > 12:
                continue
            pf = p.numerator / p.denominator
            dist = exact_statistic_distribution(model.eta, pf, key[1])
            bands = [quantile_band(dist, u - eps, u + eps) for u in levels]
            ib = _impl_bounds(det, pf, key[1], model.round_val)
            ctx.mark("band_checks")
            if bands[0][1] < bands[1][0] and bands[2][1] < bands[3][0]:
                ctx.count("band_discriminates_orientation")
            if bands[2][1] < bands[0][0] and bands[1][1] < bands[3][0]:
                ctx.count("band_discriminates_levels")
            for who, vals in (("model", b), ("detector", ib)):
                if vals is None:
                    ctx.count("band_detector_cache_unreadable")
                    continue
                for nm, v, (lo, hi) in zip(names, vals, bands):
                    tol = 1e-9 * max(abs(lo), abs(hi), 1e-12)
                    if not (lo - tol <= v <= hi + tol):
                        raise Violation(
                            "LFR-quantile-band",
                            "%s bound %s=%r for rate %s, N=%d (eta=%s, num_mc=%d) is outside the DKW band "
                            "[%r, %r] of the exact distribution of the statistic at level %s"
                            % (who, nm, v, p, key[1], model.eta, n, lo, hi, levels[names.index(nm)]),
                            expected=[lo, hi],
                            observed=v,
                        )
            if ib is not None:
                ctx.count("band_detector_cache_read")
                if not close(list(b), ib):
                    raise Violation(
                        "LFR-bounds-value",
                        "bounds cached by the detector for rate %s, N=%d differ from the stated percentiles "
                        "of the stated draws" % (p, key[1]),
                        expected=list(b),
                        observed=ib,
                    )


SYSTEMS = {"LFR": LFRSystem()}

ALL = list(RATES)
LEVELS = [(0.05, 0.05), (0.2, 0.05), (0.4, 0.1)]  # (warning_level, detect_level)
NUM_MC = 30


def _params(eta, wl, dl, burn, sub, rv, tracked=ALL, num_mc=NUM_MC):
    return {
        "time_decay_factor": eta, "warning_level": wl, "detect_level": dl, "burn_in": burn,
        "num_mc": num_mc, "subsample": sub, "rates_tracked": list(tracked), "round_val": rv,
    }


def _cid(p, tag=""):
    t = "all" if list(p["rates_tracked"]) == ALL else "+".join(p["rates_tracked"])
    return "%se%s-w%s-d%s-b%d-s%d-r%d-%s" % (
        tag, p["time_decay_factor"], p["warning_level"], p["detect_level"], p["burn_in"],
        p["subsample"], p["round_val"], t)


ETAS = (0.5, 0.6, 0.7, 0.9)


def _grid(which):
    """(eta, levels, burn_in, subsample, round_val) grid of the design.

    "full": the 4*3*3*2*2 = 144 product; "cover": the 24 members whose index
    form i_eta + i_levels + burn_in + i_sub + 3*i_rv is divisible by 6 (a pairwise
    covering array: every pair of values of any two parameters occurs)."""
    out = []
    for eta, lv, burn, sub, rv in itertools.product(ETAS, LEVELS, (0, 1, 2), (1, 2), (4, 1)):
        s = ETAS.index(eta) + LEVELS.index(lv) + burn + (sub - 1) + (0 if rv == 4 else 3)
        if which == "cover" and s % 6 != 0:
            continue
        out.append(_params(eta, lv[0], lv[1], burn, sub, rv))
    return out


# dfs families: (name, parameter sets, depth, root split)
DEEP_A = _params(0.6, 0.2, 0.05, 1, 1, 1)
DEEP_B = _params(0.7, 0.4, 0.1, 0, 2, 4)
DEEP_C = _params(0.5, 0.2, 0.05, 2, 1, 1)
# dyadic decay factor + wide levels: the statistic lands exactly on each of the
# four bounds (exact arithmetic, ties enforced strictly).  Chosen by a model-only
# scan over seeds 0..11: every bound side has >= 290 exact ties for every seed
# (lb_detect ties are the rare ones; a single parameter set had none for seed 1).
TIE_CFGS = [_params(0.5, 0.4, 0.3, 0, 1, 4), _params(0.5, 0.5, 0.25, 2, 1, 1)]
SUBSET_BASES = [(0.6, 0.4, 0.1, 0, 1, 1), (0.7, 0.2, 0.05, 1, 1, 4)]


# the ends of the documented range [0, 1] of time_decay_factor and values next to them (round 4): with 0 the
# statistic is the last hit indicator and the simulated statistic the last draw (0^0 = 1: the weights are
# 0, ..., 0, 1); with 1 the statistic never moves and every simulated value is 0.  Expressions such as eta^N / eta^i,
# exp((N - i) * log(eta)) or a division by (1 - eta) are NaN / inf exactly there.
EDGE_ETA_CFGS = [
    _params(0.0, 0.2, 0.05, 1, 1, 4), _params(1.0, 0.4, 0.1, 0, 1, 4),
    _params(0.001, 0.2, 0.05, 0, 1, 1), _params(1 - 2.0 ** -53, 0.2, 0.05, 2, 2, 4),
]


# round 5: the warning level is legal on either side of the detection level.  With warning_level < detect_level the
# detection band is the NARROWER one: a statistic between the two bands is a drift without a warning.  Anything that
# derives one decision from the other ("the warning band lies inside the detection band") is invisible on the grid,
# where warning_level >= detect_level throughout.
CROSS_CFGS = [
    _params(0.6, 0.05, 0.2, 0, 1, 4), _params(0.7, 0.01, 0.1, 1, 1, 4), _params(0.5, 0.25, 0.4, 0, 1, 1),
    _params(0.9, 0.05, 0.4, 2, 2, 4), _params(0.6, 0.001, 0.05, 1, 1, 1, tracked=("tpr", "ppv")),
]


def _dfs_families(tier):
    if tier == "quick":
        return [("grid", _grid("cover"), 6, 1), ("deep", [DEEP_A], 7, 2), ("ties", TIE_CFGS, 6, 1),
                ("edge-eta", EDGE_ETA_CFGS, 5, 1), ("cross", CROSS_CFGS, 6, 1)]
    return [
        ("cross", CROSS_CFGS, 7, 1),
        ("edge-eta", EDGE_ETA_CFGS, 6, 1),
        ("ties", TIE_CFGS, 7, 1),
        ("grid", _grid("full"), 6, 1),
        ("grid7", _grid("cover"), 7, 1),
        ("deep8", [DEEP_B, DEEP_C], 8, 2),
        ("deep9", [DEEP_A], 9, 3),
    ]


# default streams for dev mode (L = 20); cells: 0 TN, 1 FP, 2 FN, 3 TP
STREAMS = {
    "stationary": [3, 0, 3, 0, 1, 3, 0, 2, 3, 0, 3, 0, 1, 3, 0, 2, 3, 0, 3, 0],
    "switching": [3, 0, 3, 0, 3, 0, 3, 0, 3, 0, 2, 1, 2, 1, 2, 1, 2, 1, 2, 1],
    "allpos": [3] * 20,
    "classflip": [3, 0, 3, 0, 3, 0, 3, 0, 3, 3, 1, 3, 1, 3, 1, 1, 3, 1, 3, 1],
}
DEV_CFGS = [
    _params(0.6, 0.2, 0.05, 3, 1, 1),
    _params(0.7, 0.4, 0.1, 8, 1, 4),
    _params(0.5, 0.2, 0.05, 5, 2, 1),
    _params(0.9, 0.4, 0.1, 8, 1, 1),
    _params(0.7, 0.05, 0.05, 0, 2, 1),
    _params(0.6, 0.4, 0.1, 8, 2, 4),
]
# (index into DEV_CFGS, stream) -> k
DEV_PLAN = {
    "quick": {(0, "stationary"): 2, (0, "allpos"): 2, (1, "switching"): 2, (2, "classflip"): 2,
              (4, "classflip"): 2, (3, "stationary"): 1},
    "thorough": {(ci, s): 2 for ci in range(6) for s in STREAMS},
}
DEV_PLAN["thorough"].update({(0, "allpos"): 3, (4, "classflip"): 3})

BAND_CFGS = [
    _params(0.7, 0.3, 0.05, 0, 1, 8, num_mc=4000),
    _params(0.6, 0.25, 0.1, 0, 1, 8, ("ppv", "tnr"), num_mc=4000),
]
BAND_STREAMS = [[3, 0, 3, 2, 3, 1, 0, 3, 3, 2], [0, 3, 1, 0, 2, 0, 0, 1, 3, 0], [3, 3, 0, 2, 3, 3, 1, 3, 0, 3]]
BAND_K = {"quick": 0, "thorough": 1}


# ---------------------------------------------------------------------------------------------
# Long-epoch families (round 3b).  A sample moves a rate by only minority/(N(N+1)); with a very pure
# rate and a denominator N in the hundreds / thousands that step is 1e-5 .. 1e-9 of the rate, and the
# statistic must *still* be updated ("iff the rate changed").  Such epochs exist only with a long
# burn-in (or a large subsample), with decay factors close to 1 mattering most -- parameter regions
# (burn_in in the hundreds like the library default of 50+, time_decay_factor 0.98/0.99) that 20-sample
# histories cannot reach.  A history = run-length blocks (the untested prefix of the epoch, every sample
# still compared) followed by a window of W single samples in which every choice of <= k deviations over
# all four cells is explored (dev mode, per-position menus: no deviations inside the blocks).
LONG_STREAMS = {
    # name: (blocks seeding the minority cell, main pattern (M samples of it), the misses of a recovery history)
    "tp": ([], [3], [2, 1]),            # TPR, PPV -> (N-1)/N; misses: FN (TPR), FP (PPV)
    "tn": ([], [0], [1, 2]),            # TNR, NPV -> (N-1)/N; misses: FP (TNR), FN (NPV)
    "alt": ([], [3, 0], [2, 1]),        # all four rates pure, N = M/2 each; FN hits TPR, NPV; FP hits TNR, PPV
    "tp3": ([[[2], 2]], [3], [1, 2]),   # TPR with 3 in the minority cell, PPV with 1
    "tn3": ([[[1], 2]], [0], [2, 1]),   # TNR with 3 in the minority cell, NPV with 1
    "fn": ([], [2], [3, 0]),            # the other direction: TPR, NPV -> 1/N; "misses" = hits
    "fp": ([], [1], [0, 3]),            # TNR, PPV -> 1/N
    # an ordinary stationary stream (accuracy 13/16): long epoch, no rate is pure
    "mix": ([], [3, 3, 0, 3, 0, 3, 2, 0, 3, 3, 0, 1, 3, 0, 3, 0], [2, 1]),
}
TP_RATES = ("tpr", "ppv")  # the rates a stream of true positives feeds
TN_RATES = ("tnr", "npv")


def _long(stream, M, eta, wl, dl, off, sub, rv, W, k, tracked=ALL, num_mc=NUM_MC, family="long", gap=None):
    """gap = None: the window follows the M samples directly (first tests of a pure epoch).
    gap = g: 'recovery' history -- after the M samples one miss per fed rate (two samples), g more samples
    of the stream, then the window; the statistics are on their way back (1 - (1-eta)*eta^g) and must keep
    moving with every sample.  With all four rates tracked a stream that feeds only two of them drifts at the
    first tested sample whatever happens (the starved rates sit at 1/2 with N = 2, 3 against simulated values
    near 0), and a fed rate that never saw a miss lies above every simulated value when eta^2 > 1/2; recovery
    histories therefore track the fed rates and give each of them a miss."""
    return {"stream": stream, "M": M, "eta": eta, "wl": wl, "dl": dl, "off": off, "sub": sub, "rv": rv,
            "W": W, "k": k, "tracked": list(tracked), "num_mc": num_mc, "family": family, "gap": gap}


# burn_in = (samples in the blocks) + off: the first `off` window samples are untested as well
LONG_PLAN = {
    "quick": [
        # first tests of a pure epoch: below / around / above the sizes where the relative step of a
        # rate reaches 1e-4, 1e-5, 1e-6
        _long("tp", 120, 0.9, 0.2, 0.05, 0, 1, 4, 6, 1),
        _long("tp", 350, 0.9, 0.2, 0.05, 0, 1, 4, 6, 1),
        _long("tp", 350, 0.98, 0.05, 0.001, 0, 1, 4, 6, 1),
        _long("tn", 350, 0.9, 0.4, 0.1, 2, 1, 1, 6, 1),
        _long("alt", 700, 0.6, 0.2, 0.05, 0, 2, 4, 8, 1),
        _long("tp3", 600, 0.9, 0.2, 0.05, 0, 1, 4, 6, 1),
        _long("tn3", 1000, 0.7, 0.4, 0.1, 0, 1, 4, 8, 1),
        _long("fn", 350, 0.9, 0.2, 0.05, 0, 1, 4, 6, 1),
        _long("fp", 350, 0.6, 0.4, 0.1, 1, 1, 1, 6, 1),
        _long("mix", 480, 0.9, 0.05, 0.05, 0, 1, 4, 8, 1),
        _long("mix", 640, 0.98, 0.2, 0.05, 0, 2, 4, 8, 1),
        # recovery histories: tested samples deep inside the epoch while the statistics climb back
        _long("tp", 350, 0.9, 0.2, 0.05, 0, 1, 4, 10, 1, TP_RATES, gap=14),
        _long("tp", 350, 0.98, 0.05, 0.001, 0, 1, 4, 14, 1, TP_RATES, gap=12),
        _long("tp", 500, 0.98, 0.05, 0.001, 0, 1, 4, 16, 1, ("tpr",), num_mc=100, gap=8),
        _long("tn", 400, 0.99, 0.1, 0.001, 0, 2, 4, 14, 1, ("npv", "tnr"), gap=20),
        _long("alt", 800, 0.98, 0.05, 0.001, 1, 1, 4, 12, 1, gap=12),
        _long("tp3", 600, 0.98, 0.1, 0.001, 0, 3, 1, 15, 1, ("ppv", "tpr"), gap=8),
        _long("tn3", 1000, 0.7, 0.4, 0.1, 0, 1, 4, 8, 1, TN_RATES, gap=10),
        _long("tp", 1000, 0.98, 0.05, 0.001, 0, 1, 4, 10, 1, TP_RATES, gap=30),
        _long("fn", 350, 0.9, 0.2, 0.05, 0, 1, 4, 8, 1, ("tpr", "npv"), gap=4),
        _long("fp", 400, 0.98, 0.05, 0.001, 0, 1, 4, 8, 1, ("ppv", "tnr"), gap=10),
        # two deviations
        _long("tp", 350, 0.98, 0.05, 0.001, 0, 1, 4, 7, 2, TP_RATES, gap=12),
        _long("alt", 700, 0.9, 0.4, 0.1, 0, 1, 4, 6, 2, gap=28),
        # denominators beyond the resolution of single precision (1/N^2 < 2^-24)
        _long("tp", 6000, 0.98, 0.05, 0.001, 0, 1, 4, 5, 1, TP_RATES, family="xlong", gap=150),
    ],
}
LONG_PLAN["thorough"] = LONG_PLAN["quick"] + [
    _long("tn", 6000, 0.99, 0.05, 0.001, 0, 1, 4, 8, 1, TN_RATES, family="xlong", gap=300),
    _long("alt", 7000, 0.9, 0.2, 0.05, 0, 1, 4, 6, 1, family="xlong", gap=60),
    _long("tp3", 3500, 0.98, 0.05, 0.001, 0, 1, 4, 10, 2, TP_RATES, family="xlong", gap=100),
    _long("fn", 16000, 0.999, 0.2, 0.05, 0, 1, 4, 6, 1, ("tpr", "npv"), family="xlong", gap=50),
    _long("fp", 16000, 0.99, 0.05, 0.001, 0, 1, 4, 6, 1, family="xlong"),
    # a relative step of 1e-9 needs N >= 31623 with one sample in the minority cell, 44722 with two
    _long("tp", 50000, 0.98, 0.05, 0.001, 0, 1, 4, 4, 1, TP_RATES, family="xlong", gap=300),
    _long("tn", 35000, 0.999, 0.2, 0.05, 0, 1, 4, 4, 1, ("tnr",), family="xlong"),
]

# many short epochs in one long history (the detector object reused across ~40 resets, a bounds cache of
# hundreds of entries, indices far above samples_since_reset): a periodic stream as blocks, then a window
EPOCH_PATTERN = [3, 0, 3, 0, 2, 1, 2, 1, 3, 3, 0, 1]
EPOCH_PLAN = {
    "quick": [
        # (params, repetitions of the pattern, window length, k)
        (_params(0.6, 0.2, 0.05, 2, 1, 4), 25, 8, 1),
        (_params(0.7, 0.4, 0.1, 5, 2, 1), 25, 8, 1),
        (_params(0.9, 0.2, 0.05, 10, 7, 4), 40, 10, 1),
    ],
}
EPOCH_PLAN["thorough"] = EPOCH_PLAN["quick"] + [
    (_params(0.6, 0.2, 0.05, 2, 1, 4), 80, 8, 2),
    (_params(0.5, 0.4, 0.3, 0, 1, 4), 50, 8, 2),
]


# ---------------------------------------------------------------------------------------------
# Underflow family (round 4, ``uflow``).  The weights of the simulated statistic are eta^(N-1) ... eta^1, eta^0.
# Once the denominator N of a tracked rate exceeds Ns = 1022/log2(1/eta) the oldest weights are subnormal doubles,
# beyond N0 = 1075/log2(1/eta) they are 0.0 (eta 0.5: 1023 / 1075, 0.6: 1387 / 1459, 0.75: 2463 / 2591, the default
# 0.9: 6724 / 7073; a small factor reaches the region early: 0.25: 512 / 538, 0.1: 308 / 324).  That is harmless as
# long as each weight is formed on its own, and fatal for an algebraically equal evaluation that goes through eta^N
# or eta^-i (0/x, 0/0, inf*0): the bounds lose digits in the subnormal range and are 0 / NaN beyond it, and a NaN
# bound silences the detector for the rest of the epoch.  The earlier long families stayed out of the region
# (eta >= 0.7 beyond 500 samples).  Layout: for every decay factor a ladder of four epoch lengths laid out around
# (Ns, N0) -- 'normal' (largest tracked denominator Ns - 40: control), 'sub' (midway between Ns and N0), 'edge'
# (N0 - 2: the window crosses N0) and 'far' (every tracked denominator >= 1.25 * N0) -- for five streams: each of
# the four rates tracked alone on a stream that feeds it at 9/10 (the denominator grows with every sample), and the
# 13/16 'mix' stream with all four rates tracked (denominators 9/16 and 7/16 of the epoch: on the 'edge' rung two
# rates are beyond N0 and two are not).  A history = the epoch as run-length blocks (untested: burn_in = its
# length; every sample still compared), then a window of 3 samples continuing the stream and 4 samples of a total
# collapse (every sample wrong for the tracked rates: the statistic is multiplied by eta each time, so a decisive
# drift is certain within the window for any reasonable draw), with every choice of <= k deviations over all four
# cells.  Levels, subsample, round_val and num_mc rotate over the ladder.
UFLOW_STREAMS = {
    # name: (pattern, cells of the collapse, rates tracked)
    "tpr9": ([3] * 9 + [2], [2], ("tpr",)),  # y_true always 1: TPR 9/10, N = samples + 2
    "tnr9": ([0] * 9 + [1], [1], ("tnr",)),
    "ppv9": ([3] * 9 + [1], [1], ("ppv",)),  # y_pred always 1: PPV 9/10
    "npv9": ([0] * 9 + [2], [2], ("npv",)),
    "mix": ([3, 3, 0, 3, 0, 3, 2, 0, 3, 3, 0, 1, 3, 0, 3, 0], [2, 1], ALL),
    # the other direction (thorough tier): rates of 1/10 and a sudden run of hits, the statistic leaves through the upper bounds
    "tpr1": ([2] * 9 + [3], [3], ("tpr",)),
    "tnr1": ([1] * 9 + [0], [0], ("tnr",)),
}
UFLOW_QUICK_STREAMS = ("tpr9", "tnr9", "ppv9", "npv9", "mix")
UFLOW_RUNGS = ("normal", "sub", "edge", "far")
UFLOW_CONT, UFLOW_COLLAPSE = 3, 4
UFLOW_ROT = [  # (warning_level, detect_level, subsample, round_val, num_mc)
    (0.2, 0.05, 1, 4, 30), (0.4, 0.1, 1, 1, 30), (0.05, 0.05, 2, 4, 30), (0.2, 0.05, 1, 4, 120),
    (0.05, 0.001, 1, 4, 30), (0.4, 0.1, 2, 4, 30), (0.2, 0.05, 1, 1, 30),
]
UFLOW_PLAN = {
    # (eta, streams, rungs, k)
    "quick": [
        (0.1, UFLOW_QUICK_STREAMS, UFLOW_RUNGS, 1),
        (0.25, UFLOW_QUICK_STREAMS, UFLOW_RUNGS, 1),
        (0.5, UFLOW_QUICK_STREAMS, UFLOW_RUNGS, 1),
        (0.6, UFLOW_QUICK_STREAMS, UFLOW_RUNGS, 1),
        (0.75, UFLOW_QUICK_STREAMS, UFLOW_RUNGS, 1),
        (0.9, ("tpr9",), ("sub", "edge", "far"), 1),  # the library's default factor: epochs of 6 900 .. 8 800 samples
    ],
}
UFLOW_PLAN["thorough"] = [
    (eta, tuple(UFLOW_STREAMS), UFLOW_RUNGS, 2 if eta <= 0.5 else 1)
    for eta in (0.001, 0.1, 0.25, 0.3, 0.5, 0.6, 0.75, 0.8, 0.9)
] + [(0.95, ("tpr9", "npv9"), ("sub", "edge"), 1)]


def _uflow_len(stream, target, which):
    """Samples of the stream after which the largest ('max') / smallest ('min') denominator among the tracked
    rates equals target - 1, so that the next sample that feeds that rate -- a window sample -- brings it to target."""
    pattern, _, tracked = UFLOW_STREAMS[stream]
    C = [[1, 1], [1, 1]]
    pick = max if which == "max" else min
    m = 0
    while pick(rate_of(C, r)[1] for r in tracked) < target - 1:
        c = pattern[m % len(pattern)]
        C[c & 1][c >> 1] += 1
        m += 1
    return m


def _uflow_specs(tier):
    out = []
    for ei, (eta, streams, rungs, k) in enumerate(UFLOW_PLAN[tier]):
        ns, n0 = underflow_thresholds(eta)
        for si, stream in enumerate(streams):
            for rung in rungs:
                ri = UFLOW_RUNGS.index(rung)
                target, which = {"normal": (ns - 40, "max"), "sub": ((ns + n0) // 2, "max"),
                                 "edge": (n0 - 2, "max"), "far": (n0 + n0 // 4, "min")}[rung]
                rot = UFLOW_ROT[(2 * ri + 3 * si + ei) % len(UFLOW_ROT)]
                out.append({"eta": eta, "stream": stream, "rung": rung, "k": k, "ns": ns, "n0": n0,
                            "M": _uflow_len(stream, target, which), "rot": rot})
    return out


def _uflow_task(spec):
    pattern, collapse, tracked = UFLOW_STREAMS[spec["stream"]]
    L, M = len(pattern), spec["M"]
    blocks = [[list(pattern), M // L]] if M >= L else []
    if M % L:
        blocks.append([list(pattern[: M % L]), 1])
    wl, dl, sub, rv, num_mc = spec["rot"]
    p = _params(spec["eta"], wl, dl, M, sub, rv, tracked, num_mc)
    window = [pattern[(M + i) % L] for i in range(UFLOW_CONT)] + \
             [collapse[i % len(collapse)] for i in range(UFLOW_COLLAPSE)]
    cid = _cid(p, "uflow-%s-%s-n%d-" % (spec["stream"], spec["rung"], num_mc))
    return {
        "system": "LFR", "mode": "dev",
        "cfg": {"id": cid, "params": p, "long": True, "family": "uflow", "uflow": [spec["ns"], spec["n0"]]},
        "default": blocks + window,
        "menu": [[] for _ in blocks] + [[0, 1, 2, 3] for _ in window], "menu_per_pos": True,
        "k": spec["k"], "validate_every": 211,
        "label": "LFR|uflow|%s|k%d" % (cid, spec["k"]),
    }


def _long_task(spec):
    seed_blocks, pattern, misses = LONG_STREAMS[spec["stream"]]
    L = len(pattern)
    blocks = [list(b) for b in seed_blocks] + [[pattern, spec["M"] // L]]
    done = spec["M"] // L * L  # samples of the main pattern so far (the window continues its cycle)
    if spec["gap"] is not None:
        blocks.append([list(misses), 1])
        g = spec["gap"]
        if g:
            assert spec["M"] % L == 0 and g % L == 0
            blocks.append([pattern, g // L])
            done += g
    n_pre = sum(len(b[0]) * b[1] for b in blocks)
    p = _params(spec["eta"], spec["wl"], spec["dl"], n_pre + spec["off"], spec["sub"], spec["rv"],
                spec["tracked"], spec["num_mc"])
    window = [pattern[(done + i) % L] for i in range(spec["W"])]
    cid = _cid(p, "%s-%s-%d%s-" % (spec["family"], spec["stream"], spec["M"],
                                  "" if spec["gap"] is None else "-g%d" % spec["gap"]))
    return {
        "system": "LFR", "mode": "dev",
        "cfg": {"id": cid, "params": p, "long": True, "family": spec["family"]},
        "default": blocks + window,
        "menu": [[] for _ in blocks] + [[0, 1, 2, 3] for _ in window], "menu_per_pos": True,
        "k": spec["k"], "validate_every": 211,
        "label": "LFR|%s|%s|k%d" % (spec["family"], cid, spec["k"]),
    }, n_pre


def _dev_size(rem, k):
    """transitions of a dev tree with rem positions left and k deviations (3 alternatives each)."""
    import math
    return sum(sum(math.comb(j, m) * 3 ** m for m in range(k + 1)) for j in range(1, rem + 1))


def tasks(tier, seed):
    out = []

    def dfs(p, depth, split, kind, **extra):
        cid = _cid(p)
        for prefix in itertools.product(range(4), repeat=split):
            out.append({
                "system": "LFR",
                "cfg": dict({"id": cid, "params": p}, **extra),
                "prefix": list(prefix),
                "depth": depth - split,
                "label": "LFR|%s|%s|%s" % (kind, cid, "".join(map(str, prefix))),
                "cost": 4 ** (depth - split) / 1000.0,
                "validate_every": 199,
            })

    for kind, cfgs, depth, split in _dfs_families(tier):
        for p in cfgs:
            dfs(p, depth, split, kind)
    for base in SUBSET_BASES[: 1 if tier == "quick" else 2]:
        for n in range(1, 5):
            for sub in itertools.combinations(RATES, n):
                dfs(_params(*base, tracked=sub), 6, 1, "subset", shadow=True)
    # a permuted order of tracked rates: the draw order follows rates_tracked
    dfs(_params(0.6, 0.4, 0.1, 0, 1, 1, ("npv", "tpr", "ppv", "tnr")), 6, 1, "order")

    # dev mode, partitioned (mc.explorer.dev_split) by the position of the first
    # deviation: the undeviated history, and for every position i and alternative
    # a the histories default[:i] + [a] + (<= k-1 deviations in the rest)
    for (ci, sname), k in DEV_PLAN[tier].items():
        p = DEV_CFGS[ci]
        default = STREAMS[sname]
        cid = _cid(p, "dev-")
        base = {"system": "LFR", "mode": "dev", "cfg": {"id": cid, "params": p},
                "default": default, "menu": [0, 1, 2, 3], "k": k, "validate_every": 97,
                "label": "LFR|dev|%s|%s|k%d" % (cid, sname, k)}
        for t in dev_split(base):
            used = len(t.get("prefix", default))
            t["cost"] = (_dev_size(len(default) - used, k - 1) + used) / 1000.0
            out.append(t)
    for p in BAND_CFGS:
        for si, default in enumerate(BAND_STREAMS):
            cid = _cid(p, "band-")
            out.append({
                "system": "LFR", "mode": "dev",
                "cfg": {"id": cid, "params": p, "band": True},
                "default": default, "menu": [0, 3], "k": BAND_K[tier],
                "label": "LFR|band|%s|%d" % (cid, si),
                "cost": 6, "validate_every": 0,
            })

    # long-epoch families: one task per (stream, M, parameters) for k = 1, split by first deviation for k = 2
    for spec in LONG_PLAN[tier]:
        base, n_pre = _long_task(spec)
        nb = len(base["default"]) - spec["W"]
        # relative cost: the blocks (cheap untested samples) + window transitions with simulations at N ~ M
        per_step = 1.0 + spec["M"] / 250.0 * (spec["num_mc"] / 30.0)
        if spec["k"] <= 1:
            base["cost"] = (n_pre / 100.0 + _dev_size(spec["W"], spec["k"]) * per_step) / 60.0
            out.append(base)
        else:
            for t in dev_split(base):
                used = len(t.get("prefix", base["default"])) - nb
                kk = t["k"] - (1 if "prefix" in t else 0)
                t["cost"] = (n_pre / 100.0 + (_dev_size(spec["W"] - used, kk) + used) * per_step) / 60.0
                out.append(t)
    for spec in _uflow_specs(tier):
        base = _uflow_task(spec)
        W = UFLOW_CONT + UFLOW_COLLAPSE
        nb = len(base["default"]) - W
        # blocks ~0.2 ms a sample; a window transition = snapshot + simulations at N ~ M (both linear in M)
        per_step = 1.0 + spec["M"] / 250.0 * (spec["rot"][4] / 30.0) * len(base["cfg"]["params"]["rates_tracked"]) / 2.0
        if spec["k"] <= 1:
            base["cost"] = (spec["M"] / 100.0 + _dev_size(W, spec["k"]) * per_step) / 60.0
            out.append(base)
        else:
            for t in dev_split(base):
                used = len(t.get("prefix", base["default"])) - nb
                kk = t["k"] - (1 if "prefix" in t else 0)
                t["cost"] = (spec["M"] / 100.0 + (_dev_size(W - used, kk) + used) * per_step) / 60.0
                out.append(t)
    for p, reps, W, k in EPOCH_PLAN[tier]:
        cid = _cid(p, "epochs%d-" % reps)
        window = [EPOCH_PATTERN[i % len(EPOCH_PATTERN)] for i in range(W)]
        base = {
            "system": "LFR", "mode": "dev",
            "cfg": {"id": cid, "params": p, "long": True, "family": "epochs"},
            "default": [[EPOCH_PATTERN, reps]] + window,
            "menu": [[]] + [[0, 1, 2, 3] for _ in window], "menu_per_pos": True,
            "k": k, "validate_every": 211,
            "label": "LFR|epochs|%s|k%d" % (cid, k),
        }
        if k <= 1:
            base["cost"] = (reps * len(EPOCH_PATTERN) + _dev_size(W, k)) / 300.0
            out.append(base)
        else:
            for t in dev_split(base):
                t["cost"] = (reps * len(EPOCH_PATTERN) + _dev_size(W, k - 1)) / 300.0
                out.append(t)
    return out


REQUIRED = [
    "decisive_none", "decisive_warning", "decisive_drift",
    "lower_bound_alarms", "upper_bound_alarms",
    "lower_bound_warnings", "upper_bound_warnings",
    "cache_hits", "cache_hits_after_reset", "cache_hits_other_exact_rate",
    "histories_with_2_drifts",
    "untracked_rate_would_have_alarmed",
    "stat_kept", "stat_updates", "subsample_skipped_steps",
    "recs_with_warning_before_drift",
    "exact_ties", "strict_tie_lb_warn", "strict_tie_ub_warn", "strict_tie_lb_detect", "strict_tie_ub_detect",
    "band_checks", "band_discriminates_orientation", "band_discriminates_levels",
    # long-epoch families: all functions of the event sequences and parameters only (untested prefixes cannot
    # drift), none depends on the draws
    "block_events", "block_samples",
    "long_tested_steps", "long_tested_since_300", "long_tested_since_1000", "long_tested_rate_step_below_1e-5",
    "xlong_tested_since_5000", "xlong_tested_rate_step_below_1e-7",
    "epochs_tested_steps",
    # underflow family: the first window sample of every history is tested whatever the draws were
    "uflow_tested_steps", "uflow_tested_weights_normal", "uflow_tested_weights_subnormal",
    "uflow_tested_weights_zero", "uflow_tested_weights_zero_by_far",
]


def describe(tier):
    return {
        "rule": "every sequence over the four confusion cells of the stated depth per parameter set "
        "(prefix-shared DFS over the real detector, snapshots by deepcopy), plus every history with <= k "
        "deviations from each default stream of length 20, plus long-epoch histories (run-length blocks of hundreds "
        "to tens of thousands of samples followed by a window with <= k deviations); a history is non-trivial when at least one of "
        "its updates reported warning or drift (or hit a bounds-cache entry made before a reset / for another "
        "exact rate); histories are distinct by construction (distinct event sequences or parameter sets)",
        "bounds": {
            "alphabet": CELLS,
            "dfs": [
                {"family": kind, "parameter_sets": len(cfgs), "depth": depth}
                for kind, cfgs, depth, _ in _dfs_families(tier)
            ],
            "cross": "warning_level stricter than detect_level (0.05/0.2, 0.01/0.1, 0.25/0.4, 0.05/0.4, 0.001/0.05 on two tracked "
                     "rates): the detection band is the narrower one; all 4^%d sequences per configuration" % (6 if tier == "quick" else 7),
            "grid": "time_decay_factor {0.5,0.6,0.7,0.9} x levels %s x burn_in {0,1,2} x subsample {1,2} x "
            "round_val {4,1}, num_mc %d; 'grid' = %s, 'grid7'/quick 'grid' = a 24-member pairwise covering array of it; 'ties' = decay 0.5, "
            "levels (0.4, 0.3) and (0.5, 0.25)"
            % (LEVELS, NUM_MC, "the full 144 product" if tier == "thorough" else "the covering array"),
            "rates_tracked_subsets": "all 15 non-empty subsets at depth 6 x %d parameter set(s), plus one "
            "permuted order of all four" % (1 if tier == "quick" else 2),
            "dev": {
                "L": 20,
                "streams": list(STREAMS),
                "histories": ["%s/%s: k<=%d" % (_cid(DEV_CFGS[ci]), sn, k) for (ci, sn), k in DEV_PLAN[tier].items()],
            },
            "band": {"num_mc": 4000, "N_max": 12, "dkw_eps": DKW_EPS, "k": BAND_K[tier],
                     "streams": len(BAND_STREAMS), "parameter_sets": len(BAND_CFGS)},
            "long_epochs": {
                "shape": "run-length blocks (M samples of a stream, untested: burn_in = samples in the blocks "
                "+ off; every sample still compared) + for 'g<n>' recovery histories one miss per fed rate and n "
                "more samples + a window of W single samples with every choice of <= k deviations over all four "
                "cells; families 'long' (M 120..1000) and 'xlong' (M >= 3500)",
                "streams": {k: {"seed_blocks": v[0], "pattern": [CELLS[c] for c in v[1]],
                                "misses": [CELLS[c] for c in v[2]]} for k, v in LONG_STREAMS.items()},
                "histories": ["%s: W=%d k<=%d" % (_long_task(sp)[0]["cfg"]["id"], sp["W"], sp["k"])
                              for sp in LONG_PLAN[tier]],
            },
            "underflow": {
                "shape": "family 'uflow': one epoch as run-length blocks (untested: burn_in = its length; every sample "
                "compared), then a window of %d samples continuing the stream + %d samples of a total collapse, with "
                "every choice of <= k deviations over all four cells; epoch lengths per decay factor laid out around "
                "(Ns, N0) = the denominators at which eta^N becomes a subnormal double / 0.0: 'normal' (largest tracked "
                "denominator Ns - 40), 'sub' ((Ns + N0) / 2), 'edge' (N0 - 2: the window crosses N0), 'far' (every "
                "tracked denominator >= 1.25 N0); levels / subsample / round_val / num_mc rotate over %s"
                % (UFLOW_CONT, UFLOW_COLLAPSE, UFLOW_ROT),
                "streams": {k: {"pattern": [CELLS[c] for c in v[0]], "collapse": [CELLS[c] for c in v[1]],
                                "rates_tracked": list(v[2])} for k, v in UFLOW_STREAMS.items()},
                "thresholds": {str(eta): list(underflow_thresholds(eta))
                               for eta in sorted({e for e, _, _, _ in UFLOW_PLAN[tier]})},
                "histories": ["%s: epoch %d samples, k<=%d" % (_uflow_task(sp)["cfg"]["id"], sp["M"], sp["k"])
                              for sp in _uflow_specs(tier)],
            },
            "edge_decay_factors": "dfs family 'edge-eta': time_decay_factor 0.0, 1.0, 0.001 and 1 - 2^-53 (the ends "
            "of the documented range [0, 1] and their neighbours), all four rates, every sequence of depth %d"
            % (5 if tier == "quick" else 6),
            "many_epochs": {
                "shape": "the 12-cell pattern %s repeated as one block, then a window of W single samples with "
                "<= k deviations; small burn_in, so the detector is reset again and again (up to ~35 resets, "
                "bounds cache of up to ~250 entries in one history)" % [CELLS[c] for c in EPOCH_PATTERN],
                "histories": ["%s: W=%d k<=%d" % (_cid(p, "epochs%d-" % reps), W, k)
                              for p, reps, W, k in EPOCH_PLAN[tier]],
            },
        },
        "explanation": "states = tree nodes (the bounds cache depends on the whole history, no transposition "
        "merging); traces_validated_against_impl = maximal executions on which the real detector and the "
        "specification were compared after every update; dev-mode histories are partitioned by the position "
        "of their first deviation, so the undeviated prefix before it is re-executed (and counted as "
        "transitions) once per task",
        "assumptions": [
            "draw protocol (DESIGN §2.3): per tested step, for each tracked rate in rates_tracked order whose "
            "(rounded rate, denominator) is not cached, num_mc draws of numpy.random.binomial(1, rate, size=N); "
            "a refactoring that changes order or shape of the draws needs the model updated",
            "numpy.percentile (linear interpolation) and numpy.random.binomial are trusted primitives",
            "statistic comparisons within relative 1e-9 of a bound are numerically undecidable and follow the "
            "implementation (near_tie_steered); for the dyadic decay factor 0.5 all arithmetic is exact and "
            "ties (statistic exactly on a bound = not outside) are enforced strictly",
            "the cache key round(rate, round_val): on an exact rounding tie (e.g. 3/20 at one decimal) the "
            "model follows numpy's round of the float rate; elsewhere it is computed exactly",
            "long-epoch families: the specification keeps rates as exact rationals at any N; its statistic is exact "
            "up to a 2048-bit denominator and rounded to multiples of 2^-1024 afterwards (error < 2^-1024/(1-eta)); "
            "simulated values for N > 64 are numpy.dot sums (relative error ~1e-16 log N) -- both far below the 1e-9 "
            "margin of an undecidable comparison",
            "deep inside a pure epoch the statistic and the bounds agree to a few 1e-16 for every tracked rate at "
            "once (up to 16 undecidable comparisons in one step); in the long-epoch families every undecidable "
            "comparison -- and no decidable one -- may follow the detector (near_tie_steered_beyond_3_flips), "
            "instead of at most three as in mc.numeric.lockstep",
            "seed schedule inside a block: numpy is seeded with (VERIF_SEED, configuration, event position, sample "
            "number) before each update and again before the specification's step; single-sample events keep "
            "(VERIF_SEED, configuration, event position)",
            "sharpening, all families: when the detector's private per-sample table of statistics (_r_stat, the "
            "state named in the property's anchors) is readable, the entry of every tracked rate must equal the "
            "specified exponentially weighted average after every sample (rel 1e-9 / abs 1e-12; counter "
            "statistic_reads, otherwise statistic_unreadable and nothing is demanded); decisions are compared "
            "through the public attributes only",
            "sharpening, all families (round 4): when the detector's private bounds cache (_bounds, named in the "
            "property's anchors) is readable, the entry it stores for a (rounded rate, denominator) the specification "
            "simulated at the same step must equal the stated percentiles of the stated draws (rel 1e-9 / abs 1e-12; "
            "LFR-bounds-value; counter bounds_reads, otherwise bounds_unreadable and nothing is demanded).  NaN / "
            "imprecise bounds are thereby decided at the step they are made, not only when a decision differs",
            "underflow family: weights eta^(N-i) below the smallest subnormal are 0.0 in the specification as in any "
            "correct evaluation (their exact value is < 5e-324 of a statistic of order 1); decay factors 0 and 1 are "
            "taken literally (0^0 = 1)",
            "parallelize=False only; statistical adequacy of num_mc draws is not decided (the band check only "
            "pins orientation and level of the percentiles for N <= 12)",
        ],
    }
