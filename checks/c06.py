"""C06 — Linear Four Rates tracks the four rates and tests them against simulated bounds.

Explored (DESIGN §4 C06): every sequence over the four confusion cells up to a
depth, for a grid of (time_decay_factor, levels, burn_in, subsample, round_val)
and for all 15 non-empty ``rates_tracked`` subsets, plus deviation-bounded long
histories (L = 20, <= k deviations) around stationary and switching default
streams.  Oracle: lock-step agreement with the executable specification
``models/lfr.py`` on drift_state, retraining_recs, counters and
all_drift_states after every update.  Both sides consume numpy's global RNG
from the same per-step seed (§2.3), so the Monte-Carlo bounds are the same
function of the same draws; what is decided is "the bounds are the stated
percentiles of the stated draws and the state follows them".

A second family of runs (``band``) is a deterministic cross-check of the
quantile orientation that does not depend on the draw protocol: with
num_mc = 4000 the bounds used by the model (and, if the private cache is
readable, by the detector) must lie inside the DKW band of the *exact*
distribution of the statistic (2^N outcomes, N <= 12).
"""
import itertools

from menelaus.concept_drift import LinearFourRates

from mc import rng
from mc.explorer import System, Violation, dev_split
from mc.numeric import Decider, close, diff_keys, lockstep
from mc.observe import stream_obs
from models.lfr import RATES, LFRModel, exact_statistic_distribution, quantile_band

PROPERTY = "C06"
# wall-clock safety net only; sized for a machine shared with other builders
TIME_BUDGET = {"quick": 3600, "thorough": 21600}

CELLS = ["TN", "FP", "FN", "TP"]  # event e = 2*y_true + y_pred
DKW_EPS = 0.05  # P(sup|Fn-F| > eps) <= 2exp(-2*4000*eps^2) = 4e-9 per simulation


def _pub(d):
    return {k: v for k, v in d.items() if not k.startswith("_")}


def _impl_bounds(det, p, N, round_val):
    """Best-effort read of the detector's private bounds cache (sharpening only)."""
    cache = getattr(det, "_bounds", None)
    if not isinstance(cache, dict):
        return None
    tol = 0.51 * 10.0 ** (-round_val)
    for k, inner in cache.items():
        try:
            if abs(float(k) - p) <= tol and isinstance(inner, dict) and N in inner:
                b = inner[N]
                return [float(b[x]) for x in ("lb_warn", "ub_warn", "lb_detect", "ub_detect")]
        except (TypeError, ValueError, KeyError):
            return None
    return None


class LFRSystem(System):
    name = "LFR"

    def init(self, cfg):
        p = dict(cfg["params"])
        st = {
            "det": LinearFourRates(parallelize=False, **dict(p, rates_tracked=list(p["rates_tracked"]))),
            "model": LFRModel(**p),
        }
        if cfg.get("shadow"):
            rest = [r for r in RATES if r not in p["rates_tracked"]]
            st["shadow"] = LFRModel(**dict(p, rates_tracked=rest)) if rest else None
        return st

    def alphabet(self, cfg, state, pos):
        return [0, 1, 2, 3]

    def observe(self, det):
        o = stream_obs(det)
        a = getattr(det, "all_drift_states", None)
        if isinstance(a, list):
            o["all_states"] = list(a)
        return o

    def step(self, cfg, state, ev, pos, ctx):
        det = state["det"]
        yt, yp = ev >> 1, ev & 1
        prev_state = state["model"].state
        known = set(state["model"].cache) if cfg.get("band") else None
        rng.seed_step(ctx.seed, cfg["id"], pos)
        try:
            det.update(y_true=yt, y_pred=yp)
            obs = self.observe(det)
        except Exception as e:  # the property allows no exception on valid labels
            raise Violation(
                "LFR-exception",
                "LinearFourRates.update(y_true=%d, y_pred=%d) raised %s: %s after %d samples"
                % (yt, yp, type(e).__name__, e, pos),
                expected="no exception",
                observed=repr(e),
            )

        def call(m, D):
            rng.seed_step(ctx.seed, cfg["id"], pos)
            return m.step(ev, D)

        def agree(e):
            e = _pub(e)
            if "all_states" not in obs:
                e.pop("all_states")
            return not diff_keys(e, obs)

        model, exp, ok = lockstep(state["model"], call, agree, stats=ctx.stats)
        state["model"] = model
        if not ok:
            e = _pub(exp)
            if "all_states" not in obs:
                e.pop("all_states")
            bad = diff_keys(e, obs)
            raise Violation(
                "LFR-spec",
                "LinearFourRates disagrees with its executable specification on %s after %d samples "
                "(cell %s, model detail %s)" % (bad, pos + 1, CELLS[ev], exp["_detail"]),
                expected=e,
                observed=obs,
            )
        d = model.diag
        st = obs["state"]
        decisive = d["near"] == 0
        if st == "drift":
            ctx.mark("drift_transitions")
        elif st == "warning":
            ctx.mark("warning_transitions")
        if d["eligible"]:
            ctx.count("tested_steps")
            if decisive:
                ctx.count("decisive_" + str(st).lower())
                if d["lb_detect"]:
                    ctx.count("lower_bound_alarms")
                if d["ub_detect"]:
                    ctx.count("upper_bound_alarms")
                if d["lb_warn"]:
                    ctx.count("lower_bound_warnings")
                if d["ub_warn"]:
                    ctx.count("upper_bound_warnings")
            else:
                ctx.count("steps_with_near_tie")
        elif model.since > model.burn_in:
            ctx.count("subsample_skipped_steps")
        for k in ("simulations", "cache_hits", "cache_hits_after_reset", "cache_hits_other_exact_rate",
                  "rounding_ties", "stat_updates", "stat_kept"):
            if d[k]:
                ctx.count(k, d[k])
        for k in ("lb_warn", "ub_warn", "lb_detect", "ub_detect"):
            if d["tie_" + k]:
                ctx.mark("strict_tie_" + k, d["tie_" + k])
        if d["cache_hits_after_reset"] or d["cache_hits_other_exact_rate"]:
            ctx.mark()
        if st == "drift" and model.drifts == 2:
            ctx.count("histories_with_2_drifts")
        if st == "drift" and model.drifts == 3:
            ctx.count("histories_with_3_drifts")
        if st == "drift" and prev_state == "drift":
            ctx.count("back_to_back_drifts")
        r = obs["recs"]
        if r[0] is not None and r[1] is not None and r[0] < r[1]:
            ctx.count("recs_with_warning_before_drift")

        sh = state.get("shadow")
        if sh is not None:
            # what the untracked rates would have said, same epochs as the real run
            sh.state = prev_state
            rng.seed_step(ctx.seed, cfg["id"], pos, "shadow")
            sh.step(ev, Decider())
            if sh.state == "drift" and st != "drift" and sh.diag["near"] == 0:
                ctx.mark("untracked_rate_would_have_alarmed")
                if st is None:
                    ctx.count("untracked_alarm_while_state_none")
            elif sh.state == "warning" and st is None and sh.diag["near"] == 0:
                ctx.count("untracked_rate_would_have_warned")
            sh.state = None

        if cfg.get("band"):
            self.band_check(cfg, det, model, known, ctx, pos)
        obs["cell"] = CELLS[ev]
        return obs

    def band_check(self, cfg, det, model, known, ctx, pos):
        """Bounds simulated at this step vs. the exact distribution (N <= 12)."""
        n = model.num_mc
        eps = DKW_EPS + 2.0 / n
        wl, dl = model.warning_level, model.detect_level
        levels = (wl, 1 - wl, dl, 1 - dl)
        names = ("lb_warn", "ub_warn", "lb_detect", "ub_detect")
        for key, (b, _, p) in model.cache.items():
            if key in known or key[1] > 12:
                continue
            pf = p.numerator / p.denominator
            dist = exact_statistic_distribution(model.eta, pf, key[1])
            bands = [quantile_band(dist, u - eps, u + eps) for u in levels]
            ib = _impl_bounds(det, pf, key[1], model.round_val)
            ctx.mark("band_checks")
            if bands[0][1] < bands[1][0] and bands[2][1] < bands[3][0]:
                ctx.count("band_discriminates_orientation")
            if bands[2][1] < bands[0][0] and bands[1][1] < bands[3][0]:
                ctx.count("band_discriminates_levels")
            for who, vals in (("model", b), ("detector", ib)):
                if vals is None:
                    ctx.count("band_detector_cache_unreadable")
                    continue
                for nm, v, (lo, hi) in zip(names, vals, bands):
                    tol = 1e-9 * max(abs(lo), abs(hi), 1e-12)
                    if not (lo - tol <= v <= hi + tol):
                        raise Violation(
                            "LFR-quantile-band",
                            "%s bound %s=%r for rate %s, N=%d (eta=%s, num_mc=%d) is outside the DKW band "
                            "[%r, %r] of the exact distribution of the statistic at level %s"
                            % (who, nm, v, p, key[1], model.eta, n, lo, hi, levels[names.index(nm)]),
                            expected=[lo, hi],
                            observed=v,
                        )
            if ib is not None:
                ctx.count("band_detector_cache_read")
                if not close(list(b), ib):
                    raise Violation(
                        "LFR-bounds-value",
                        "bounds cached by the detector for rate %s, N=%d differ from the stated percentiles "
                        "of the stated draws" % (p, key[1]),
                        expected=list(b),
                        observed=ib,
                    )


SYSTEMS = {"LFR": LFRSystem()}

ALL = list(RATES)
LEVELS = [(0.05, 0.05), (0.2, 0.05), (0.4, 0.1)]  # (warning_level, detect_level)
NUM_MC = 30


def _params(eta, wl, dl, burn, sub, rv, tracked=ALL, num_mc=NUM_MC):
    return {
        "time_decay_factor": eta, "warning_level": wl, "detect_level": dl, "burn_in": burn,
        "num_mc": num_mc, "subsample": sub, "rates_tracked": list(tracked), "round_val": rv,
    }


def _cid(p, tag=""):
    t = "all" if list(p["rates_tracked"]) == ALL else "+".join(p["rates_tracked"])
    return "%se%s-w%s-d%s-b%d-s%d-r%d-%s" % (
        tag, p["time_decay_factor"], p["warning_level"], p["detect_level"], p["burn_in"],
        p["subsample"], p["round_val"], t)


ETAS = (0.5, 0.6, 0.7, 0.9)


def _grid(which):
    """(eta, levels, burn_in, subsample, round_val) grid of the design.

    "full": the 4*3*3*2*2 = 144 product; "cover": the 24 members whose index
    form i_eta + i_levels + burn_in + i_sub + 3*i_rv is divisible by 6 (a pairwise
    covering array: every pair of values of any two parameters occurs)."""
    out = []
    for eta, lv, burn, sub, rv in itertools.product(ETAS, LEVELS, (0, 1, 2), (1, 2), (4, 1)):
        s = ETAS.index(eta) + LEVELS.index(lv) + burn + (sub - 1) + (0 if rv == 4 else 3)
        if which == "cover" and s % 6 != 0:
            continue
        out.append(_params(eta, lv[0], lv[1], burn, sub, rv))
    return out


# dfs families: (name, parameter sets, depth, root split)
DEEP_A = _params(0.6, 0.2, 0.05, 1, 1, 1)
DEEP_B = _params(0.7, 0.4, 0.1, 0, 2, 4)
DEEP_C = _params(0.5, 0.2, 0.05, 2, 1, 1)
# dyadic decay factor + wide levels: the statistic lands exactly on each of the
# four bounds (exact arithmetic, ties enforced strictly).  Chosen by a model-only
# scan over seeds 0..11: every bound side has >= 290 exact ties for every seed
# (lb_detect ties are the rare ones; a single parameter set had none for seed 1).
TIE_CFGS = [_params(0.5, 0.4, 0.3, 0, 1, 4), _params(0.5, 0.5, 0.25, 2, 1, 1)]
SUBSET_BASES = [(0.6, 0.4, 0.1, 0, 1, 1), (0.7, 0.2, 0.05, 1, 1, 4)]


def _dfs_families(tier):
    if tier == "quick":
        return [("grid", _grid("cover"), 6, 1), ("deep", [DEEP_A], 7, 2), ("ties", TIE_CFGS, 6, 1)]
    return [
        ("ties", TIE_CFGS, 7, 1),
        ("grid", _grid("full"), 6, 1),
        ("grid7", _grid("cover"), 7, 1),
        ("deep8", [DEEP_B, DEEP_C], 8, 2),
        ("deep9", [DEEP_A], 9, 3),
    ]


# default streams for dev mode (L = 20); cells: 0 TN, 1 FP, 2 FN, 3 TP
STREAMS = {
    "stationary": [3, 0, 3, 0, 1, 3, 0, 2, 3, 0, 3, 0, 1, 3, 0, 2, 3, 0, 3, 0],
    "switching": [3, 0, 3, 0, 3, 0, 3, 0, 3, 0, 2, 1, 2, 1, 2, 1, 2, 1, 2, 1],
    "allpos": [3] * 20,
    "classflip": [3, 0, 3, 0, 3, 0, 3, 0, 3, 3, 1, 3, 1, 3, 1, 1, 3, 1, 3, 1],
}
DEV_CFGS = [
    _params(0.6, 0.2, 0.05, 3, 1, 1),
    _params(0.7, 0.4, 0.1, 8, 1, 4),
    _params(0.5, 0.2, 0.05, 5, 2, 1),
    _params(0.9, 0.4, 0.1, 8, 1, 1),
    _params(0.7, 0.05, 0.05, 0, 2, 1),
    _params(0.6, 0.4, 0.1, 8, 2, 4),
]
# (index into DEV_CFGS, stream) -> k
DEV_PLAN = {
    "quick": {(0, "stationary"): 2, (0, "allpos"): 2, (1, "switching"): 2, (2, "classflip"): 2,
              (4, "classflip"): 2, (3, "stationary"): 1},
    "thorough": {(ci, s): 2 for ci in range(6) for s in STREAMS},
}
DEV_PLAN["thorough"].update({(0, "allpos"): 3, (4, "classflip"): 3})

BAND_CFGS = [
    _params(0.7, 0.3, 0.05, 0, 1, 8, num_mc=4000),
    _params(0.6, 0.25, 0.1, 0, 1, 8, ("ppv", "tnr"), num_mc=4000),
]
BAND_STREAMS = [[3, 0, 3, 2, 3, 1, 0, 3, 3, 2], [0, 3, 1, 0, 2, 0, 0, 1, 3, 0], [3, 3, 0, 2, 3, 3, 1, 3, 0, 3]]
BAND_K = {"quick": 0, "thorough": 1}


def _dev_size(rem, k):
    """transitions of a dev tree with rem positions left and k deviations (3 alternatives each)."""
    import math
    return sum(sum(math.comb(j, m) * 3 ** m for m in range(k + 1)) for j in range(1, rem + 1))


def tasks(tier, seed):
    out = []

    def dfs(p, depth, split, kind, **extra):
        cid = _cid(p)
        for prefix in itertools.product(range(4), repeat=split):
            out.append({
                "system": "LFR",
                "cfg": dict({"id": cid, "params": p}, **extra),
                "prefix": list(prefix),
                "depth": depth - split,
                "label": "LFR|%s|%s|%s" % (kind, cid, "".join(map(str, prefix))),
                "cost": 4 ** (depth - split) / 1000.0,
                "validate_every": 199,
            })

    for kind, cfgs, depth, split in _dfs_families(tier):
        for p in cfgs:
            dfs(p, depth, split, kind)
    for base in SUBSET_BASES[: 1 if tier == "quick" else 2]:
        for n in range(1, 5):
            for sub in itertools.combinations(RATES, n):
                dfs(_params(*base, tracked=sub), 6, 1, "subset", shadow=True)
    # a permuted order of tracked rates: the draw order follows rates_tracked
    dfs(_params(0.6, 0.4, 0.1, 0, 1, 1, ("npv", "tpr", "ppv", "tnr")), 6, 1, "order")

    # dev mode, partitioned (mc.explorer.dev_split) by the position of the first
    # deviation: the undeviated history, and for every position i and alternative
    # a the histories default[:i] + [a] + (<= k-1 deviations in the rest)
    for (ci, sname), k in DEV_PLAN[tier].items():
        p = DEV_CFGS[ci]
        default = STREAMS[sname]
        cid = _cid(p, "dev-")
        base = {"system": "LFR", "mode": "dev", "cfg": {"id": cid, "params": p},
                "default": default, "menu": [0, 1, 2, 3], "k": k, "validate_every": 97,
                "label": "LFR|dev|%s|%s|k%d" % (cid, sname, k)}
        for t in dev_split(base):
            used = len(t.get("prefix", default))
            t["cost"] = (_dev_size(len(default) - used, k - 1) + used) / 1000.0
            out.append(t)
    for p in BAND_CFGS:
        for si, default in enumerate(BAND_STREAMS):
            cid = _cid(p, "band-")
            out.append({
                "system": "LFR", "mode": "dev",
                "cfg": {"id": cid, "params": p, "band": True},
                "default": default, "menu": [0, 3], "k": BAND_K[tier],
                "label": "LFR|band|%s|%d" % (cid, si),
                "cost": 6, "validate_every": 0,
            })
    return out


REQUIRED = [
    "decisive_none", "decisive_warning", "decisive_drift",
    "lower_bound_alarms", "upper_bound_alarms",
    "lower_bound_warnings", "upper_bound_warnings",
    "cache_hits", "cache_hits_after_reset", "cache_hits_other_exact_rate",
    "histories_with_2_drifts",
    "untracked_rate_would_have_alarmed",
    "stat_kept", "stat_updates", "subsample_skipped_steps",
    "recs_with_warning_before_drift",
    "exact_ties", "strict_tie_lb_warn", "strict_tie_ub_warn", "strict_tie_lb_detect", "strict_tie_ub_detect",
    "band_checks", "band_discriminates_orientation", "band_discriminates_levels",
]


def describe(tier):
    return {
        "rule": "every sequence over the four confusion cells of the stated depth per parameter set "
        "(prefix-shared DFS over the real detector, snapshots by deepcopy), plus every history with <= k "
        "deviations from each default stream of length 20; a history is non-trivial when at least one of "
        "its updates reported warning or drift (or hit a bounds-cache entry made before a reset / for another "
        "exact rate); histories are distinct by construction (distinct event sequences or parameter sets)",
        "bounds": {
            "alphabet": CELLS,
            "dfs": [
                {"family": kind, "parameter_sets": len(cfgs), "depth": depth}
                for kind, cfgs, depth, _ in _dfs_families(tier)
            ],
            "grid": "time_decay_factor {0.5,0.6,0.7,0.9} x levels %s x burn_in {0,1,2} x subsample {1,2} x "
            "round_val {4,1}, num_mc %d; 'grid' = %s, 'grid7'/quick 'grid' = a 24-member pairwise covering array of it; 'ties' = decay 0.5, "
            "levels (0.4, 0.3) and (0.5, 0.25)"
            % (LEVELS, NUM_MC, "the full 144 product" if tier == "thorough" else "the covering array"),
            "rates_tracked_subsets": "all 15 non-empty subsets at depth 6 x %d parameter set(s), plus one "
            "permuted order of all four" % (1 if tier == "quick" else 2),
            "dev": {
                "L": 20,
                "streams": list(STREAMS),
                "histories": ["%s/%s: k<=%d" % (_cid(DEV_CFGS[ci]), sn, k) for (ci, sn), k in DEV_PLAN[tier].items()],
            },
            "band": {"num_mc": 4000, "N_max": 12, "dkw_eps": DKW_EPS, "k": BAND_K[tier],
                     "streams": len(BAND_STREAMS), "parameter_sets": len(BAND_CFGS)},
        },
        "explanation": "states = tree nodes (the bounds cache depends on the whole history, no transposition "
        "merging); traces_validated_against_impl = maximal executions on which the real detector and the "
        "specification were compared after every update; dev-mode histories are partitioned by the position "
        "of their first deviation, so the undeviated prefix before it is re-executed (and counted as "
        "transitions) once per task",
        "assumptions": [
            "draw protocol (DESIGN §2.3): per tested step, for each tracked rate in rates_tracked order whose "
            "(rounded rate, denominator) is not cached, num_mc draws of numpy.random.binomial(1, rate, size=N); "
            "a refactoring that changes order or shape of the draws needs the model updated",
            "numpy.percentile (linear interpolation) and numpy.random.binomial are trusted primitives",
            "statistic comparisons within relative 1e-9 of a bound are numerically undecidable and follow the "
            "implementation (near_tie_steered); for the dyadic decay factor 0.5 all arithmetic is exact and "
            "ties (statistic exactly on a bound = not outside) are enforced strictly",
            "the cache key round(rate, round_val): on an exact rounding tie (e.g. 3/20 at one decimal) the "
            "model follows numpy's round of the float rate; elsewhere it is computed exactly",
            "parallelize=False only; statistical adequacy of num_mc draws is not decided (the band check only "
            "pins orientation and level of the percentiles for N <= 12)",
        ],
    }
