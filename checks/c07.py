"""C07 — HDDDM / CDBD alarm exactly when the distance change exceeds the adaptive bound.

Explored: every sequence of update(batch) events (menu of 6 batches: two
reference-like, two shifted, two widened; 4 and 9 rows; 1 and 2 features for
HDDDM, 1 for CDBD) — optionally interleaved with set_reference(batch) events —
up to the stated depth, for detect_batch x statistic x significance x
divergence x subsets, on the real detector.

Oracle: lock-step agreement with models/hdm.py after every call (drift_state,
current_distance, distances, epsilon_values, thresholds, beta, reference_n,
feature_epsilons, feature_info, counters; bootstrap epsilon_0 both read back
from ``thresholds`` and recomputed under the same seed) plus the distance axioms
as invariants (identity, symmetry through a role-swapped second detector,
bounds).
"""
import math

import numpy as np
import pandas as pd

from menelaus.data_drift import CDBD, HDDDM

from mc.explorer import System, Violation
from mc.numeric import close, lockstep
from mc.observe import batch_obs, fl
from mc.rng import seed_step
from models.hdm import HDMModel, bound_of, SQRT2

PROPERTY = "C07"

# --------------------------------------------------------------------------- data
_LO4 = np.array([[0.0, 1.0], [1.0, 0.0], [2.0, 2.0], [3.0, 1.0]])
_LO9 = np.array(
    [[0.2, 0.9], [1.1, 0.1], [2.2, 1.9], [2.9, 1.2], [0.6, 0.4],
     [1.6, 1.7], [2.4, 0.3], [0.9, 1.4], [1.9, 0.8]]
)
MENU2 = [
    _LO4,                                   # 0 reference-like, 4 rows (identical to ref0 = 0)
    _LO9,                                   # 1 reference-like, 9 rows (identical to ref0 = 1)
    _LO4 + np.array([2.5, 0.3]),            # 2 shifted (mostly feature 0), 4 rows
    _LO9 + np.array([0.4, 3.1]),            # 3 shifted (mostly feature 1), 9 rows
    _LO4 * np.array([2.2, 0.4]) - np.array([1.7, -0.3]),   # 4 widened f0 / narrowed f1, 4 rows
    _LO9 * np.array([0.5, 2.6]) + np.array([0.8, -1.9]),   # 5 narrowed f0 / widened f1, 9 rows
]
MENU1 = [m[:, :1].copy() for m in MENU2]
NAMES = ["lo4", "lo9", "shift4", "shift9", "wide4", "wide9"]


def euclid_hist(reference_hist, test_hist):
    """User-supplied metric: Euclidean distance of the normalised histograms."""
    r = np.asarray(reference_hist, dtype=float)
    t = np.asarray(test_hist, dtype=float)
    return float(np.sqrt(np.sum((r / r.sum() - t / t.sum()) ** 2)))


DIVS = {"H": "H", "KL": "KL", "custom": euclid_hist}

# user functions that read the histograms as what they are documented to be (frequency counts per bin, in bin
# order): not invariant under rescaling a histogram, unbounded (filled in by the round-3 section below)
COUNT_FNS = set()


def _bound(divname):
    if divname in COUNT_FNS:
        return math.inf  # the property bounds Hellinger and Jensen-Shannon only
    b = bound_of(DIVS[divname])
    return SQRT2 if b is None else b  # euclid of two probability vectors <= sqrt(2)


# --------------------------------------------------------------------------- observation
def hdm_obs(det):
    o = batch_obs(det)
    o["current_distance"] = fl(getattr(det, "current_distance", None))
    for k in ("distances", "epsilon_values", "thresholds"):
        o[k] = {str(a): fl(b) for a, b in getattr(det, k).items()}
    o["beta"] = fl(getattr(det, "beta", None))
    rn = getattr(det, "reference_n", None)
    o["reference_n"] = None if rn is None else int(rn)
    fe = getattr(det, "feature_epsilons", None)
    o["feature_epsilons"] = None if fe is None else [fl(x) for x in fe]
    fi = getattr(det, "feature_info", None)
    if isinstance(fi, dict):
        n = {}
        for k, v in fi.items():
            k = str(k).strip()
            if isinstance(v, (list, tuple, np.ndarray)):
                n[k] = [fl(x) for x in v]
            elif isinstance(v, (int, np.integer)):
                n[k] = int(v)
            else:
                n[k] = v if isinstance(v, str) else repr(v)
        o["feature_info"] = n
    else:
        o["feature_info"] = None
    return o


def _bad_keys(exp, obs):
    bad = []
    for k, v in exp.items():
        if k.startswith("_"):
            continue
        if k not in obs or not close(v, obs[k]):
            bad.append(k)
    anyof = exp.get("_reference_n_any_of")
    if anyof is not None and obs.get("reference_n") not in anyof:
        bad.append("reference_n")
    fi = exp.get("_feature_info")
    if fi is not None:
        o = obs.get("feature_info")
        if (
            not isinstance(o, dict)
            or not close(fi["Epsilons"], o.get("Epsilons"))
            or not close(fi["Feature_Distances"], o.get("Feature_Distances"))
            or o.get("Significant_drift_in_variable") not in fi["argmax"]
        ):
            bad.append("feature_info")
    return bad


def _rows_sorted(a):
    return a[np.lexsort(a.T[::-1])]


def _identity_kind(ref, X):
    """"same" (array-equal), "row_permuted" (same multiset of rows), "proportional" (same distinct rows,
    multiplicities in the ratio of the sizes: every histogram of X is an exact multiple of the reference's,
    so the normalised histograms coincide bit for bit) or None."""
    if np.array_equal(ref, X):
        return "same"
    if ref.shape[1] != X.shape[1]:
        return None
    a, b = ref.mean(axis=0), X.mean(axis=0)
    if not np.all(np.abs(a - b) <= 1e-9 * np.maximum(np.abs(a), np.abs(b)) + 1e-300):
        return None  # cheap screen: equal multisets up to multiplicity have equal column means
    if len(ref) == len(X):
        return "row_permuted" if np.array_equal(_rows_sorted(ref), _rows_sorted(X)) else None
    ur, cr = np.unique(ref, axis=0, return_counts=True)
    ux, cx = np.unique(X, axis=0, return_counts=True)
    if ur.shape == ux.shape and np.array_equal(ur, ux) and np.array_equal(cx * len(ref), cr * len(X)):
        return "proportional"
    return None


def _f32_pair_ambiguous(ref, X):
    """Could float32 binning (numpy bins float32 data with float32 edges) count differently from exact
    arithmetic?  Only if every value is float32-representable (otherwise one of the frames is float64 and
    numpy promotes the edges to float64, like the specification) and some value lies within 1e-4 of the
    range of an interior edge whose float32 or float64 linspace value is not the exact rational edge."""
    from fractions import Fraction

    bins = math.isqrt(len(ref))
    if bins < 2:
        return False
    for f in range(ref.shape[1]):
        col = np.concatenate([ref[:, f], X[:, f]])
        if not np.array_equal(col.astype(np.float32).astype(float), col):
            continue
        lo, hi = float(col.min()), float(col.max())
        if lo == hi:
            continue
        e64 = np.linspace(lo, hi, bins + 1)
        e32 = np.linspace(np.float32(lo), np.float32(hi), bins + 1, dtype=np.float32)
        for k in range(1, bins):
            exact = Fraction(lo) + (Fraction(hi) - Fraction(lo)) * k / bins
            if Fraction(float(e64[k])) == exact and Fraction(float(e32[k])) == exact:
                continue
            if np.any(np.abs(col - float(exact)) < 1e-4 * (hi - lo)):
                return True
    return False


def _f32_ambiguous(model0, X, detect_batch):
    pairs = []
    ref = model0.ref
    if model0.state == "drift" and detect_batch == 1:
        h = len(ref) // 2
        pairs.append((ref[:h], ref[h:]))
    pairs.append((ref, X))
    return any(_f32_pair_ambiguous(a, b) for a, b in pairs)


# --------------------------------------------------------------------------- system
class HDMSystem(System):
    def __init__(self, name, det_cls, features):
        self.name = name
        self.det_cls = det_cls
        self.features = features
        self.menu = MENU2 if features == 2 else MENU1

    # -- helpers
    def _params(self, cfg):
        p = cfg["params"]
        return dict(
            detect_batch=p["detect_batch"],
            statistic=p["statistic"],
            significance=p["significance"],
            subsets=p["subsets"],
            divergence=DIVS[p["divergence"]],
        )

    def _wrap(self, cfg, arr):
        arr = np.array(arr, dtype=float)
        if cfg.get("container") == "df":
            cols = ["a", "b"][: arr.shape[1]]
            return pd.DataFrame(arr, columns=cols)
        return arr

    # -- the batch behind a menu index (overridden by the round-3 family system)
    def _data(self, cfg, bi):
        """float64 array of the values handed to the detector (what the specification sees)"""
        return self.menu[bi]

    def _obj(self, cfg, bi):
        """the object actually handed to the detector"""
        return self._wrap(cfg, self.menu[bi])

    def _bname(self, cfg, bi):
        return NAMES[bi]

    def _known_defect(self, cfg, n_rows_to_split):
        """(sub, sig, text) when an exception is explained by a catalogued call-site class, else None"""
        if cfg["params"]["detect_batch"] == 1 and n_rows_to_split == 2:
            return (
                "HDM-detect_batch1-two-row-reference",
                " -- detect_batch=1 splits a 2-row reference into 1 + 1 rows and feeds the 1-row half "
                "through the public input validation, which refuses it",
            )
        return None

    def _family(self, cfg, ctx, bi, X, ref_before, model0, model, exp, obs):
        """coverage counters of the round-3 families (none for the original menu)"""

    def init(self, cfg):
        kw = self._params(cfg)
        # the initial set_reference is executed lazily by the first step, so that a disagreement
        # there is reported as a violation of the history and not as a harness crash
        return {"det": self.det_cls(**kw), "model": HDMModel(**kw), "nsetref": 0, "ready": False}

    def _start(self, cfg, state):
        det, model = state["det"], state["model"]
        r0 = self._data(cfg, cfg["ref0"])
        try:
            det.set_reference(self._obj(cfg, cfg["ref0"]))
        except Exception as e:  # noqa: BLE001
            kd = self._known_defect(cfg, len(r0))
            raise Violation(kd[0] if kd else "%s-exception" % self.name,
                            "initial set_reference(%s) raised %r%s" % (self._bname(cfg, cfg["ref0"]), e, kd[1] if kd else ""),
                            observed=repr(e))
        exp = model.set_reference(r0)
        obs = hdm_obs(det)
        bad = _bad_keys(exp, obs)
        if bad:
            raise Violation(
                "%s-set_reference" % self.name,
                "after the initial set_reference(%s) the detector disagrees with the specification on %s"
                % (self._bname(cfg, cfg["ref0"]), bad),
                expected=exp, observed=obs,
            )
        state["ready"] = True

    def alphabet(self, cfg, state, pos):
        evs = [["u", i] for i in cfg.get("alpha", range(len(self.menu)))]
        if state["nsetref"] < cfg.get("max_setref", 0):
            evs += [["r", i] for i in cfg.get("setref_menu", [])]
        return evs

    # -- one event
    def step(self, cfg, state, ev, pos, ctx):
        kind, bi = ev[0], int(ev[1])
        X = self._data(cfg, bi)
        bname = self._bname(cfg, bi)
        state["last"] = None
        prev_kind, state["prev_kind"] = state.get("prev_kind"), kind
        if cfg.get("f32_guard") and cfg["params"]["detect_batch"] == 1:
            # detect_batch=1 compares the two halves of a new reference with each other
            for arr in ([] if state["ready"] else [self._data(cfg, cfg["ref0"])]) + ([X] if kind == "r" else []):
                if _f32_pair_ambiguous(arr[: len(arr) // 2], arr[len(arr) // 2:]):
                    ctx.count("f32_edge_ambiguous_steps_not_judged")
                    ctx.terminal = True
                    return {}
        if not state["ready"]:
            self._start(cfg, state)
            if state["model"].db == 1:
                ctx.count("proxy_batches")
        det = state["det"]
        model0 = state["model"]
        divname = cfg["params"]["divergence"]
        sid = (self.name, cfg["id"])

        if kind == "r":
            used = model0.used
            was_drift = model0.state == "drift"
            stale = model0.total != model0.last_drift_index
            try:
                seed_step(ctx.seed, sid, pos)
                det.set_reference(self._obj(cfg, bi))
            except Exception as e:  # noqa: BLE001
                kd = self._known_defect(cfg, len(X))
                raise Violation(
                    kd[0] if kd else "%s-exception" % self.name,
                    "set_reference(%s) raised %r%s" % (bname, e, kd[1] if kd else ""),
                    observed=repr(e),
                )
            obs = hdm_obs(det)
            exp = model0.set_reference(X)
            state["nsetref"] += 1
            bad = _bad_keys(exp, obs)
            if bad:
                raise Violation(
                    "%s-set_reference" % self.name,
                    "after set_reference(%s) at call %d the detector disagrees with the specification on %s"
                    % (bname, pos + 1, bad),
                    expected=exp, observed=obs,
                )
            ctx.mark("set_reference_events")
            if used:
                ctx.count("set_reference_on_used_detector")
            if stale:
                ctx.count("set_reference_not_right_after_drift")
            if pos == 0:
                ctx.count("set_reference_as_first_call")
            if prev_kind == "r":
                ctx.count("set_reference_twice_in_a_row")
            if was_drift:
                ctx.count("set_reference_right_after_a_drift_report")
            if pos == cfg.get("len", -1) - 1:
                ctx.count("set_reference_as_last_call")
            if exp.get("_proxy"):
                ctx.count("proxy_batches")
            self._bounds(obs, divname)
            return obs

        # ---- update(batch)
        # reference this batch is compared with: the pooled reference, or (right after a drift)
        # the drifted batch -- for detect_batch=1 its two halves, re-united by the proxy batch
        ref_before = model0.ref
        try:
            seed_step(ctx.seed, sid, pos)
            det.update(self._obj(cfg, bi))
        except Exception as e:  # noqa: BLE001
            # a pending re-initialisation (previous call reported drift) splits the drifted batch
            kd = self._known_defect(cfg, len(model0.ref) if model0.state == "drift" else -1)
            raise Violation(
                kd[0] if kd else "%s-exception" % self.name,
                "update(%s) at call %d raised %r%s" % (bname, pos + 1, e, kd[1] if kd else ""),
                observed=repr(e),
            )
        obs = hdm_obs(det)
        if cfg.get("f32_guard") and _f32_ambiguous(model0, X, cfg["params"]["detect_batch"]):
            # float32 frames are binned by numpy in float32: where a value lies on / next to an interior
            # edge that float32 or float64 cannot represent exactly, the two precisions may legitimately
            # count differently -- such a step is not judged and closes the branch (counted)
            ctx.count("f32_edge_ambiguous_steps_not_judged")
            ctx.terminal = True
            return obs

        def call(m, D):
            return m.update(X, D, reseed=lambda: seed_step(ctx.seed, sid, pos))

        model, exp, ok = lockstep(
            model0, call, lambda e: not _bad_keys(e, obs), stats=ctx.stats
        )
        if not ok and cfg.get("asym") and "_e0" in exp:
            # the order of the two histograms inside a bootstrap pair is not documented; with an
            # asymmetric user function either order is accepted for epsilon_0 (and only there)
            import copy

            m2 = copy.deepcopy(model0)
            m2.boot_swap = True
            model2, exp2, ok2 = lockstep(m2, call, lambda e: not _bad_keys(e, obs))
            if ok2:
                model2.boot_swap = False
                model, exp, ok = model2, exp2, True
                ctx.count("bootstrap_pair_order_swapped_accepted")
        if not ok:
            bad = _bad_keys(exp, obs)
            sub = "%s-spec" % self.name
            sig = None
            what = ""
            if "_e0" in exp and "thresholds" in bad and not (
                set(bad) & {"distances", "epsilon_values", "current_distance", "feature_epsilons"}
            ) and not close(
                exp["_e0"], obs["thresholds"].get(str(obs["total"]))
            ):
                sub = "%s-bootstrap-epsilon0" % self.name
                what = (
                    " (the threshold of the bootstrap batch must equal epsilon_0 recomputed under the same "
                    "seed: %r vs %r)" % (exp["_e0"], obs["thresholds"].get(str(obs["total"])))
                )
            elif model0.setrefs > 1:
                # classification only: does the known stale-_lambda behaviour explain it?
                import copy

                m2 = copy.deepcopy(model0)
                m2.lam_mode = "stale-set_reference"
                _, exp2, ok2 = lockstep(m2, call, lambda e: not _bad_keys(e, obs))
                if ok2:
                    sub = "HDM-set_reference-stale-lambda"
                    sig = sub
                    what = (
                        " — explained by set_reference() on a used detector keeping the drift index of the "
                        "previous epoch (divisor t-lambda-1 = %d instead of %d)"
                        % (obs["total"] - model0.last_drift_index - 1, model0.since if model0.state != "drift" else 0)
                    )
            raise Violation(
                sub,
                "%s disagrees with its specification on %s after call %d (%s %s)%s"
                % (self.name, bad, pos + 1, "update", bname, what),
                expected={k: v for k, v in exp.items()},
                observed=obs,
                sig=sig,
            )
        state["model"] = model

        # ---- invariants (distance axioms)
        self._bounds(obs, divname)
        d = obs["current_distance"]
        if obs["state"] == "drift" and isinstance(obs.get("feature_info"), dict) and "_feature_info" in exp:
            for v in obs["feature_info"].get("Feature_Distances") or []:
                if v is None or not (0.0 <= v <= _bound(divname) * (1 + 1e-12) + 1e-15):
                    raise Violation("%s-bound" % self.name, "per-feature distance %r outside [0, bound]" % v,
                                    expected=[0, _bound(divname)], observed=v)
        ik = _identity_kind(ref_before, X)
        if ik == "proportional" and divname in COUNT_FNS:
            ik = None  # a function of the raw counts need not vanish when every count is doubled
        if ik is not None:
            ctx.count("identity_checks" if ik == "same" else "identity_checks_" + ik)
            if not (abs(d) <= 1e-12):
                raise Violation(
                    "%s-identity" % self.name,
                    "distance of a batch identical to the reference%s is %r, not 0"
                    % ({"same": "", "row_permuted": " up to row order",
                        "proportional": " up to row multiplicities (every reference row repeated equally often)"}[ik], d),
                    expected=0.0, observed=d,
                )
        if len(ref_before) == len(X) and not cfg.get("asym"):
            self._symmetry(cfg, ref_before, X, d, ctx)
        self._family(cfg, ctx, bi, X, ref_before, model0, model, exp, obs)
        state["last"] = {"dof": exp.get("_dof"), "sd": exp.get("_sd")}

        # ---- coverage counters
        if exp["_proxy"]:
            ctx.count("proxy_batches")
            ctx.count("proxy_batches_after_drift")
        if "beta" in exp:
            if obs["state"] == "drift":
                ctx.mark("drift_transitions")
                if model.drifts == 2:
                    ctx.count("second_drift_of_a_history")
                if model.drifts >= 3:
                    ctx.count("third_or_later_drift_of_a_history")
                fi = exp.get("_feature_info")
                if fi is not None and len(fi["argmax"]) == 1:
                    ctx.count("feature_info_names_feature_%d" % fi["argmax"][0])
            else:
                ctx.count("decisions_no_drift")
                e, b = exp["_eps"], exp["beta"]
                if b > 0 and 0.5 * b <= e:
                    ctx.mark("no_drift_within_factor2_of_threshold")
        if "_e0" in exp:
            ctx.count("bootstrap_epsilon0_recomputed")
            if model.epochs >= 2:
                ctx.count("bootstrap_in_2nd_or_later_epoch")
        if exp["_removed_e0"]:
            ctx.count("bootstrap_removed")
            if model.epochs >= 2:
                ctx.mark("bootstrap_removed_in_2nd_or_later_epoch")
        if obs["state"] != "drift":
            nb = exp["_n_ref_before"]
            if math.isqrt(len(model.ref)) > math.isqrt(nb):
                ctx.count("no_drift_reference_growth_crossed_bins_boundary")
        if pos == cfg.get("len", -1) - 1:
            if model.drifts >= 2:
                ctx.count("histories_with_ge2_drifts")
            if model.drifts >= 3:
                ctx.count("histories_with_ge3_drifts")
        return obs

    # -- pieces
    def _bounds(self, obs, divname):
        ub = _bound(divname)
        for k, v in obs["distances"].items():
            if v is None or not (0.0 <= v <= ub * (1 + 1e-12) + 1e-15):
                raise Violation(
                    "%s-bound" % self.name,
                    "recorded distance %r of batch %s outside [0, %r]" % (v, k, ub),
                    expected=[0.0, ub], observed=v,
                )

    def _symmetry(self, cfg, ref, X, d, ctx):
        kw = self._params(cfg)
        kw["detect_batch"] = 3
        twin = self.det_cls(**kw)
        try:
            twin.set_reference(self._wrap(cfg, X))
            twin.update(self._wrap(cfg, ref))
            d2 = fl(twin.current_distance)
        except Exception as e:  # noqa: BLE001
            raise Violation("%s-exception" % self.name, "role-swapped detector raised %r" % e, observed=repr(e))
        ctx.count("symmetry_checks")
        if d > 1e-9:
            ctx.count("symmetry_checks_nonzero_distance")
        if not close(d, d2):
            raise Violation(
                "%s-symmetry" % self.name,
                "distance(reference, batch) = %r but distance(batch, reference) = %r for equal sizes (%d rows)"
                % (d, d2, len(X)),
                expected=d, observed=d2,
            )


SYSTEMS = {
    "HDDDM1": HDMSystem("HDDDM1", HDDDM, 1),
    "HDDDM2": HDMSystem("HDDDM2", HDDDM, 2),
    "CDBD": HDMSystem("CDBD", CDBD, 1),
}


# =========================================================================== round 3: wider families
# (EXTENDING.md)  Every family is a set of additional tasks over its own batch menu; the oracle is the
# same lock-step specification and the same axioms.  A menu entry says which values the detector gets
# ("a", float64: what the specification sees), in which dtype and in which container.
def asym_hist(reference_hist, test_hist):
    """User-supplied *asymmetric* function: mass the reference has in excess of the test counts fully,
    mass the test has in excess counts a quarter.  Non-negative, 0 iff the normalised histograms are equal,
    <= sqrt(1.25), invariant under bin permutations, and asym(r, t) != asym(t, r) in general (>= 3 bins)."""
    r = np.asarray(reference_hist, dtype=float)
    t = np.asarray(test_hist, dtype=float)
    x = r / r.sum() - t / t.sum()
    return float(np.sqrt(np.sum(np.maximum(x, 0.0) ** 2) + 0.25 * np.sum(np.maximum(-x, 0.0) ** 2)))


DIVS["asym"] = asym_hist


# User functions that use the histograms as documented ("list of frequency count of data in each bin", the
# library's own example computes a Euclidean distance of the count vectors).  All three are metrics on count
# vectors (norms of the difference, resp. of an injective linear image of it); none is invariant under
# rescaling one histogram, the third depends on the order of the bins as well.
def euclid_counts(reference_hist, test_hist):
    r = np.asarray(reference_hist, dtype=float)
    t = np.asarray(test_hist, dtype=float)
    return float(np.sqrt(np.sum((r - t) ** 2)))


def l1_counts(reference_hist, test_hist):
    """number of samples in excess / missing per bin; returns a numpy scalar (an integer for integer counts)"""
    return np.sum(np.abs(np.asarray(reference_hist) - np.asarray(test_hist)))


def cum_counts(reference_hist, test_hist):
    """L1 distance of the cumulative counts (earth mover's distance in units of samples x bins)"""
    r = np.cumsum(np.asarray(reference_hist, dtype=float))
    t = np.cumsum(np.asarray(test_hist, dtype=float))
    return float(np.sum(np.abs(r - t))) / 4.0


DIVS.update({"ecount": euclid_counts, "l1count": l1_counts, "cumcount": cum_counts})
COUNT_FNS.update({"ecount", "l1count", "cumcount"})

# documented defaults of the constructors (class docstrings: "Defaults to ...")
DOC_DEFAULTS = {
    "HDDDM": {"detect_batch": 1, "divergence": "H", "statistic": "tstat", "significance": 0.05, "subsets": 5},
    "CDBD": {"detect_batch": 1, "divergence": "KL", "statistic": "tstat", "significance": 0.05, "subsets": 5},
}

DF_LABELS = {1: [7], 2: [1, 0], 3: [2, 0, 1]}  # integer labels that are *not* the positions


def _spec(name, a, dtype="f8", cont="nd", **tags):
    a = np.array(a, dtype=float)
    if a.ndim == 1:
        a = a.reshape(-1, 1)
    if dtype == "f4":
        assert np.array_equal(a.astype(np.float32).astype(float), a), name
    if dtype == "i8":
        assert np.array_equal(a.astype(np.int64).astype(float), a), name
    d = {"name": name, "a": a, "dtype": dtype, "cont": cont}
    d.update(tags)
    return d


def _materialise(spec):
    a = spec["a"]
    arr = a.astype({"f8": np.float64, "f4": np.float32, "i8": np.int64}[spec["dtype"]])
    c = spec["cont"]
    if c == "nd":
        return arr
    if c == "nd1":
        return arr[:, 0].copy()
    if c == "list":
        return arr.tolist()
    if c == "list1":
        return arr[:, 0].tolist()
    if c in ("df", "dfi"):
        n, F = arr.shape
        idx = None
        if c == "dfi":  # a non-default row index with a repeated label, not in order
            idx = [(n - 1 - i) if i != 1 else n - 1 for i in range(n)]
        return pd.DataFrame(arr, columns=DF_LABELS[F], index=idx)
    raise ValueError(c)


def _with(spec, **kw):
    d = dict(spec)
    d.update(kw)
    return d


_perm9 = [4, 8, 0, 6, 2, 7, 1, 5, 3]


def _lds(n, off, F, scale=(3.0, 2.0, 1.0), shift=(0.0, 0.0, 0.0), widen=(1.0, 1.0, 1.0)):
    """n rows of a fixed low-discrepancy sequence (no random numbers), quantised to 1/64 of the range"""
    alphas = (0.6180339887498949, 0.7548776662466927, 0.5698402909980532)
    rows = []
    for k in range(off, off + n):
        rows.append([
            (math.floor(((k + 1) * alphas[f]) % 1.0 * 64) / 64.0 - 0.5) * scale[f] * widen[f] + 0.5 * scale[f] + shift[f]
            for f in range(F)
        ])
    return np.array(rows)


SCALES = {"level": (2.0 ** -6, 2.0 ** 20), "tiny": (2.0 ** -20, 0.0),
          "nano": (2.0 ** -30, 0.0), "negbig": (-(2.0 ** 27), -(2.0 ** 27))}


def _build_fams():
    F = {}
    lo4, lo9, sh4, sh9, wd4, wd9 = MENU2
    # ---- containers: DataFrames with named columns / ndarrays / lists mixed across one history
    F["cont2"] = [
        _spec("lo4:dfi", lo4, cont="dfi"), _spec("lo9:list", lo9, cont="list"),
        _spec("shift4:nd", sh4), _spec("wide9:df", wd9, cont="df"),
        _spec("lo9:nd", lo9), _spec("lo4:df", lo4, cont="df"), _spec("shift9:list", sh9, cont="list"),
    ]
    F["cont1"] = [
        _spec("lo4:list1", lo4[:, :1], cont="list1"), _spec("lo9:nd1", lo9[:, :1], cont="nd1"),
        _spec("shift4:df", sh4[:, :1], cont="df"), _spec("wide9:list", wd9[:, :1], cont="list"),
        _spec("shift9:nd", sh9[:, :1]),
        _spec("lo9:df", lo9[:, :1], cont="df"), _spec("lo4:nd1", lo4[:, :1], cont="nd1"),
    ]
    # ---- dtypes: int64 and float32 batches next to float64 ones (all values multiples of 1/8)
    i4 = [[0, 1], [1, 0], [2, 2], [3, 1]]
    i9 = [[0, 2], [1, 0], [3, 1], [2, 2], [0, 1], [3, 0], [1, 2], [2, 1], [1, 1]]
    h4 = [[0.5, 1.25], [1.5, 0.25], [2.5, 1.75], [2.75, 0.75]]
    s4 = [[0.125, 0.875], [1.375, 0.375], [2.625, 1.625], [2.875, 1.125]]
    s9 = [[0.25, 1.75], [1.125, 0.125], [2.25, 1.875], [2.875, 1.25], [0.625, 0.375],
          [1.625, 1.625], [2.375, 0.25], [0.875, 1.375], [1.875, 0.75]]
    # float64 values one part in 1e9 below the edges 1.5 / 1 that ranges [0,3] / [0,2] give with 2 bins:
    # rounding them to float32 moves them across the edge
    e4 = [[1.5 - 2 ** -30, 1.0 - 2 ** -30], [0.0, 0.0], [3.0, 2.0], [1.0 - 2 ** -30, 1.75]]
    F["dtype2"] = [
        _spec("int4", i4, dtype="i8"), _spec("half4:f8", h4), _spec("s4:f4", s4, dtype="f4"),
        _spec("s9:f4", s9, dtype="f4"), _spec("edge4:f8", e4),
        _spec("int9", i9, dtype="i8", cont="df"), _spec("s9:f4:df", s9, dtype="f4", cont="df"),
    ]
    F["dtype1"] = [_with(x, a=x["a"][:, :1].copy()) for x in F["dtype2"]]
    # ---- round 5: integer-typed batches whose range lies strictly INSIDE the range of the float batches they are pooled
    # with (fractional extremes on both sides of zero): the pooled histogram range must come from the float reference even
    # when the test batch (or the reference) is integer-typed — in "dtype2" every float batch lies inside the integers' range
    F["dtype2b"] = [
        _spec("int4b", [[1, 1], [2, 1], [3, 2], [1, 2]], dtype="i8"),
        _spec("wide4:f8", [[-0.5, 0.25], [3.5, 2.75], [1.25, 1.5], [2.5, 0.75]]),
        _spec("intneg4", [[-3, -2], [-1, -1], [-2, -3], [-1, -2]], dtype="i8", cont="df"),
        _spec("neg4:f8", [[-3.625, -1.5], [-0.375, -0.25], [-1.5, -3.75], [-0.125, -1.125]]),
        _spec("int9b", [[1, 2], [2, 1], [3, 1], [2, 2], [1, 1], [3, 2], [1, 2], [2, 1], [2, 2]], dtype="i8", cont="df"),
        _spec("wide9:f8", [[-0.25, 0.125], [3.75, 2.5], [0.5, 1.5], [2.25, 0.875], [1.5, 2.875], [3.25, 0.25],
                           [0.75, 1.25], [2.75, 2.25], [1.25, 0.625]]),
    ]
    F["dtype1b"] = [_with(x, a=x["a"][:, :1].copy()) for x in F["dtype2b"]]
    # ---- shapes: 3 features, a constant feature, duplicated rows, row-permuted reference, 2-row batches
    r9c = np.column_stack([lo9, np.ones(9)])
    r4c = np.column_stack([lo4, np.ones(4)])
    F["shape3"] = [
        _spec("perm9c", r9c[_perm9], const=1), _spec("dup18c", np.repeat(r9c, 2, axis=0), const=1),
        _spec("two:c", [[0.3, 0.2, 1.0], [2.8, 1.8, 1.0]], const=1),
        _spec("vary4", np.column_stack([sh4, [0.5, 1.5, 1.0, 0.75]])),
        _spec("two:far", [[7.0, 7.5, 3.0], [8.0, 9.0, 3.0]]),
        _spec("r9c", r9c, const=1), _spec("r4c", r4c, const=1), _spec("two:ref", [[0.0, 1.0, 1.0], [3.0, 0.5, 1.0]], const=1),
    ]
    c = lo9[:, :1]
    F["shape1"] = [
        _spec("const4", [1.0] * 4, const=1), _spec("const2", [1.0, 1.0], const=1), _spec("two:other", [2.0, 2.5]),
        _spec("perm9", c[_perm9]), _spec("dup18", np.repeat(c, 2, axis=0)),
        _spec("lo9", c), _spec("const9", [1.0] * 9, const=1),
    ]
    # ---- scales: level 2^20 (~1e6) with spread ~0.05, and scale 2^-20 (~1e-6)
    #      round 3b: scale 2^-30 (~1e-9: the whole range lies below the absolute tolerance of numpy.isclose /
    #      allclose) and large negative values (-2^27 (x + 1), ~1e8: every value negative but a few of the widened batch)
    for key, (mul, add) in SCALES.items():
        F[key + "2"] = [_spec("%s:%s" % (n, key), m * mul + add) for n, m in
                        zip(("lo4", "lo9", "shift4", "wide9"), (lo4, lo9, sh4, wd9))]
        F[key + "1"] = [_with(x, a=x["a"][:, :1].copy()) for x in F[key + "2"]]
    # ---- larger batches (20..40 rows): floor(sqrt(n_ref)) runs through 4, 6, 8, 10, 11, 12 ... as the
    #      reference grows
    ref23 = _lds(23, 0, 2)
    F["large2"] = [
        _spec("ref23", ref23), _spec("st30", _lds(30, 23, 2)), _spec("st25", _lds(25, 53, 2)),
        _spec("st40", _lds(40, 78, 2)), _spec("st20", _lds(20, 118, 2)), _spec("st35", _lds(35, 138, 2)),
        _spec("st31", _lds(31, 173, 2)),
        _spec("shift20", _lds(20, 204, 2, shift=(1.25, 0.25, 0))), _spec("wide40", _lds(40, 224, 2, widen=(1.0, 2.5, 1))),
        _spec("perm23", ref23[::-1][np.r_[7:23, 0:7]]), _spec("dup46", np.repeat(ref23, 2, axis=0)),
    ]
    F["large1"] = [_with(x, a=x["a"][:, :1].copy()) for x in F["large2"]]
    # ---- identity: references of 20..40 rows (bin fractions k/n that are not dyadic), the same rows in
    #      another order and every row twice
    for n in range(20, 41):
        r = _lds(n, 3 * n, 2, scale=(3.0, 2.0, 1.0))
        F["ident%d" % n] = [_spec("ref%d" % n, r), _spec("perm%d" % n, r[::-1][np.r_[5:n, 0:5]]),
                            _spec("dup%d" % (2 * n), np.repeat(r, 2, axis=0))]
    # ---- long histories: 6..12-row batches of one low-discrepancy stream (stationary), two shifted levels, a
    #      widened and a narrowed batch; the default histories over this menu are in LONG_DEFAULTS
    lg = [("ref12", _lds(12, 0, 2))]
    off = 12
    for i, n in enumerate([8, 11, 6, 9, 12, 7, 10, 8]):
        lg.append(("st%d_%d" % (n, i), _lds(n, off, 2)))
        off += n
    for i, n in enumerate([9, 7, 10]):
        lg.append(("A%d_%d" % (n, i), _lds(n, off, 2, shift=(1.25, 0.25, 0))))
        off += n
    for i, n in enumerate([8, 10, 6]):
        lg.append(("B%d_%d" % (n, i), _lds(n, off, 2, shift=(1.25, 2.5, 0))))
        off += n
    lg.append(("W9", _lds(9, off, 2, widen=(1.0, 2.5, 1))))
    off += 9
    lg.append(("N7", _lds(7, off, 2, widen=(0.25, 1.0, 1))))
    F["long2"] = [_spec(n, a) for n, a in lg]
    F["long1"] = [_with(x, a=x["a"][:, :1].copy()) for x in F["long2"]]
    # ---- the original menu (parameter families use it unchanged)
    F["menu2"] = [_spec(n, m) for n, m in zip(NAMES, MENU2)]
    F["menu1"] = [_spec(n, m) for n, m in zip(NAMES, MENU1)]
    # equal sizes for the interleaved detectors, so that their degrees of freedom coincide
    F["multi1"] = [_spec("lo4", lo4[:, :1]), _spec("shift4", sh4[:, :1]), _spec("wide4", wd4[:, :1]),
                   _spec("mid4", [[0.5], [1.5], [2.5], [1.0]])]
    return F


FAMS = _build_fams()


def divname_is_count(name):
    return name in COUNT_FNS


class HDMFamSystem(HDMSystem):
    """Same driver and oracle as HDMSystem; batches come from the menu named by cfg["fam"]."""

    def _wrap(self, cfg, arr):  # role-swapped twin: plain float64 arrays
        return np.array(arr, dtype=float)

    def init(self, cfg):
        """cfg["ctor"] (round 3b, family "defaults") lists the keyword arguments actually passed to the
        constructor; the others must take their documented defaults, which is what cfg["params"] (the
        specification's parameters) holds for them."""
        given = cfg.get("ctor")
        if given is None:
            return super().init(cfg)
        kw = self._params(cfg)
        doc = DOC_DEFAULTS[self.det_cls.__name__]
        for k, v in cfg["params"].items():
            assert k in given or doc[k] == v, (k, v)
        det = self.det_cls(**{k: kw[k] for k in given})
        return {"det": det, "model": HDMModel(**kw), "nsetref": 0, "ready": False}

    def _data(self, cfg, bi):
        return FAMS[cfg["fam"]][bi]["a"]

    def _obj(self, cfg, bi):
        return _materialise(FAMS[cfg["fam"]][bi])

    def _bname(self, cfg, bi):
        return FAMS[cfg["fam"]][bi]["name"]

    def _family(self, cfg, ctx, bi, X, ref_before, model0, model, exp, obs):
        spec = FAMS[cfg["fam"]][bi]
        tag = cfg["tag"]
        p = cfg["params"]
        drift = obs["state"] == "drift"
        ctx.count("fam:%s:updates" % tag)
        if drift and p["detect_batch"] == 3:
            ctx.count("fam:%s:drifts_detect_batch3" % tag)  # no bootstrap involved: independent of the seed
        if drift:
            ctx.count("fam:%s:drifts" % tag)
        if spec["cont"] in ("df", "dfi"):
            ctx.count("dataframe_batches")
        if spec["cont"] in ("list", "list1"):
            ctx.count("list_batches")
        if spec["cont"] in ("nd1", "list1"):
            ctx.count("one_dimensional_batches")
        if spec["dtype"] == "i8":
            ctx.count("integer_batches")
            if not np.array_equal(ref_before, np.round(ref_before)):
                ctx.count("integer_batch_on_fractional_reference")
        if spec["dtype"] == "f4":
            ctx.count("float32_batches")
        if spec.get("const"):
            if any(ref_before[:, f].min() == ref_before[:, f].max() == X[:, f].min() == X[:, f].max()
                   for f in range(X.shape[1])):
                ctx.count("constant_feature_steps")
        if len(X) == 2:
            ctx.count("two_row_batches")
            if drift:
                ctx.count("two_row_batches_reported_drift")
        if len(ref_before) == 2:
            ctx.count("two_row_reference_steps")
        if "beta" in exp and exp["_bins"] >= 6:
            ctx.count("decisions_with_ge6_bins")
        ctx.count("bins:%d" % exp["_bins"])
        if "_sd" in exp and exp["_sd"] > 0:
            ctx.count("fam:%s:thresholds_with_positive_deviation" % tag)
        if "_e0" in exp and p["subsets"] > exp["_n_ref_before"]:
            ctx.count("bootstrap_with_more_subsets_than_reference_rows")
        if "_e0" in exp and p["subsets"] == 2:
            ctx.count("bootstrap_with_2_subsets")
        if tag == "defaults":
            ctx.count("defaults:%s(%s)" % (self.det_cls.__name__, ",".join(cfg["ctor"])))
        if divname_is_count(p["divergence"]):
            # would the same function on the normalised histograms have given another distance?
            fd = exp["_fd"]
            ctx.count("count_function_steps")
            if any(v > 1.5 for v in fd):
                ctx.count("count_function_distance_above_any_normalised_bound")
            if p["divergence"] == "l1count":
                ctx.count("count_function_returning_numpy_integer")
        s3 = "_detect_batch3" if p["detect_batch"] == 3 else "_detect_batch1or2"
        if not drift and model.since >= 12:
            ctx.count("epoch_of_ge12_batches" + s3)
        if "_sd" in exp and len(model.eps) >= 11:
            ctx.count("threshold_from_ge10_epsilons" + s3)
        if drift and model.drifts >= 4:
            ctx.count("fourth_or_later_drift_of_a_history" + s3)
        if drift and model.epochs >= 2 and model.since == max(2, p["detect_batch"]):
            ctx.count("drift_at_first_opportunity_of_a_later_epoch" + s3)
        if drift and model0.state == "drift" and p["detect_batch"] == 1:
            ctx.count("drift_reported_on_two_consecutive_calls")
        if cfg.get("asym"):
            m = model
            bins = exp["_bins"]
            los = [min(ref_before[:, f].min(), X[:, f].min()) for f in range(X.shape[1])]
            his = [max(ref_before[:, f].max(), X[:, f].max()) for f in range(X.shape[1])]
            hr, ht = m._hists(ref_before, los, his, bins), m._hists(X, los, his, bins)
            if any(abs(asym_hist(a, b) - asym_hist(b, a)) > 1e-6 for a, b in zip(hr, ht)):
                ctx.count("asymmetric_function_order_matters")


class MultiSystem(System):
    """Several detectors with different parameters alive at once; every event is one call on one of them
    (state shared between instances -- class attributes, module globals, mutable defaults -- shows as a
    disagreement of the called detector with its own specification)."""

    name = "Multi"

    def init(self, cfg):
        return {"subs": [SYSTEMS[d["system"]].init(d) for d in cfg["dets"]], "tcrit": {}}

    def alphabet(self, cfg, state, pos):
        return [["u", k, b] for k in range(len(cfg["dets"])) for b in cfg["alpha"]]

    def step(self, cfg, state, ev, pos, ctx):
        kind, k, b = ev[0], int(ev[1]), int(ev[2])
        sub = cfg["dets"][k]
        st = state["subs"][k]
        obs = SYSTEMS[sub["system"]].step(sub, st, [kind, b], pos, ctx)
        ctx.count("multi_calls")
        others = [j for j, s2 in enumerate(state["subs"]) if j != k and s2["ready"]]
        if others:
            ctx.count("multi_calls_while_another_detector_is_in_use")
        last = st.get("last") or {}
        if kind == "u" and sub["params"]["statistic"] == "tstat" and last.get("sd"):
            seen = state["tcrit"].setdefault(str(last["dof"]), [])
            if any(j != k and sg != sub["params"]["significance"] for j, sg in seen):
                ctx.count("multi_t_quantile_same_dof_as_other_detector_with_other_significance")
            seen.append((k, sub["params"]["significance"]))
        return {"det": k, "obs": obs}


SYSTEMS.update({
    "F-HDDDM1": HDMFamSystem("F-HDDDM1", HDDDM, 1),
    "F-HDDDM2": HDMFamSystem("F-HDDDM2", HDDDM, 2),
    "F-HDDDM3": HDMFamSystem("F-HDDDM3", HDDDM, 3),
    "F-CDBD": HDMFamSystem("F-CDBD", CDBD, 1),
    "Multi": MultiSystem(),
})


# --------------------------------------------------------------------------- configurations
STATS = [("tstat", 0.05), ("tstat", 0.5), ("stdev", 0.5), ("stdev", 2)]
ROTA = ["HDDDM2", "HDDDM1", "HDDDM2", "CDBD"]  # the 2-feature system gets half of the combinations


def _combos():
    """detect_batch x (statistic, significance) x divergence x subsets (subsets only matters for
    detect_batch 1, 2): 60 combinations."""
    out = []
    for db in (1, 2, 3):
        for (stat, sig) in STATS:
            for div in ("H", "KL", "custom"):
                for subsets in ((3, 5) if db != 3 else (5,)):
                    out.append({"detect_batch": db, "statistic": stat, "significance": sig,
                                "divergence": div, "subsets": subsets})
    return out


def _cfg(j, params):
    return {
        "id": j,
        "params": params,
        "ref0": (j + (j // 2)) % 2,  # initial reference: the 4-row or the 9-row reference-like batch
        "container": "df" if j % 5 == 0 else "nd",
    }


def _label(sysname, cfg, extra):
    p = cfg["params"]
    return "%s|%d|db%d-%s%s-%s-s%d-ref%d-%s|%s" % (
        sysname, cfg["id"], p["detect_batch"], p["statistic"], p["significance"], p["divergence"],
        p["subsets"], cfg["ref0"], cfg["container"], extra,
    )


def _task(sysname, cfg, prefix, depth, extra, cost, **kw):
    c = dict(cfg)
    c.update(kw)
    c["len"] = len(prefix) + depth
    return {
        "system": sysname, "cfg": c, "prefix": [list(e) for e in prefix], "depth": depth,
        "label": _label(sysname, c, extra), "cost": cost, "validate_every": 97,
    }


def _U(i):
    return ["u", i]


def _drift_prefix(cfg):
    """reference-like, reference-like, far batch: ends in a drift for detect_batch 3."""
    far = 3 if cfg["ref0"] == 0 else 2
    return [_U(cfg["ref0"]), _U(cfg["ref0"]), _U(far)]


# --------------------------------------------------------------------------- round-3 tasks
def _P(db, stat, sig, div, subsets=5):
    return {"detect_batch": db, "statistic": stat, "significance": sig, "divergence": div, "subsets": subsets}


def _fcfg(cid, tag, fam, params, ref0, alpha, **kw):
    cfg = {"id": "r3-" + cid, "params": params, "ref0": ref0, "fam": fam, "tag": tag, "alpha": list(alpha)}
    cfg.update(kw)
    return cfg


def _flabel(sysname, cfg, extra):
    p = cfg["params"]
    return "%s|%s|fam=%s|db%d-%s%s-%s-s%d-ref=%s|%s" % (
        sysname, cfg["id"], cfg["tag"], p["detect_batch"], p["statistic"], p["significance"], p["divergence"],
        p["subsets"], FAMS[cfg["fam"]][cfg["ref0"]]["name"], extra,
    )


def _fdfs(sysname, cfg, depth, extra, prefix=()):
    c = dict(cfg)
    c["len"] = len(prefix) + depth
    n = len(c["alpha"]) + len(c.get("setref_menu", ()))
    return {"system": sysname, "cfg": c, "prefix": [list(e) for e in prefix], "depth": depth,
            "label": _flabel(sysname, c, extra), "cost": n ** depth, "validate_every": 97}


def _fdev(sysname, cfg, default, menu, k, extra):
    c = dict(cfg)
    c["len"] = len(default)
    t = {"system": sysname, "cfg": c, "mode": "dev", "default": [list(e) for e in default],
         "menu": [list(e) for e in menu], "k": k, "label": _flabel(sysname, c, extra),
         "cost": (len(default) * len(menu)) ** k * 4, "validate_every": 97}
    return [t]


_ONE = ("F-CDBD", "F-HDDDM1")
SIG_EXTREMES = [("tstat", 0.001), ("tstat", 0.9), ("stdev", 0), ("stdev", 5)]
MULTI_DEFAULT = [0, 1, 1, 0, 0]  # per detector: lo4, shift4, shift4, lo4, lo4 (no drift for group A; found by a model-only scan)


def _multi_cfg(gid, dets):
    return {"id": "r3-multi-" + gid, "alpha": [0, 2],
            "dets": [dict(_fcfg("multi-%s-%d" % (gid, i), "multi", "multi1", p, 0, [0, 1, 2, 3]), system=s)
                     for i, (s, p) in enumerate(dets)]}


MULTI_GROUPS = {
    # all detect_batch 3 (no random draw anywhere): t quantiles with equal degrees of freedom, different levels
    "A": [("F-HDDDM1", _P(3, "tstat", 0.05, "H")), ("F-CDBD", _P(3, "tstat", 0.5, "KL")),
          ("F-HDDDM1", _P(3, "tstat", 0.9, "custom"))],
    "B": [("F-HDDDM1", _P(1, "tstat", 0.05, "H", 3)), ("F-CDBD", _P(2, "tstat", 0.5, "KL", 5)),
          ("F-CDBD", _P(3, "stdev", 1, "H"))],
}


def _round3(tier, seed):
    deep = 0 if tier == "quick" else 1
    out = []
    # ---- containers
    for i, (db, ref0, stat, div) in enumerate([(1, 4, ("stdev", 0.5), "H"), (2, 5, ("tstat", 0.5), "custom"),
                                               (3, 1, ("stdev", 2), "KL")]):
        cfg = _fcfg("cont2-%d" % i, "containers", "cont2", _P(db, stat[0], stat[1], div, 3 if db == 1 else 5),
                    ref0, [0, 1, 2, 3], max_setref=1, setref_menu=[5, 6])
        out.append(_fdfs("F-HDDDM2", cfg, 4 + deep, "(4u+2r<=1)^%d" % (4 + deep)))
    for i, (db, ref0, stat, div) in enumerate([(1, 5, ("tstat", 0.5), "KL"), (2, 6, ("stdev", 0.5), "H"),
                                               (3, 1, ("tstat", 0.05), "KL")]):
        cfg = _fcfg("cont1-%d" % i, "containers", "cont1", _P(db, stat[0], stat[1], div), ref0, [0, 1, 2, 3, 4])
        out.append(_fdfs(_ONE[i % 2], cfg, 4 + deep, "5^%d" % (4 + deep)))
    # ---- dtypes
    for i, (db, ref0, stat, div) in enumerate([(1, 5, ("stdev", 0.5), "H"), (2, 6, ("tstat", 0.5), "KL"),
                                               (3, 0, ("stdev", 0.5), "custom"), (3, 3, ("tstat", 0.5), "H")]):
        cfg = _fcfg("dtype2-%d" % i, "dtypes", "dtype2", _P(db, stat[0], stat[1], div), ref0, [0, 1, 2, 3, 4],
                    f32_guard=True)
        out.append(_fdfs("F-HDDDM2", cfg, 4 + deep, "5^%d" % (4 + deep)))
    for i, (db, ref0, stat, div) in enumerate([(1, 6, ("tstat", 0.5), "KL"), (2, 5, ("stdev", 0.5), "KL"),
                                               (3, 2, ("stdev", 2), "H")]):
        cfg = _fcfg("dtype1-%d" % i, "dtypes", "dtype1", _P(db, stat[0], stat[1], div), ref0, [0, 1, 2, 3, 4],
                    f32_guard=True)
        out.append(_fdfs(_ONE[i % 2], cfg, 4 + deep, "5^%d" % (4 + deep)))
    for i, (db, ref0, stat, div) in enumerate([(3, 1, ("stdev", 0.5), "H"), (2, 3, ("tstat", 0.5), "KL"),
                                               (1, 5, ("stdev", 0.5), "KL"), (3, 0, ("tstat", 0.5), "H")]):
        cfg = _fcfg("dtype2b-%d" % i, "dtypes", "dtype2b", _P(db, stat[0], stat[1], div), ref0, [0, 1, 2, 3, 4, 5])
        out.append(_fdfs("F-HDDDM2", cfg, 3 + deep, "6^%d" % (3 + deep)))
    for i, (db, ref0, stat, div) in enumerate([(2, 1, ("stdev", 0.5), "KL"), (3, 3, ("tstat", 0.5), "H")]):
        cfg = _fcfg("dtype1b-%d" % i, "dtypes", "dtype1b", _P(db, stat[0], stat[1], div), ref0, [0, 1, 2, 3, 4, 5])
        out.append(_fdfs(_ONE[i % 2], cfg, 3 + deep, "6^%d" % (3 + deep)))
    # ---- shapes
    for i, (db, ref0, stat, div) in enumerate([(3, 5, ("stdev", 0.5), "H"), (2, 5, ("tstat", 0.5), "KL"),
                                               (1, 5, ("stdev", 2), "custom"), (3, 7, ("tstat", 0.5), "H"),
                                               (2, 6, ("stdev", 0.5), "H"), (1, 6, ("tstat", 0.05), "H")]):
        cfg = _fcfg("shape3-%d" % i, "shapes", "shape3", _P(db, stat[0], stat[1], div), ref0, [0, 1, 2, 3, 4])
        out.append(_fdfs("F-HDDDM3", cfg, 4 + deep, "5^%d" % (4 + deep)))
    for i, (db, ref0, stat, div) in enumerate([(3, 5, ("stdev", 0.5), "KL"), (2, 6, ("tstat", 0.5), "KL"),
                                               (1, 5, ("stdev", 0.5), "H"), (2, 1, ("stdev", 2), "KL")]):
        cfg = _fcfg("shape1-%d" % i, "shapes", "shape1", _P(db, stat[0], stat[1], div), ref0, [0, 1, 2, 3, 4])
        out.append(_fdfs(_ONE[i % 2], cfg, 4 + deep, "5^%d" % (4 + deep)))
    # a 2-row initial reference with detect_batch = 1 (documented minimum size; one call)
    cfg = _fcfg("shape3-two-db1", "shapes", "shape3", _P(1, "tstat", 0.05, "H"), 7, [0, 2])
    out.append(_fdfs("F-HDDDM3", cfg, 1, "2^1"))
    # ---- scales
    n = 0
    for key in SCALES:
        for db, stat, div in [(1, ("stdev", 0.5), "H"), (2, ("tstat", 0.5), "custom"), (3, ("stdev", 0.5), "KL")]:
            cfg = _fcfg("%s2-%d" % (key, db), "scale-" + key, key + "2", _P(db, stat[0], stat[1], div), n % 2,
                        [0, 1, 2, 3])
            out.append(_fdfs("F-HDDDM2", cfg, 4 + deep, "4^%d" % (4 + deep)))
            n += 1
        db = {"level": 3, "tiny": 2, "nano": 1, "negbig": 3}[key]
        cfg = _fcfg("%s1" % key, "scale-" + key, key + "1", _P(db, "tstat", 0.5, "KL"), 1, [0, 1, 2, 3])
        out.append(_fdfs("F-CDBD", cfg, 4 + deep, "4^%d" % (4 + deep)))
    # ---- larger batches, deviation-bounded
    default = [["u", i] for i in (1, 2, 3, 4, 5, 6)]
    menu = [["u", i] for i in (7, 8, 9, 10)]
    for i, (sysname, fam, db, stat, div) in enumerate([
        ("F-HDDDM2", "large2", 3, ("stdev", 2), "H"), ("F-HDDDM2", "large2", 2, ("tstat", 0.05), "H"),
        ("F-HDDDM2", "large2", 1, ("stdev", 0.5), "custom"), ("F-CDBD", "large1", 3, ("tstat", 0.5), "KL"),
        ("F-CDBD", "large1", 2, ("stdev", 2), "KL"),
    ]):
        cfg = _fcfg("large-%d" % i, "large", fam, _P(db, stat[0], stat[1], div), 0, [])
        out += _fdev(sysname, cfg, default, menu, 2 + deep, "6 default + 4 alternatives, k<=%d" % (2 + deep))
    # ---- identity on 20..40-row references, every divergence
    for n in range(20, 41):
        for div in ("H", "KL", "custom", "asym"):
            cfg = _fcfg("ident%d-%s" % (n, div), "identity", "ident%d" % n, _P(3, "stdev", 0.5, div), 0, [1, 2],
                        asym=(div == "asym"))
            out.append(_fdfs("F-HDDDM2", cfg, 3, "2^3"))
    # ---- significance extremes
    for i, (stat, sig) in enumerate(SIG_EXTREMES):
        for db in (1, 2, 3):
            j = 3 * i + db
            sysname = ("F-HDDDM2", "F-CDBD", "F-HDDDM1")[j % 3]
            cfg = _fcfg("sig-%d-%d" % (i, db), "significance", "menu2" if sysname == "F-HDDDM2" else "menu1",
                        _P(db, stat, sig, ("H", "KL", "custom")[(j // 3) % 3], 3 if j % 2 else 5), j % 2, [0, 2, 5])
            out.append(_fdfs(sysname, cfg, 6 + deep, "3^%d" % (6 + deep)))
    # ---- subsets 2 and subsets larger than the reference has rows
    for i, (db, subsets) in enumerate([(1, 2), (2, 2), (1, 12), (2, 12)]):
        sysname = ("F-HDDDM2", "F-CDBD")[i % 2]
        cfg = _fcfg("subsets-%d" % i, "subsets", "menu2" if sysname == "F-HDDDM2" else "menu1",
                    _P(db, ("stdev", "tstat")[i % 2], 0.5, ("H", "KL")[i % 2], subsets), 0, range(6))
        out.append(_fdfs(sysname, cfg, 3 + deep, "6^%d" % (3 + deep)))
    # ---- set_reference at every position (also first, last, twice in a row, right after a drift)
    for i, (db, stat) in enumerate([(db, st) for db in (1, 2, 3) for st in (("stdev", 0.5), ("tstat", 0.5))]):
        for v, dflt in enumerate(([0, 1, 3, 0, 5, 1], [2, 2, 0, 0, 1, 4])):
            sysname = ("F-HDDDM2", "F-CDBD")[(i + v) % 2]
            cfg = _fcfg("setref-%d-%d" % (i, v), "set_reference", "menu2" if sysname == "F-HDDDM2" else "menu1",
                        _P(db, stat[0], stat[1], ("H", "KL")[(i + v) % 2], 3), v, [])
            out += _fdev(sysname, cfg, [["u", b] for b in dflt], [["r", 0], ["r", 3]], 2 + deep,
                         "6 updates, set_reference at <=%d positions" % (2 + deep))
    # ---- asymmetric user function
    for i, (sysname, db, stat) in enumerate([("F-HDDDM2", 3, ("stdev", 0.5)), ("F-HDDDM2", 2, ("tstat", 0.5)),
                                             ("F-HDDDM2", 1, ("stdev", 2)), ("F-CDBD", 3, ("tstat", 0.5))]):
        cfg = _fcfg("asym-%d" % i, "asymmetric", "menu2" if sysname == "F-HDDDM2" else "menu1",
                    _P(db, stat[0], stat[1], "asym", 3), 1, [0, 1, 2, 5], asym=True)
        out.append(_fdfs(sysname, cfg, 4 + deep, "4^%d" % (4 + deep)))
    # ---- several detectors alive at once, calls interleaved
    for gid, dets in MULTI_GROUPS.items():
        cfg = _multi_cfg(gid, dets)
        default = [["u", p % 3, MULTI_DEFAULT[p // 3]] for p in range(15)]
        allev = [["u", k, b] for k in range(3) for b in (0, 1, 2, 3)]
        t = {"system": "Multi", "cfg": cfg, "mode": "dev", "default": default, "menu": allev, "k": 1 + deep,
             "label": "Multi|%s|fam=multi|round-robin 15 calls, <=%d deviations (other detector / other batch)"
             % (cfg["id"], 1 + deep), "cost": 3000, "validate_every": 23}
        if deep:
            # same histories, split by the first deviation: one task of half an hour becomes 166 small ones
            from mc.explorer import dev_split

            out += dev_split(t)
        else:
            out.append(t)
        out.append({"system": "Multi", "cfg": cfg, "prefix": default[:9], "depth": 3 + deep,
                    "label": "Multi|%s|fam=multi|9 round-robin calls + (3 detectors x 2 batches)^%d" % (cfg["id"], 3 + deep),
                    "cost": 6 ** (3 + deep) * 3, "validate_every": 23})
    return out


# --------------------------------------------------------------------------- round-3b tasks
# Default histories of 24 updates over FAMS["long2"/"long1"] (indices; 0 = the initial reference), found by a
# model-only search for the detect_batch=3 configuration named first: a calm epoch of 13 batches that ends in a
# drift, two drifts at the first opportunity of their epochs, a fourth drift after a longer epoch, one batch
# more.  The counters demanded in REQUIRED prove that the detector really walks through that shape.
LONG_DEFAULTS = {
    "a": [1, 7, 8, 7, 1, 8, 5, 6, 1, 2, 1, 2, 7, 8, 15, 14, 2, 14, 15, 10, 13, 2, 4, 6],
    "b": [1, 5, 7, 1, 15, 5, 15, 4, 5, 15, 5, 15, 5, 8, 15, 14, 1, 4, 9, 10, 13, 9, 3, 6],
    "c": [1, 9, 7, 2, 1, 2, 7, 11, 9, 1, 15, 2, 10, 8, 11, 14, 1, 4, 7, 10, 13, 16, 14, 6],
    "d": [1, 5, 7, 15, 3, 2, 4, 6, 15, 2, 1, 5, 6, 8, 11, 15, 1, 4, 7, 10, 13, 1, 16, 6],
}
LONG_CONFIGS = [
    # (system, menu, default history, parameters)
    ("F-HDDDM2", "long2", "a", _P(3, "stdev", 2, "H")),
    ("F-CDBD", "long1", "b", _P(3, "tstat", 0.05, "KL")),
    ("F-HDDDM2", "long2", "c", _P(3, "stdev", 1, "ecount")),
    ("F-HDDDM1", "long1", "d", _P(3, "tstat", 0.5, "custom")),
    ("F-HDDDM2", "long2", "a", _P(2, "stdev", 2, "H")),
    ("F-CDBD", "long1", "b", _P(1, "tstat", 0.05, "KL")),        # CDBD's default parameters
    ("F-HDDDM2", "long2", "a", _P(1, "tstat", 0.05, "H")),       # HDDDM's default parameters
    ("F-HDDDM2", "long2", "c", _P(2, "tstat", 0.5, "l1count", 3)),
    ("F-CDBD", "long1", "d", _P(1, "stdev", 0.5, "cumcount", 3)),
]
LONG_K2_THOROUGH = (0, 1, 5, 6)  # thorough: two deviations for these configurations, one for the others
LONG_MENU = [["u", 4], ["u", 9], ["u", 12], ["u", 15], ["r", 0]]  # stationary, level A, level B, widened, set_reference
USERFN_CONFIGS = [
    ("F-HDDDM2", "menu2", _P(3, "stdev", 0.5, "ecount")), ("F-CDBD", "menu1", _P(3, "tstat", 0.5, "l1count")),
    ("F-HDDDM2", "menu2", _P(2, "tstat", 0.5, "cumcount")), ("F-HDDDM1", "menu1", _P(1, "stdev", 2, "ecount", 3)),
    ("F-HDDDM2", "menu2", _P(1, "tstat", 0.05, "l1count")), ("F-CDBD", "menu1", _P(2, "stdev", 0.5, "cumcount", 3)),
]
DEFAULTS_CONFIGS = [
    # (system, menu, keyword arguments given, their values)
    ("F-HDDDM2", "menu2", {}), ("F-CDBD", "menu1", {}),
    ("F-HDDDM1", "menu1", {"statistic": "stdev"}), ("F-CDBD", "menu1", {"detect_batch": 3}),
    ("F-HDDDM2", "menu2", {"subsets": 3, "detect_batch": 2}), ("F-HDDDM2", "menu2", {"divergence": "KL"}),
    ("F-CDBD", "menu1", {"divergence": "H", "significance": 0.5}), ("F-HDDDM1", "menu1", {"detect_batch": 3, "significance": 0.5}),
]


def _round3b(tier, seed):
    from mc.explorer import dev_split

    deep = 0 if tier == "quick" else 1
    out = []
    # ---- user functions of the raw counts
    for i, (sysname, fam, params) in enumerate(USERFN_CONFIGS):
        cfg = _fcfg("userfn-%d" % i, "userfn", fam, params, i % 2, [0, 1, 2, 3, 5])
        out.append(_fdfs(sysname, cfg, 4 + deep, "5^%d" % (4 + deep)))
    default = [["u", i] for i in (1, 2, 3, 4, 5, 6)]
    menu = [["u", i] for i in (7, 8, 9, 10)]
    for i, (sysname, fam, params) in enumerate([("F-HDDDM2", "large2", _P(3, "stdev", 2, "ecount")),
                                                ("F-CDBD", "large1", _P(2, "tstat", 0.05, "l1count"))]):
        cfg = _fcfg("userfn-large-%d" % i, "userfn", fam, params, 0, [])
        out += _fdev(sysname, cfg, default, menu, 2 + deep, "large batches: 6 default + 4 alternatives, k<=%d" % (2 + deep))
    # ---- constructor defaults
    for i, (sysname, fam, given) in enumerate(DEFAULTS_CONFIGS):
        params = dict(DOC_DEFAULTS[SYSTEMS[sysname].det_cls.__name__])
        params.update(given)
        cfg = _fcfg("defaults-%d" % i, "defaults", fam, params, (i // 2) % 2, [0, 1, 2, 3, 5], ctor=sorted(given))
        out.append(_fdfs(sysname, cfg, 4 + deep, "ctor(%s) 5^%d" % (",".join(sorted(given)), 4 + deep)))
    # ---- long histories, deviation-bounded
    for i, (sysname, fam, dk, params) in enumerate(LONG_CONFIGS):
        cfg = _fcfg("long-%d" % i, "long", fam, params, 0, [])
        dflt = [["u", b] for b in LONG_DEFAULTS[dk]]
        k = 2 if (deep and i in LONG_K2_THOROUGH) else 1
        for t in _fdev(sysname, cfg, dflt, LONG_MENU, k,
                       "default history %s of 24 updates, 4 other batches / set_reference at <=%d positions" % (dk, k)):
            t["cost"] = 24 * len(LONG_MENU) * 10  # ~ transitions of the k = 1 exploration / of one part of the split
            out += dev_split(t) if k == 2 else [t]
    return out


def tasks(tier, seed):
    out = []
    combos = _combos()
    if tier == "quick":
        for j, params in enumerate(combos):
            cfg = _cfg(j, params)
            sysname = ROTA[(j + seed) % 4]
            # (a) all 6^4 update sequences from the fresh reference
            out.append(_task(sysname, cfg, [], 4, "u6^4", 6 ** 4))
            # (b) detect_batch 3 needs >= 6 batches for a second drift: scripted prefix ending in a
            #     drift, then all 6^4 continuations
            if params["detect_batch"] == 3:
                out.append(_task(sysname, cfg, _drift_prefix(cfg), 4, "pre3+u6^4", 6 ** 4))
            # (c) set_reference events (at most one per history, two candidate batches) after one
            #     batch, depth 4: a third of the combinations
            if (j + j // 6) % 3 == seed % 3:
                s2 = ROTA[(j // 3 + seed) % 4]
                out.append(_task(s2, cfg, [_U(1 - cfg["ref0"])], 4, "pre1+setref<=1", 3 * 6 ** 4,
                                 max_setref=1, setref_menu=[0, 3]))
        return out + _round3(tier, seed) + _round3b(tier, seed)
    # thorough
    for j, params in enumerate(combos):
        cfg = _cfg(j, params)
        one_feature = ("HDDDM1", "CDBD")[(j + j // 4 + seed) % 2]
        for sysname in ("HDDDM2", one_feature) if (j // 2 + seed) % 2 == 0 else ("HDDDM2",):
            # all 6^5 on the 2-feature detector; every other combination also on a 1-feature detector
            for a in range(6):
                out.append(_task(sysname, cfg, [_U(a)], 4, "u6^5/%d" % a, 6 ** 4))
        sysname = ROTA[(j + seed) % 4]
        if (j + j // 6) % 6 == seed % 6:
            # all 6^6 for a sixth of the combinations
            for a in range(6):
                for b in range(6):
                    out.append(_task(sysname, cfg, [_U(a), _U(b)], 4, "u6^6/%d%d" % (a, b), 6 ** 4))
        if params["detect_batch"] == 3:
            for a in range(6):
                out.append(_task(sysname, cfg, _drift_prefix(cfg) + [_U(a)], 4, "pre3+u6^5/%d" % a, 6 ** 4))
        if (j + j // 6) % 3 == seed % 3:
            s2 = ROTA[(j // 3 + seed) % 4]
            for a in range(6):
                out.append(_task(s2, cfg, [_U(a)], 4, "pre1+setref<=2/%d" % a, 3 * 6 ** 4,
                                 max_setref=2, setref_menu=[0, 3]))
    return out + _round3(tier, seed) + _round3b(tier, seed)


REQUIRED = [
    "drift_transitions",
    "decisions_no_drift",
    "histories_with_ge2_drifts",
    "bootstrap_epsilon0_recomputed",
    "bootstrap_removed_in_2nd_or_later_epoch",
    "proxy_batches",
    "proxy_batches_after_drift",
    "feature_info_names_feature_0",
    "feature_info_names_feature_1",
    "no_drift_reference_growth_crossed_bins_boundary",
    "identity_checks",
    "symmetry_checks_nonzero_distance",
    "set_reference_on_used_detector",
    "exact_ties",
    "no_drift_within_factor2_of_threshold",
]

# Round-3 families.  Only counters that cannot depend on VERIF_SEED are demanded: they are incremented at
# fixed positions of every history of the family (the kind of input, the first calls), or inside
# detect_batch=3 configurations (no bootstrap, hence no random draw anywhere in the history).
FAMILY_TAGS = ["containers", "dtypes", "shapes", "scale-level", "scale-tiny", "large", "identity", "significance",
               "subsets", "set_reference", "asymmetric", "multi",
               "scale-nano", "scale-negbig", "userfn", "defaults", "long"]
REQUIRED += ["fam:%s:updates" % t for t in FAMILY_TAGS]
REQUIRED += ["fam:%s:drifts_detect_batch3" % t for t in FAMILY_TAGS if t not in ("identity", "subsets")]
REQUIRED += [
    "dataframe_batches", "list_batches", "one_dimensional_batches",
    "integer_batches", "integer_batch_on_fractional_reference", "float32_batches",
    "constant_feature_steps", "two_row_batches", "two_row_reference_steps", "two_row_batches_reported_drift",
    "feature_info_names_feature_2",
    "identity_checks_row_permuted", "identity_checks_proportional",
    "decisions_with_ge6_bins", "bins:12",
    "fam:significance:thresholds_with_positive_deviation",
    "bootstrap_with_2_subsets", "bootstrap_with_more_subsets_than_reference_rows",
    "set_reference_as_first_call", "set_reference_twice_in_a_row", "set_reference_as_last_call",
    "set_reference_right_after_a_drift_report",
    "asymmetric_function_order_matters",
    "multi_calls_while_another_detector_is_in_use",
    "multi_t_quantile_same_dof_as_other_detector_with_other_significance",
]
# round 3b (all incremented inside detect_batch=3 configurations or at every update of a family)
REQUIRED += [
    "count_function_steps", "count_function_distance_above_any_normalised_bound",
    "count_function_returning_numpy_integer",
    "epoch_of_ge12_batches_detect_batch3", "threshold_from_ge10_epsilons_detect_batch3",
    "fourth_or_later_drift_of_a_history_detect_batch3",
    "drift_at_first_opportunity_of_a_later_epoch_detect_batch3",
]
REQUIRED += ["defaults:%s(%s)" % (SYSTEMS[s].det_cls.__name__, ",".join(sorted(g))) for s, _, g in DEFAULTS_CONFIGS]

# wall-clock safety nets sized for a heavily shared machine (load 150-300 while this was built: quick took ~15 min,
# thorough hours); on an idle 16-core machine quick needs about a minute
TIME_BUDGET = {"quick": 3000, "thorough": 28800}


def _describe_families(tier):
    d = 0 if tier == "quick" else 1
    names = lambda k, idx=None: [x["name"] for i, x in enumerate(FAMS[k]) if idx is None or i in idx]  # noqa: E731
    return {
        "containers": {"menus": {"2 features": names("cont2"), "1 feature": names("cont1")},
                       "what": "DataFrames (integer labels that are not the positions, one with a non-default row index), "
                       "ndarrays, lists, 1-D arrays and flat lists mixed across one history; initial reference in each container",
                       "bound": "(4 updates + 2 set_reference, <=1)^%d x 3 configurations (2 features); 5^%d x 3 (1 feature)" % (4 + d, 4 + d)},
        "dtypes-inside-range": {"menu": names("dtype2b"), "what": "round 5: int64 batches whose range lies strictly inside the "
                                "range of the float64 batches they are pooled with (fractional extremes on both sides of zero, also all-negative): "
                                "the pooled histogram range must not be truncated to the integer batch's dtype; 6^3 / 6^4 sequences, four 2-feature and "
                                "two 1-feature configurations"},
        "dtypes": {"menu": names("dtype2"), "what": "int64 and float32 batches next to float64 ones (fractional values, values "
                   "2^-30 below a bin edge); steps where float32 binning is legitimately ambiguous are not judged (none occurs)",
                   "bound": "5^%d x 4 configurations (2 features) + 3 (1 feature)" % (4 + d)},
        "shapes": {"menus": {"3 features": names("shape3"), "1 feature": names("shape1")},
                   "what": "3 features for HDDDM; a feature that is constant over reference and batch; every row twice; the "
                   "reference rows in another order; batches and references of exactly 2 rows",
                   "bound": "5^%d x 6 configurations (3 features) + 4 (1 feature) + the 2-row reference with detect_batch 1" % (4 + d)},
        "scales": {"what": "the original batches mapped to x/64 + 2^20 (level ~1e6, spread ~0.05) and to x * 2^-20 (~1e-6)",
                   "bound": "4^%d x (3 + 1) configurations per scale" % (4 + d)},
        "large": {"menu": names("large2"), "what": "20..46 rows per batch, initial reference 23 rows: floor(sqrt(n_ref)) runs "
                  "through 4..14", "bound": "default history of 6 batches, 4 alternatives at every position, <= %d deviations, "
                  "5 configurations" % (2 + d)},
        "identity": {"what": "references of 20..40 rows x {H, KL(JS), custom, asymmetric custom}: the reference rows in another "
                     "order and every row twice, three batches deep (bin fractions k/n, 2k/2n, ... that are not dyadic)",
                     "bound": "21 sizes x 4 divergences x 2^3"},
        "significance": {"values": SIG_EXTREMES, "bound": "4 values x detect_batch {1,2,3} x 3^%d over (lo4, shift4, wide9)" % (6 + d)},
        "subsets": {"values": [2, 12], "what": "2 subsets (a single pair distance: epsilon_0 = 0) and 12 subsets for references "
                    "of 4..9 rows (no documented upper limit; resampling is with replacement)",
                    "bound": "detect_batch {1,2} x subsets {2,12} x 6^%d" % (3 + d)},
        "set_reference": {"bound": "2 default histories of 6 updates x detect_batch {1,2,3} x 2 statistics; set_reference(lo4 / "
                          "shift9) at <= %d positions, every position (first call, last call, twice in a row, right after a "
                          "drift report)" % (2 + d)},
        "asymmetric": {"what": "user function for which f(reference, test) != f(test, reference); symmetry is not demanded, the "
                       "argument order reference-then-test is; inside the bootstrap pairs either order is accepted",
                       "bound": "4^%d x 4 configurations" % (4 + d)},
        "scales (3b)": {"what": "additionally x * 2^-30 (~1e-9, the whole range below 1e-8) and -2^27 (x + 1) (~-1e8, negative)",
                        "bound": "4^%d x (3 + 1) configurations per scale" % (4 + d)},
        "userfn": {"functions": ["euclid_counts", "l1_counts (returns a numpy integer)", "cum_counts (depends on the bin order)"],
                   "what": "user functions of the raw histograms (frequency counts per bin, as documented and as in the "
                   "library's example): not invariant under rescaling a histogram, unbounded; identity up to a common row "
                   "multiplicity and the sqrt(2) bound are not demanded for them",
                   "bound": "5^%d over (lo4, lo9, shift4, shift9, wide9) x %d configurations; the large-batch default history "
                   "with <= %d deviations x 2" % (4 + d, len(USERFN_CONFIGS), 2 + d)},
        "defaults": {"constructor calls": ["%s(%s)" % (SYSTEMS[s].det_cls.__name__, ", ".join("%s=%r" % kv for kv in sorted(g.items())))
                                           for s, _, g in DEFAULTS_CONFIGS],
                     "what": "keyword arguments that are not passed must take the documented defaults (detect_batch 1, 'H' / "
                     "'KL', 'tstat', 0.05, 5 subsets)", "bound": "5^%d each" % (4 + d)},
        "long": {"menu": names("long2"), "configurations": [[s, dk, p["detect_batch"], p["statistic"], p["significance"],
                                                           p["divergence"]] for s, _, dk, p in LONG_CONFIGS],
                 "what": "default histories of 24 updates (6..12 rows each; the reference grows to > 100 rows, 2..14 bins): a calm "
                 "epoch of 13 batches ending in a drift, two drifts at the first opportunity of their epochs, a fourth drift, "
                 "one more batch (for the detect_batch=3 configuration they were searched for); the same histories under "
                 "detect_batch 1 / 2 (up to 12 drifts, drift reports on consecutive calls)",
                 "bound": "every history with <= 1 position replaced by one of %s%s"
                 % (LONG_MENU, "; <= 2 positions for configurations %s" % (LONG_K2_THOROUGH,) if d else "")},
        "multi": {"detectors": {k: [[s, p["detect_batch"], p["statistic"], p["significance"], p["divergence"]] for s, p in v]
                                for k, v in MULTI_GROUPS.items()},
                  "what": "three detectors with different parameters alive in one state, every event is one call on one of them",
                  "bound": "round-robin history of 15 calls with <= %d deviations over all 12 (detector, batch) events; 9 "
                  "round-robin calls + (3 detectors x 2 batches)^%d; 2 groups" % (1 + d, 3 + d)},
    }


def describe(tier):
    return {
        "rule": "every sequence of update(batch) events over the 6-batch menu to the stated depth (prefix-shared "
        "DFS over the real detector, deepcopy snapshots), per configuration; plus scripted prefixes and "
        "set_reference events; a history is non-trivial when it contains a drift, a set_reference, a "
        "bootstrap removal in a later epoch or a no-drift decision within a factor 2 of its threshold",
        "bounds": {
            "batch_menu": NAMES,
            "rows": [4, 9],
            "features": {"HDDDM1": 1, "HDDDM2": 2, "CDBD": 1},
            "configurations": len(_combos()),
            "round3_families": _describe_families(tier),
            "grid": "detect_batch {1,2,3} x (tstat .05, tstat .5, stdev .5, stdev 2) x divergence {H, KL(JS), custom} "
            "x subsets {3,5} (detect_batch 1,2) x initial reference {lo4, lo9} x container {ndarray, DataFrame}",
            "depth": (
                {"every combination (on one of HDDDM/2 features, HDDDM/1 feature, CDBD, rotating; HDDDM/2 gets "
                 "half)": "6^4",
                 "detect_batch 3": "drift prefix (3) + 6^4",
                 "every 3rd combination": "1 + (6 updates + 2 set_reference, <= 1 set_reference)^4"}
                if tier == "quick" else
                {"every combination on HDDDM/2 features, every 2nd also on HDDDM/1 feature or CDBD": "6^5",
                 "every 6th combination": "6^6",
                 "detect_batch 3": "drift prefix (3) + 6^5",
                 "every 3rd combination": "6 x (6 updates + 2 set_reference, <= 2 set_reference)^4"}
            ),
        },
        "explanation": "states = tree nodes (HDM keeps per-batch records, no transposition merging); "
        "traces_validated_against_impl = maximal histories on which detector and specification were compared "
        "after every call",
        "assumptions": [
            "numpy.histogram, scipy.stats.t.ppf and DataFrame.sample are trusted primitives",
            "the bootstrap estimate epsilon_0 is an input of the property; it is validated as: `subsets` draws of "
            "DataFrame.sample(floor((1-1/subsets) n_ref), replace=True) from the pooled reference under the step's "
            "seed, histograms on the step's common edges, distance of each pair summed over the features, sum of "
            "absolute differences of all pairs of those distances divided by `subsets` (as implemented: the feature "
            "sum, not the feature mean, and /subsets rather than /number of pairs)",
            "threshold arithmetic is the paper's literal 1/(t-lambda-1) scaling (DESIGN §2.5); an epoch starts at a "
            "drift and at set_reference",
            "attributes that are stale by construction are not pinned: on the drift-reporting call reference_n may "
            "be the size of the replaced or of the new reference (it is refreshed when the next epoch starts and "
            "compared again from then on); feature_epsilons is compared from the 2nd batch of an epoch on, beta "
            "on calls that compute a threshold, feature_info on drift-reporting calls with >= 2 features",
            "feature_info names the feature by index (the dictionary key is compared after stripping blanks); ties "
            "of the per-feature growth accept any maximiser",
            "epsilon vs beta within relative 1e-9 or absolute 1e-12 is numerically undecidable and follows the "
            "implementation (counted as near_tie_steered); the all-zero tie 0 > 0 is enforced exactly",
            "round 3: distances are functions of integer bin counts, so the families at level 2^20 and at scale 2^-20 "
            "need no wider tolerance (the counts come from the same numpy.histogram call on the same float64 range); "
            "distance 0 is also demanded for a batch that equals the reference up to row order or up to a common "
            "multiplicity of every row (the normalised histograms coincide bit for bit); a feature with zero range over "
            "reference and batch contributes distance 0 whatever the common edges are",
            "round 3: set_reference of 2 rows / a drift on a 2-row batch with detect_batch=1 raises from the internal proxy "
            "update on the pinned tree (signature HDM-detect_batch1-two-row-reference, repro and patch under fixes/)",
        ],
    }
