"""C07 — HDDDM / CDBD alarm exactly when the distance change exceeds the adaptive bound.

Explored: every sequence of update(batch) events (menu of 6 batches: two
reference-like, two shifted, two widened; 4 and 9 rows; 1 and 2 features for
HDDDM, 1 for CDBD) — optionally interleaved with set_reference(batch) events —
up to the stated depth, for detect_batch x statistic x significance x
divergence x subsets, on the real detector.

Oracle: lock-step agreement with models/hdm.py after every call (drift_state,
current_distance, distances, epsilon_values, thresholds, beta, reference_n,
feature_epsilons, feature_info, counters; bootstrap epsilon_0 both read back
from ``thresholds`` and recomputed under the same seed) plus the distance axioms
as invariants (identity, symmetry through a role-swapped second detector,
bounds).
"""
import math

import numpy as np
import pandas as pd

from menelaus.data_drift import CDBD, HDDDM

from mc.explorer import System, Violation
from mc.numeric import close, lockstep
from mc.observe import batch_obs, fl
from mc.rng import seed_step
from models.hdm import HDMModel, bound_of, SQRT2

PROPERTY = "C07"

# --------------------------------------------------------------------------- data
_LO4 = np.array([[0.0, 1.0], [1.0, 0.0], [2.0, 2.0], [3.0, 1.0]])
_LO9 = np.array(
    [[0.2, 0.9], [1.1, 0.1], [2.2, 1.9], [2.9, 1.2], [0.6, 0.4],
     [1.6, 1.7], [2.4, 0.3], [0.9, 1.4], [1.9, 0.8]]
)
MENU2 = [
    _LO4,                                   # 0 reference-like, 4 rows (identical to ref0 = 0)
    _LO9,                                   # 1 reference-like, 9 rows (identical to ref0 = 1)
    _LO4 + np.array([2.5, 0.3]),            # 2 shifted (mostly feature 0), 4 rows
    _LO9 + np.array([0.4, 3.1]),            # 3 shifted (mostly feature 1), 9 rows
    _LO4 * np.array([2.2, 0.4]) - np.array([1.7, -0.3]),   # 4 widened f0 / narrowed f1, 4 rows
    _LO9 * np.array([0.5, 2.6]) + np.array([0.8, -1.9]),   # 5 narrowed f0 / widened f1, 9 rows
]
MENU1 = [m[:, :1].copy() for m in MENU2]
NAMES = ["lo4", "lo9", "shift4", "shift9", "wide4", "wide9"]


def euclid_hist(reference_hist, test_hist):
    """User-supplied metric: Euclidean distance of the normalised histograms."""
    r = np.asarray(reference_hist, dtype=float)
    t = np.asarray(test_hist, dtype=float)
    return float(np.sqrt(np.sum((r / r.sum() - t / t.sum()) ** 2)))


DIVS = {"H": "H", "KL": "KL", "custom": euclid_hist}


def _bound(divname):
    b = bound_of(DIVS[divname])
    return SQRT2 if b is None else b  # euclid of two probability vectors <= sqrt(2)


# --------------------------------------------------------------------------- observation
def hdm_obs(det):
    o = batch_obs(det)
    o["current_distance"] = fl(getattr(det, "current_distance", None))
    for k in ("distances", "epsilon_values", "thresholds"):
        o[k] = {str(a): fl(b) for a, b in getattr(det, k).items()}
    o["beta"] = fl(getattr(det, "beta", None))
    rn = getattr(det, "reference_n", None)
    o["reference_n"] = None if rn is None else int(rn)
    fe = getattr(det, "feature_epsilons", None)
    o["feature_epsilons"] = None if fe is None else [fl(x) for x in fe]
    fi = getattr(det, "feature_info", None)
    if isinstance(fi, dict):
        n = {}
        for k, v in fi.items():
            k = str(k).strip()
            if isinstance(v, (list, tuple, np.ndarray)):
                n[k] = [fl(x) for x in v]
            elif isinstance(v, (int, np.integer)):
                n[k] = int(v)
            else:
                n[k] = v if isinstance(v, str) else repr(v)
        o["feature_info"] = n
    else:
        o["feature_info"] = None
    return o


def _bad_keys(exp, obs):
    bad = []
    for k, v in exp.items():
        if k.startswith("_"):
            continue
        if k not in obs or not close(v, obs[k]):
            bad.append(k)
    anyof = exp.get("_reference_n_any_of")
    if anyof is not None and obs.get("reference_n") not in anyof:
        bad.append("reference_n")
    fi = exp.get("_feature_info")
    if fi is not None:
        o = obs.get("feature_info")
        if (
            not isinstance(o, dict)
            or not close(fi["Epsilons"], o.get("Epsilons"))
            or not close(fi["Feature_Distances"], o.get("Feature_Distances"))
            or o.get("Significant_drift_in_variable") not in fi["argmax"]
        ):
            bad.append("feature_info")
    return bad


# --------------------------------------------------------------------------- system
class HDMSystem(System):
    def __init__(self, name, det_cls, features):
        self.name = name
        self.det_cls = det_cls
        self.features = features
        self.menu = MENU2 if features == 2 else MENU1

    # -- helpers
    def _params(self, cfg):
        p = cfg["params"]
        return dict(
            detect_batch=p["detect_batch"],
            statistic=p["statistic"],
            significance=p["significance"],
            subsets=p["subsets"],
            divergence=DIVS[p["divergence"]],
        )

    def _wrap(self, cfg, arr):
        arr = np.array(arr, dtype=float)
        if cfg.get("container") == "df":
            cols = ["a", "b"][: arr.shape[1]]
            return pd.DataFrame(arr, columns=cols)
        return arr

    def init(self, cfg):
        kw = self._params(cfg)
        # the initial set_reference is executed lazily by the first step, so that a disagreement
        # there is reported as a violation of the history and not as a harness crash
        return {"det": self.det_cls(**kw), "model": HDMModel(**kw), "nsetref": 0, "ready": False}

    def _start(self, cfg, state):
        det, model = state["det"], state["model"]
        r0 = self.menu[cfg["ref0"]]
        try:
            det.set_reference(self._wrap(cfg, r0))
        except Exception as e:  # noqa: BLE001
            raise Violation("%s-exception" % self.name, "initial set_reference raised %r" % e, observed=repr(e))
        exp = model.set_reference(r0)
        obs = hdm_obs(det)
        bad = _bad_keys(exp, obs)
        if bad:
            raise Violation(
                "%s-set_reference" % self.name,
                "after the initial set_reference(%s) the detector disagrees with the specification on %s"
                % (NAMES[cfg["ref0"]], bad),
                expected=exp, observed=obs,
            )
        state["ready"] = True

    def alphabet(self, cfg, state, pos):
        evs = [["u", i] for i in range(len(self.menu))]
        if state["nsetref"] < cfg.get("max_setref", 0):
            evs += [["r", i] for i in cfg.get("setref_menu", [])]
        return evs

    # -- one event
    def step(self, cfg, state, ev, pos, ctx):
        kind, bi = ev[0], int(ev[1])
        X = self.menu[bi]
        if not state["ready"]:
            self._start(cfg, state)
            if state["model"].db == 1:
                ctx.count("proxy_batches")
        det = state["det"]
        model0 = state["model"]
        divname = cfg["params"]["divergence"]
        sid = (self.name, cfg["id"])

        if kind == "r":
            used = model0.used
            stale = model0.total != model0.last_drift_index
            try:
                seed_step(ctx.seed, sid, pos)
                det.set_reference(self._wrap(cfg, X))
            except Exception as e:  # noqa: BLE001
                raise Violation(
                    "%s-exception" % self.name,
                    "set_reference(%s) raised %r" % (NAMES[bi], e),
                    observed=repr(e),
                )
            obs = hdm_obs(det)
            exp = model0.set_reference(X)
            state["nsetref"] += 1
            bad = _bad_keys(exp, obs)
            if bad:
                raise Violation(
                    "%s-set_reference" % self.name,
                    "after set_reference(%s) at call %d the detector disagrees with the specification on %s"
                    % (NAMES[bi], pos + 1, bad),
                    expected=exp, observed=obs,
                )
            ctx.mark("set_reference_events")
            if used:
                ctx.count("set_reference_on_used_detector")
            if stale:
                ctx.count("set_reference_not_right_after_drift")
            if exp.get("_proxy"):
                ctx.count("proxy_batches")
            self._bounds(obs, divname)
            return obs

        # ---- update(batch)
        # reference this batch is compared with: the pooled reference, or (right after a drift)
        # the drifted batch -- for detect_batch=1 its two halves, re-united by the proxy batch
        ref_before = model0.ref
        try:
            seed_step(ctx.seed, sid, pos)
            det.update(self._wrap(cfg, X))
        except Exception as e:  # noqa: BLE001
            raise Violation(
                "%s-exception" % self.name,
                "update(%s) at call %d raised %r" % (NAMES[bi], pos + 1, e),
                observed=repr(e),
            )
        obs = hdm_obs(det)

        def call(m, D):
            return m.update(X, D, reseed=lambda: seed_step(ctx.seed, sid, pos))

        model, exp, ok = lockstep(
            model0, call, lambda e: not _bad_keys(e, obs), stats=ctx.stats
        )
        if not ok:
            bad = _bad_keys(exp, obs)
            sub = "%s-spec" % self.name
            sig = None
            what = ""
            if "_e0" in exp and "thresholds" in bad and not (
                set(bad) & {"distances", "epsilon_values", "current_distance", "feature_epsilons"}
            ) and not close(
                exp["_e0"], obs["thresholds"].get(str(obs["total"]))
            ):
                sub = "%s-bootstrap-epsilon0" % self.name
                what = (
                    " (the threshold of the bootstrap batch must equal epsilon_0 recomputed under the same "
                    "seed: %r vs %r)" % (exp["_e0"], obs["thresholds"].get(str(obs["total"])))
                )
            elif model0.setrefs > 1:
                # classification only: does the known stale-_lambda behaviour explain it?
                import copy

                m2 = copy.deepcopy(model0)
                m2.lam_mode = "stale-set_reference"
                _, exp2, ok2 = lockstep(m2, call, lambda e: not _bad_keys(e, obs))
                if ok2:
                    sub = "HDM-set_reference-stale-lambda"
                    sig = sub
                    what = (
                        " — explained by set_reference() on a used detector keeping the drift index of the "
                        "previous epoch (divisor t-lambda-1 = %d instead of %d)"
                        % (obs["total"] - model0.last_drift_index - 1, model0.since if model0.state != "drift" else 0)
                    )
            raise Violation(
                sub,
                "%s disagrees with its specification on %s after call %d (%s %s)%s"
                % (self.name, bad, pos + 1, "update", NAMES[bi], what),
                expected={k: v for k, v in exp.items()},
                observed=obs,
                sig=sig,
            )
        state["model"] = model

        # ---- invariants (distance axioms)
        self._bounds(obs, divname)
        d = obs["current_distance"]
        if obs["state"] == "drift" and isinstance(obs.get("feature_info"), dict) and "_feature_info" in exp:
            for v in obs["feature_info"].get("Feature_Distances") or []:
                if v is None or not (0.0 <= v <= _bound(divname) * (1 + 1e-12) + 1e-15):
                    raise Violation("%s-bound" % self.name, "per-feature distance %r outside [0, bound]" % v,
                                    expected=[0, _bound(divname)], observed=v)
        if np.array_equal(ref_before, X):
            ctx.count("identity_checks")
            if not (abs(d) <= 1e-12):
                raise Violation(
                    "%s-identity" % self.name,
                    "distance of a batch identical to the reference is %r, not 0" % d,
                    expected=0.0, observed=d,
                )
        if len(ref_before) == len(X):
            self._symmetry(cfg, ref_before, X, d, ctx)

        # ---- coverage counters
        if exp["_proxy"]:
            ctx.count("proxy_batches")
            ctx.count("proxy_batches_after_drift")
        if "beta" in exp:
            if obs["state"] == "drift":
                ctx.mark("drift_transitions")
                if model.drifts == 2:
                    ctx.count("second_drift_of_a_history")
                if model.drifts >= 3:
                    ctx.count("third_or_later_drift_of_a_history")
                fi = exp.get("_feature_info")
                if fi is not None and len(fi["argmax"]) == 1:
                    ctx.count("feature_info_names_feature_%d" % fi["argmax"][0])
            else:
                ctx.count("decisions_no_drift")
                e, b = exp["_eps"], exp["beta"]
                if b > 0 and 0.5 * b <= e:
                    ctx.mark("no_drift_within_factor2_of_threshold")
        if "_e0" in exp:
            ctx.count("bootstrap_epsilon0_recomputed")
            if model.epochs >= 2:
                ctx.count("bootstrap_in_2nd_or_later_epoch")
        if exp["_removed_e0"]:
            ctx.count("bootstrap_removed")
            if model.epochs >= 2:
                ctx.mark("bootstrap_removed_in_2nd_or_later_epoch")
        if obs["state"] != "drift":
            nb = exp["_n_ref_before"]
            if math.isqrt(len(model.ref)) > math.isqrt(nb):
                ctx.count("no_drift_reference_growth_crossed_bins_boundary")
        if pos == cfg.get("len", -1) - 1:
            if model.drifts >= 2:
                ctx.count("histories_with_ge2_drifts")
            if model.drifts >= 3:
                ctx.count("histories_with_ge3_drifts")
        return obs

    # -- pieces
    def _bounds(self, obs, divname):
        ub = _bound(divname)
        for k, v in obs["distances"].items():
            if v is None or not (0.0 <= v <= ub * (1 + 1e-12) + 1e-15):
                raise Violation(
                    "%s-bound" % self.name,
                    "recorded distance %r of batch %s outside [0, %r]" % (v, k, ub),
                    expected=[0.0, ub], observed=v,
                )

    def _symmetry(self, cfg, ref, X, d, ctx):
        kw = self._params(cfg)
        kw["detect_batch"] = 3
        twin = self.det_cls(**kw)
        try:
            twin.set_reference(self._wrap(cfg, X))
            twin.update(self._wrap(cfg, ref))
            d2 = fl(twin.current_distance)
        except Exception as e:  # noqa: BLE001
            raise Violation("%s-exception" % self.name, "role-swapped detector raised %r" % e, observed=repr(e))
        ctx.count("symmetry_checks")
        if d > 1e-9:
            ctx.count("symmetry_checks_nonzero_distance")
        if not close(d, d2):
            raise Violation(
                "%s-symmetry" % self.name,
                "distance(reference, batch) = %r but distance(batch, reference) = %r for equal sizes (%d rows)"
                % (d, d2, len(X)),
                expected=d, observed=d2,
            )


SYSTEMS = {
    "HDDDM1": HDMSystem("HDDDM1", HDDDM, 1),
    "HDDDM2": HDMSystem("HDDDM2", HDDDM, 2),
    "CDBD": HDMSystem("CDBD", CDBD, 1),
}


# --------------------------------------------------------------------------- configurations
STATS = [("tstat", 0.05), ("tstat", 0.5), ("stdev", 0.5), ("stdev", 2)]
ROTA = ["HDDDM2", "HDDDM1", "HDDDM2", "CDBD"]  # the 2-feature system gets half of the combinations


def _combos():
    """detect_batch x (statistic, significance) x divergence x subsets (subsets only matters for
    detect_batch 1, 2): 60 combinations."""
    out = []
    for db in (1, 2, 3):
        for (stat, sig) in STATS:
            for div in ("H", "KL", "custom"):
                for subsets in ((3, 5) if db != 3 else (5,)):
                    out.append({"detect_batch": db, "statistic": stat, "significance": sig,
                                "divergence": div, "subsets": subsets})
    return out


def _cfg(j, params):
    return {
        "id": j,
        "params": params,
        "ref0": (j + (j // 2)) % 2,  # initial reference: the 4-row or the 9-row reference-like batch
        "container": "df" if j % 5 == 0 else "nd",
    }


def _label(sysname, cfg, extra):
    p = cfg["params"]
    return "%s|%d|db%d-%s%s-%s-s%d-ref%d-%s|%s" % (
        sysname, cfg["id"], p["detect_batch"], p["statistic"], p["significance"], p["divergence"],
        p["subsets"], cfg["ref0"], cfg["container"], extra,
    )


def _task(sysname, cfg, prefix, depth, extra, cost, **kw):
    c = dict(cfg)
    c.update(kw)
    c["len"] = len(prefix) + depth
    return {
        "system": sysname, "cfg": c, "prefix": [list(e) for e in prefix], "depth": depth,
        "label": _label(sysname, c, extra), "cost": cost, "validate_every": 97,
    }


def _U(i):
    return ["u", i]


def _drift_prefix(cfg):
    """reference-like, reference-like, far batch: ends in a drift for detect_batch 3."""
    far = 3 if cfg["ref0"] == 0 else 2
    return [_U(cfg["ref0"]), _U(cfg["ref0"]), _U(far)]


def tasks(tier, seed):
    out = []
    combos = _combos()
    if tier == "quick":
        for j, params in enumerate(combos):
            cfg = _cfg(j, params)
            sysname = ROTA[(j + seed) % 4]
            # (a) all 6^4 update sequences from the fresh reference
            out.append(_task(sysname, cfg, [], 4, "u6^4", 6 ** 4))
            # (b) detect_batch 3 needs >= 6 batches for a second drift: scripted prefix ending in a
            #     drift, then all 6^4 continuations
            if params["detect_batch"] == 3:
                out.append(_task(sysname, cfg, _drift_prefix(cfg), 4, "pre3+u6^4", 6 ** 4))
            # (c) set_reference events (at most one per history, two candidate batches) after one
            #     batch, depth 4: a third of the combinations
            if (j + j // 6) % 3 == seed % 3:
                s2 = ROTA[(j // 3 + seed) % 4]
                out.append(_task(s2, cfg, [_U(1 - cfg["ref0"])], 4, "pre1+setref<=1", 3 * 6 ** 4,
                                 max_setref=1, setref_menu=[0, 3]))
        return out
    # thorough
    for j, params in enumerate(combos):
        cfg = _cfg(j, params)
        one_feature = ("HDDDM1", "CDBD")[(j + j // 4 + seed) % 2]
        for sysname in ("HDDDM2", one_feature) if (j // 2 + seed) % 2 == 0 else ("HDDDM2",):
            # all 6^5 on the 2-feature detector; every other combination also on a 1-feature detector
            for a in range(6):
                out.append(_task(sysname, cfg, [_U(a)], 4, "u6^5/%d" % a, 6 ** 4))
        sysname = ROTA[(j + seed) % 4]
        if (j + j // 6) % 6 == seed % 6:
            # all 6^6 for a sixth of the combinations
            for a in range(6):
                for b in range(6):
                    out.append(_task(sysname, cfg, [_U(a), _U(b)], 4, "u6^6/%d%d" % (a, b), 6 ** 4))
        if params["detect_batch"] == 3:
            for a in range(6):
                out.append(_task(sysname, cfg, _drift_prefix(cfg) + [_U(a)], 4, "pre3+u6^5/%d" % a, 6 ** 4))
        if (j + j // 6) % 3 == seed % 3:
            s2 = ROTA[(j // 3 + seed) % 4]
            for a in range(6):
                out.append(_task(s2, cfg, [_U(a)], 4, "pre1+setref<=2/%d" % a, 3 * 6 ** 4,
                                 max_setref=2, setref_menu=[0, 3]))
    return out


REQUIRED = [
    "drift_transitions",
    "decisions_no_drift",
    "histories_with_ge2_drifts",
    "bootstrap_epsilon0_recomputed",
    "bootstrap_removed_in_2nd_or_later_epoch",
    "proxy_batches",
    "proxy_batches_after_drift",
    "feature_info_names_feature_0",
    "feature_info_names_feature_1",
    "no_drift_reference_growth_crossed_bins_boundary",
    "identity_checks",
    "symmetry_checks_nonzero_distance",
    "set_reference_on_used_detector",
    "exact_ties",
    "no_drift_within_factor2_of_threshold",
]

TIME_BUDGET = {"quick": 1500, "thorough": 3600}


def describe(tier):
    return {
        "rule": "every sequence of update(batch) events over the 6-batch menu to the stated depth (prefix-shared "
        "DFS over the real detector, deepcopy snapshots), per configuration; plus scripted prefixes and "
        "set_reference events; a history is non-trivial when it contains a drift, a set_reference, a "
        "bootstrap removal in a later epoch or a no-drift decision within a factor 2 of its threshold",
        "bounds": {
            "batch_menu": NAMES,
            "rows": [4, 9],
            "features": {"HDDDM1": 1, "HDDDM2": 2, "CDBD": 1},
            "configurations": len(_combos()),
            "grid": "detect_batch {1,2,3} x (tstat .05, tstat .5, stdev .5, stdev 2) x divergence {H, KL(JS), custom} "
            "x subsets {3,5} (detect_batch 1,2) x initial reference {lo4, lo9} x container {ndarray, DataFrame}",
            "depth": (
                {"every combination (on one of HDDDM/2 features, HDDDM/1 feature, CDBD, rotating; HDDDM/2 gets "
                 "half)": "6^4",
                 "detect_batch 3": "drift prefix (3) + 6^4",
                 "every 3rd combination": "1 + (6 updates + 2 set_reference, <= 1 set_reference)^4"}
                if tier == "quick" else
                {"every combination on HDDDM/2 features, every 2nd also on HDDDM/1 feature or CDBD": "6^5",
                 "every 6th combination": "6^6",
                 "detect_batch 3": "drift prefix (3) + 6^5",
                 "every 3rd combination": "6 x (6 updates + 2 set_reference, <= 2 set_reference)^4"}
            ),
        },
        "explanation": "states = tree nodes (HDM keeps per-batch records, no transposition merging); "
        "traces_validated_against_impl = maximal histories on which detector and specification were compared "
        "after every call",
        "assumptions": [
            "numpy.histogram, scipy.stats.t.ppf and DataFrame.sample are trusted primitives",
            "the bootstrap estimate epsilon_0 is an input of the property; it is validated as: `subsets` draws of "
            "DataFrame.sample(floor((1-1/subsets) n_ref), replace=True) from the pooled reference under the step's "
            "seed, histograms on the step's common edges, distance of each pair summed over the features, sum of "
            "absolute differences of all pairs of those distances divided by `subsets` (as implemented: the feature "
            "sum, not the feature mean, and /subsets rather than /number of pairs)",
            "threshold arithmetic is the paper's literal 1/(t-lambda-1) scaling (DESIGN §2.5); an epoch starts at a "
            "drift and at set_reference",
            "attributes that are stale by construction are not pinned: on the drift-reporting call reference_n may "
            "be the size of the replaced or of the new reference (it is refreshed when the next epoch starts and "
            "compared again from then on); feature_epsilons is compared from the 2nd batch of an epoch on, beta "
            "on calls that compute a threshold, feature_info on drift-reporting calls with >= 2 features",
            "feature_info names the feature by index (the dictionary key is compared after stripping blanks); ties "
            "of the per-feature growth accept any maximiser",
            "epsilon vs beta within relative 1e-9 or absolute 1e-12 is numerically undecidable and follows the "
            "implementation (counted as near_tie_steered); the all-zero tie 0 > 0 is enforced exactly",
        ],
    }
