"""C19 — MD3 follows its warn / ask-the-oracle / confirm protocol.

Explored: the real ``menelaus.concept_drift.MD3`` closed with a deterministic
threshold classifier (sklearn ``BaseEstimator`` stub) and a user margin
function, under every interleaving of

    update(in-margin sample)          update(out-of-margin sample)
    update(2-row frame)                                   [illegal]
    give_oracle_label(correct label)  give_oracle_label(wrong label)
    give_oracle_label(renamed target column)              [illegal]
    give_oracle_label(extra column)                       [illegal]
    give_oracle_label(2 rows)                             [illegal]

up to the depth bound, from 3 reference batches x sensitivity {0.5, 2} x
oracle_data_length_required {1, 2, 3, None} x k {2, 3}.  Every event is enabled
in every state, so ``update`` while waiting and ``give_oracle_label`` while not
waiting (the protocol refusals) occur everywhere.

Oracle: lock-step agreement with models/md3.py (protocol + margin-density
recurrence + k-fold statistics, exact rationals) on drift_state,
waiting_for_oracle, len(oracle_data), curr_margin_density,
reference_distribution, total_updates, updates_since_reset and the exception
type after every call; for refused calls additionally a frame check: the
structural hash of every attribute of the detector is identical before and
after the call.

States are merged on (structural hash of the whole detector, model summary), so
a refused call — which provably returns to the same state — costs one
transition and no subtree.

Long streams (deviation-bounded mode): a periodic stream of 36 / 48 updates
that stays inside the warning band, with every replacement of <= 1 / 2 calls.

oracle_data_length_required < k: the labelled samples cannot be summarised over
k folds, so the property cannot be met once L labels have arrived; the check
accepts only an up-front refusal of the configuration (ValueError from the
constructor or set_reference) and otherwise reports
sig=C19-MD3-oracle-length-below-k at the L-th label (genuine defect on the
pinned tree, see /verif/fixes/C19-oracle-length-below-k.*).
"""
from fractions import Fraction

import numpy as np
import pandas as pd
from sklearn.base import BaseEstimator, ClassifierMixin

from menelaus.concept_drift import MD3

from mc import rng
from mc.canon import canon
from mc.explorer import System, Violation
from mc.numeric import diff_keys, lockstep
from models.md3 import MD3Model, UNDEFINED, in_margin, learn_threshold, predict_one

PROPERTY = "C19"

FEATURES = ["x", "z"]
TARGET = "y"


# --------------------------------------------------------------------------
# environment handed to MD3: stub classifier + user margin function
# --------------------------------------------------------------------------
class ThresholdClassifier(ClassifierMixin, BaseEstimator):
    """fit learns a threshold on feature 0 (models.md3.learn_threshold, exact
    rationals — binary64 inputs are rationals), predict compares with it."""

    def __init__(self, margin=0.5):
        self.margin = margin

    def fit(self, X, y):
        X = np.asarray(X, dtype=float)
        y = np.asarray(y).ravel()
        self.thr_ = learn_threshold(
            [Fraction(v) for v in X[:, 0].tolist()], [int(v) for v in y.tolist()]
        )
        self.classes_ = np.array([0, 1])
        return self

    def predict(self, X):
        X = np.asarray(X, dtype=float)
        return np.array(
            [predict_one(Fraction(v), self.thr_) for v in X[:, 0].tolist()], dtype=int
        )


def margin_function(detector, sample, clf):
    """User margin function: 1 iff |x0 - thr| <= m."""
    return in_margin(Fraction(float(sample[0])), clf.thr_, Fraction(clf.margin))


# the user's classifier is trained once on this set (threshold exactly 3) and is
# never refitted by MD3
TRAIN_X = [1.0, 2.0, 4.0, 5.0]
TRAIN_Y = [0, 0, 1, 1]
USER_THR = Fraction(3)

# reference batches (x0, label); chosen (offline search, verified in init) so that
# md_std > 0 and acc_std > 0 for k = 2 and k = 3 and so that warnings are reached
# from both sides within a few updates for both sensitivities.
REFS = {
    # high margin density: out-of-margin samples push MD below the reference
    "R6": {
        "margin": 1.0,
        "rows": [(4.5, 1), (2.75, 0), (3.25, 1), (3.75, 0), (3.5, 1), (5.25, 1)],
    },
    # low margin density
    "R7": {
        "margin": 0.5,
        "rows": [(0.5, 0), (0.75, 0), (1.25, 0), (3.5, 0), (3.75, 1), (4.0, 1), (5.75, 1)],
    },
    # N = 8, k = 2: every statistic and the forgetting factor are dyadic (exact ties enforced)
    "R8": {
        "margin": 0.5,
        "rows": [(0.0, 0), (0.75, 0), (2.25, 0), (3.0, 1), (3.5, 0), (3.75, 1), (5.25, 1), (5.5, 1)],
    },
}
X_IN = 3.25  # inside the margin of the user's classifier for m = 0.5 and m = 1
X_OUT = 6.0  # outside
# feature 0 of the i-th labelled sample of oracle round r: LAB_X[(i + 3 r) mod 8]
LAB_X = [3.25, 1.0, 5.0, 2.75, 4.0, 2.0, 3.5, 0.5]

SENS = [0.5, 2]
ORACLE_LEN = [1, 2, 3, None]
FOLDS = [2, 3]

EVENTS = [
    "upd_in",
    "upd_out",
    "upd_2rows",
    "lab_ok",
    "lab_bad",
    "lab_cols_renamed",
    "lab_cols_extra",
    "lab_2rows",
]
EVKIND = {
    "upd_in": "update",
    "upd_out": "update",
    "upd_2rows": "update_2rows",
    "lab_ok": "label",
    "lab_bad": "label",
    "lab_cols_renamed": "label_columns",
    "lab_cols_extra": "label_columns",
    "lab_2rows": "label_2rows",
}


def _ref_frame(rows):
    return pd.DataFrame(
        {
            "x": [float(x) for x, _ in rows],
            "z": [float(i % 2) for i in range(len(rows))],
            "y": [int(y) for _, y in rows],
        }
    )


def _frame_hash(det):
    return {k: canon(v) for k, v in vars(det).items()}


def _fl(v):
    try:
        return float(v)
    except Exception:
        return repr(v)


def _observe(det, exc):
    rd = getattr(det, "reference_distribution", None)
    od = getattr(det, "oracle_data", None)
    return {
        "exc": exc,
        "state": det.drift_state,
        "waiting": det.waiting_for_oracle,
        "n_oracle": 0 if od is None else int(len(od)),
        "md": _fl(getattr(det, "curr_margin_density", None)),
        "ref": None
        if rd is None
        else {
            "len": int(rd["len"]),
            "md": _fl(rd["md"]),
            "md_std": _fl(rd["md_std"]),
            "acc": _fl(rd["acc"]),
            "acc_std": _fl(rd["acc_std"]),
        },
        "total": int(det.total_updates),
        "since": int(det.updates_since_reset),
    }


def _labelled(model, ok):
    i = len(model.labels)
    x = LAB_X[(i + 3 * model.rounds) % len(LAB_X)]
    pred = predict_one(x, USER_THR)
    return x, (pred if ok else 1 - pred)


def _event(model, ev):
    """-> (method name, column -> values of the frame passed, model call)"""
    cols = FEATURES + [TARGET]
    if ev == "upd_in":
        return "update", {"x": [X_IN], "z": [1.0]}, lambda mm, D: mm.update(1, X_IN, D)
    if ev == "upd_out":
        return "update", {"x": [X_OUT], "z": [0.0]}, lambda mm, D: mm.update(1, X_OUT, D)
    if ev == "upd_2rows":
        return "update", {"x": [X_IN, X_OUT], "z": [1.0, 0.0]}, lambda mm, D: mm.update(2, X_IN, D)
    if ev in ("lab_ok", "lab_bad"):
        x, y = _labelled(model, ev == "lab_ok")
        data = {"x": [x], "z": [float(len(model.labels) % 2)], "y": [y]}
        return "give_oracle_label", data, lambda mm, D: mm.label(1, cols, x, y, D)
    x, y = _labelled(model, True)
    if ev == "lab_cols_renamed":
        data = {"x": [x], "z": [0.0], "target": [y]}
        return "give_oracle_label", data, lambda mm, D: mm.label(1, ["x", "z", "target"], x, y, D)
    if ev == "lab_cols_extra":
        data = {"x": [x], "z": [0.0], "y": [y], "w": [1.0]}
        return "give_oracle_label", data, lambda mm, D: mm.label(1, cols + ["w"], x, y, D)
    if ev == "lab_2rows":
        data = {"x": [x, x], "z": [0.0, 1.0], "y": [y, y]}
        return "give_oracle_label", data, lambda mm, D: mm.label(2, cols, x, y, D)
    raise KeyError(ev)


def _new_model(cfg):
    ref = REFS[cfg["ref"]]
    model = MD3Model(
        ref["rows"], FEATURES + [TARGET], cfg["sens"], cfg["k"], cfg["L"], USER_THR, ref["margin"]
    )
    assert model.stats["md_std"] != 0 and model.stats["acc_std"] != 0, cfg
    return model


class MD3System(System):
    name = "MD3"

    # -- construction ---------------------------------------------------------
    def init(self, cfg):
        ref = REFS[cfg["ref"]]
        rows = ref["rows"]
        k, L, sens = cfg["k"], cfg["L"], cfg["sens"]
        clf = ThresholdClassifier(margin=ref["margin"]).fit(
            np.array([[x, 0.0] for x in TRAIN_X]), np.array(TRAIN_Y)
        )
        assert clf.thr_ == USER_THR
        assert in_margin(X_IN, USER_THR, ref["margin"]) == 1
        assert in_margin(X_OUT, USER_THR, ref["margin"]) == 0
        model = _new_model(cfg)
        undefined = L is not None and L < k
        try:
            det = MD3(
                clf,
                margin_calculation_function=margin_function,
                sensitivity=sens,
                k=k,
                oracle_data_length_required=L,
            )
            det.set_reference(_ref_frame(rows), target_name=TARGET)
        except ValueError as e:
            if undefined:
                # k-fold statistics of L < k labelled samples do not exist: refusing the
                # configuration up front is the only way to honour the protocol
                return {"config_refused": str(e)[:200]}
            return {"init_error": "%s: %s" % (type(e).__name__, str(e)[:200])}
        except Exception as e:  # noqa: BLE001 - becomes a Violation at the first step
            return {"init_error": "%s: %s" % (type(e).__name__, str(e)[:200])}
        return {"det": det, "model": model, "fh": _frame_hash(det)}

    def alphabet(self, cfg, state, pos):
        if "config_refused" in state:
            return ["noop"]
        if "init_error" in state:
            return ["upd_in"]
        return EVENTS

    def key(self, cfg, state, pos):
        if "det" not in state:
            return None
        # state["fh"] is the per-attribute structural hash of the complete detector,
        # recomputed after every call
        return (tuple(sorted(state["fh"].items())), state["model"].canon())

    # -- one event ---------------------------------------------------------------
    def step(self, cfg, state, ev, pos, ctx):
        if "init_error" in state:
            raise Violation(
                "MD3-construction",
                "MD3(...) / set_reference raised on a valid configuration %r: %s"
                % ({k: cfg[k] for k in ("ref", "sens", "k", "L")}, state["init_error"]),
                expected="detector constructed",
                observed=state["init_error"],
            )
        if "config_refused" in state:
            ctx.count("config_refused_up_front")
            ctx.terminal = True
            return {"config_refused": state["config_refused"]}
        det = state["det"]
        meth, data, mcall = _event(state["model"], ev)
        df = pd.DataFrame(data)
        was_waiting = state["model"].waiting
        was_drift = state["model"].state == "drift"
        before = state["fh"]
        rng.seed_step(ctx.seed, cfg["id"], pos)
        exc = None
        try:
            getattr(det, meth)(df)
        except ValueError:
            exc = "ValueError"
        except Exception as e:  # noqa: BLE001
            exc = "%s: %s" % (type(e).__name__, str(e)[:120])
        obs = _observe(det, exc)
        after = state["fh"] = _frame_hash(det)

        model, exp, ok = lockstep(
            state["model"],
            mcall,
            lambda e: UNDEFINED in e or not diff_keys(e, obs),
            stats=ctx.stats,
        )
        state["model"] = model
        if UNDEFINED in exp:
            raise Violation(
                "MD3-oracle-length-below-folds",
                "oracle_data_length_required=%d < k=%d was accepted at construction, but after exactly %d "
                "labelled sample(s) the k-fold summary of the new reference does not exist: the detector cannot "
                "adopt them, stop waiting and restart (observed: exc=%r, waiting=%r, len(oracle_data)=%r, "
                "drift_state=%r, reference len=%r)"
                % (exp["L"], exp["k"], exp["L"], obs["exc"], obs["waiting"], obs["n_oracle"], obs["state"],
                   obs["ref"] and obs["ref"]["len"]),
                expected="configuration refused up front, or a completed confirmation",
                observed=obs,
                sig="C19-MD3-oracle-length-below-k",
            )
        if not ok:
            bad = diff_keys(exp, obs)
            raise Violation(
                "MD3-protocol",
                "MD3 disagrees with the protocol model on %s after %s (%s, step %d)"
                % (bad, ev, "waiting" if was_waiting else "not waiting", pos + 1),
                expected=exp,
                observed=obs,
            )
        last = model.last
        if exp["exc"] is not None:
            # refused: nothing may change
            changed = sorted(k for k in set(before) | set(after) if before.get(k) != after.get(k))
            if changed:
                raise Violation(
                    "MD3-refusal-frame",
                    "refused %s (%s) changed detector attributes %s"
                    % (ev, "waiting" if was_waiting else "not waiting", changed),
                    expected="no attribute changes",
                    observed=changed,
                )
            ctx.mark("refused_%s_%s" % (EVKIND[ev], "waiting" if was_waiting else "idle"))
            if was_drift:
                ctx.count("refused_while_drift_reported")
            return obs

        kind = last[0]
        if kind == "warning":
            ctx.mark("warnings")
            ctx.count("warning_%s_side" % last[1])
            if last[2] >= 1:
                ctx.mark("warning_after_reference_replacement")
        elif kind in ("confirmed", "rejected"):
            ctx.mark("confirmed_drifts" if kind == "confirmed" else "rejected_confirmations")
            if last[1]:
                ctx.count("new_reference_md_std_positive")
            else:
                ctx.count("new_reference_md_std_zero")
            if last[2] >= 2:
                ctx.mark("histories_with_2_oracle_rounds")
            if last[2] >= 3:
                ctx.count("histories_with_3_oracle_rounds")
        elif kind == "label":
            ctx.count("labels_collected_before_last")
        elif kind == "update":
            ctx.count("quiet_updates")
            if model.since == 30:
                ctx.count("streams_of_30_updates_without_warning")
        if meth == "update" and was_drift:
            ctx.mark("epoch_restart_after_drift")
        return obs


SYSTEMS = {"MD3": MD3System()}

DEPTH = {"quick": 8, "thorough": 11}


def _cfgs():
    out = []
    i = 0
    for r in sorted(REFS):
        for s in SENS:
            for L in ORACLE_LEN:
                for k in FOLDS:
                    out.append({"id": i, "ref": r, "sens": s, "L": L, "k": k})
                    i += 1
    return out


SPLIT = {"quick": 2, "thorough": 4}


def _accepted_prefixes(cfg, p):
    """Split one configuration into independent sub-trees.

    Walks the *model* to find every sequence of <= p accepted calls (a refused call
    returns to the state it came from, so only accepted calls lead anywhere new).
    Returns (interior, frontier): ``interior`` nodes get a shallow task that
    executes all 8 events there (refusals included) and one more step, ``frontier``
    nodes get the full remaining depth.  A node is not split further when the
    model's decision at it is numerically undecidable or undefined — the explorer
    then covers it with a single deep task."""
    import copy

    from mc.numeric import Decider

    interior, frontier = [], []
    todo = [([], _new_model(cfg))]
    while todo:
        prefix, model = todo.pop()
        if len(prefix) >= p:
            frontier.append(prefix)
            continue
        kids = []
        clean = True
        for ev in ("upd_in", "upd_out", "lab_ok", "lab_bad"):
            m = copy.deepcopy(model)
            D = Decider()
            exp = _event(m, ev)[2](m, D)
            if UNDEFINED in exp or D.near:
                clean = False
                break
            if exp["exc"] is None:
                kids.append((prefix + [ev], m))
        if not clean or not kids:
            frontier.append(prefix)
            continue
        interior.append(prefix)
        todo.extend(kids)
    return interior, frontier


# Long streams (deviation-bounded mode): a periodic default stream that keeps the
# running margin density near the reference (sensitivity 2: no warning), and every
# history that replaces <= K of its calls by any call of LONG_MENU.
LONG_IN = {"R6": {0, 1, 2, 3, 4}, "R7": {3}, "R8": {0, 3, 6}}
LONG_LEN = {"quick": 36, "thorough": 48}
LONG_K = {"quick": 1, "thorough": 2}
LONG_MENU = ["upd_in", "upd_out", "lab_ok", "lab_bad", "upd_2rows", "lab_cols_renamed"]


def _long_default(ref, n):
    period = len(REFS[ref]["rows"])
    return ["upd_in" if (i % period) in LONG_IN[ref] else "upd_out" for i in range(n)]


def tasks(tier, seed):
    out = []
    d = DEPTH[tier]
    for cfg in _cfgs():
        tag = "%s,s%s,L%s,k%d" % (cfg["ref"], cfg["sens"], cfg["L"], cfg["k"])
        if cfg["L"] is not None and cfg["L"] < cfg["k"]:
            interior, frontier = [], [[]]
        else:
            interior, frontier = _accepted_prefixes(cfg, SPLIT[tier])
            if cfg["sens"] == 2 and cfg["L"] in (3, None):
                default = _long_default(cfg["ref"], LONG_LEN[tier])
                base = {
                    "system": "MD3",
                    "cfg": cfg,
                    "mode": "dev",
                    "default": default,
                    "menu": LONG_MENU,
                    "validate_every": 101,
                }
                # one task per configuration: the refused replacements at a position all return
                # to the same state and merge, which a split by first deviation would lose
                out.append(
                    dict(base, k=LONG_K[tier], label="MD3|%d|%s|long" % (cfg["id"], tag), cost=10 ** 6)
                )
        for p in interior:
            out.append(
                {
                    "system": "MD3",
                    "cfg": cfg,
                    "prefix": p,
                    "depth": 2,
                    "label": "MD3|%d|%s|node:%s" % (cfg["id"], tag, "+".join(p) or "root"),
                    "cost": 1,
                    "validate_every": 53,
                }
            )
        for p in frontier:
            out.append(
                {
                    "system": "MD3",
                    "cfg": cfg,
                    "prefix": p,
                    "depth": d - len(p),
                    "label": "MD3|%d|%s|tree:%s" % (cfg["id"], tag, "+".join(p) or "root"),
                    "cost": 2 ** (d - len(p)),
                    "validate_every": 101,
                }
            )
    return out


REQUIRED = [
    "warnings",
    "warning_high_side",
    "warning_low_side",
    "confirmed_drifts",
    "rejected_confirmations",
    "refused_update_waiting",
    "refused_update_2rows_waiting",
    "refused_update_2rows_idle",
    "refused_label_idle",
    "refused_label_columns_waiting",
    "refused_label_columns_idle",
    "refused_label_2rows_waiting",
    "refused_label_2rows_idle",
    "refused_while_drift_reported",
    "warning_after_reference_replacement",
    "histories_with_2_oracle_rounds",
    "epoch_restart_after_drift",
    "new_reference_md_std_positive",
    "exact_ties",
    "streams_of_30_updates_without_warning",
]

TIME_BUDGET = {"quick": 600, "thorough": 3000}


def describe(tier):
    d = DEPTH[tier]
    return {
        "rule": "reachable-state search: every sequence of length %d over the 8-event alphabet (4 legal, 4 illegal "
        "call shapes; all of them enabled in every state, no per-history bound on illegal events in either tier) "
        "is executed on the real MD3 object per configuration, with states merged on the structural hash of the "
        "complete detector plus the model summary; a refused call is checked to leave every attribute unchanged "
        "and therefore merges with its source state. A history is non-trivial when it contains a warning, a "
        "confirmation (drift or no drift), a refusal or an epoch restart. Long streams: per configuration with "
        "sensitivity 2 and oracle length 3 / None, a periodic default stream of %d updates that stays inside the "
        "warning band, and every history replacing <= %d of its calls by any of %d alternative calls "
        "(deviation-bounded mode)" % (d, LONG_LEN[tier], LONG_K[tier], len(LONG_MENU)),
        "bounds": {
            "depth": d,
            "events": EVENTS,
            "reference_batches": {k: len(v["rows"]) for k, v in REFS.items()},
            "sensitivity": SENS,
            "oracle_data_length_required": ORACLE_LEN,
            "k": FOLDS,
            "configurations": len(_cfgs()),
            "illegal_events_per_history": "unbounded (both tiers)",
            "long_stream": {"length": LONG_LEN[tier], "deviations": LONG_K[tier], "menu": LONG_MENU},
        },
        "explanation": "states = distinct canonical (detector, model) states reached; transitions = calls executed "
        "on the real object and compared with the model; executions = maximal paths of the merged graph. "
        "each configuration is split into the sub-trees below its accepted call sequences of length %d "
        "(tree:* tasks, full remaining depth) plus, for every node above them, a depth-2 task executing all 8 events "
        "there (node:* tasks)" % SPLIT[tier],
        "assumptions": [
            "the classifier is a deterministic threshold rule on feature 0 and the margin function is "
            "|x0 - thr| <= m, both computed in exact rationals on both sides; MD3 never refits the user's classifier",
            "fold assignment is sklearn KFold(k, shuffle=True, random_state=42) as documented in the code (trusted)",
            "standard deviation over folds is the population standard deviation (numpy default)",
            "drift_state after an accepted label that does not complete the round is None (pinned by "
            "test_md3::test_give_oracle_label); 2-row frames are refused per the method docstrings",
            "feature values of the i-th labelled sample are a fixed function of (i, oracle round); only the "
            "label (correct / wrong) is enumerated",
            "threshold comparisons within relative 1e-9 are numerically undecidable and follow the implementation; "
            "exact ties are enforced when all operands and the forgetting factor are dyadic",
            "oracle_data_length_required < k has no k-fold summary: accepted only if the configuration is refused "
            "at construction / set_reference",
        ],
    }
