"""C19 — MD3 follows its warn / ask-the-oracle / confirm protocol.

Explored: the real ``menelaus.concept_drift.MD3`` closed with a deterministic
threshold classifier (sklearn ``BaseEstimator`` stub) and a user margin
function, under every interleaving of

    update(in-margin sample)          update(out-of-margin sample)
    update(2-row frame)                                   [illegal]
    give_oracle_label(correct label)  give_oracle_label(wrong label)
    give_oracle_label(renamed target column)              [illegal]
    give_oracle_label(extra column)                       [illegal]
    give_oracle_label(2 rows)                             [illegal]

up to the depth bound, from 3 reference batches x sensitivity {0.5, 2} x
oracle_data_length_required {1, 2, 3, None} x k {2, 3}.  Every event is enabled
in every state, so ``update`` while waiting and ``give_oracle_label`` while not
waiting (the protocol refusals) occur everywhere.

Oracle: lock-step agreement with models/md3.py (protocol + margin-density
recurrence + k-fold statistics, exact rationals) on drift_state,
waiting_for_oracle, len(oracle_data), curr_margin_density,
reference_distribution, total_updates, updates_since_reset and the exception
type after every call; for refused calls additionally a frame check: the
structural hash of every attribute of the detector is identical before and
after the call.

States are merged on (structural hash of the whole detector, model summary), so
a refused call — which provably returns to the same state — costs one
transition and no subtree.

Long streams (deviation-bounded mode): a periodic stream of 36 / 48 updates
that stays inside the warning band, with every replacement of <= 1 / 2 calls.

Families added in round 3b (further configurations, same oracle; labels
``MD3|<id>|fam-<family>|...``):

  cols      9 column-label schemes: target column first / in the middle / last,
            string labels, integer labels 0..2 (dict-built and ndarray-built
            frames, the latter all-float), the empty string as target label
  perm      give_oracle_label samples listing their columns in each of the 6
            orders (legal: columns are identified by label), first and later
            samples of a round, on 4 schemes
  idx       reference batch / one-row sample frames that are slices of a
            longer frame (row labels 50.., 1000..) instead of fresh frames
  sens0     sensitivity 0
  zref      reference batches whose k folds all have the SAME non-dyadic margin
            density and / or accuracy (1/3, 2/3, 1/5, 4/5): spread exactly 0
  flat0     the same, generated systematically for a classifier whose fit()
            learns nothing: a in-margin and c correct rows in every fold
  flatL     ... with oracle length = reference length, scripted two-round
            histories (deviation-bounded) whose adopted references are
            zero-spread again
  defaults  MD3(clf, margin_calculation_function=f): default sensitivity,
            k = 10, oracle length = len(reference) on a 30-row batch

Stronger oracle (round 3b): after every accepted call ``oracle_data``, read by
column LABEL, must hold exactly the labelled samples handed over so far in this
round (values as floats; dtypes and the buffer's own column order are free).

Families added in round 4 (the caller re-uses its containers; labels
``MD3|<id>|fam-reuse|...``, ``MD3|<id>|fam-reuse-array|...`` and
``MD3|<id>|fam-reuse-columns|...``):

  reuse        the harness keeps ONE DataFrame per call shape (update sample,
               labelled sample in each column order, each illegal shape) and ONE
               reference frame; before a call it overwrites the cells of that
               frame in place with the call's values, passes the same object
               again, and after the call overwrites every cell with a sentinel
               (-99.5 / -99) — the caller recycling its row buffer.  The
               reference frame is overwritten the same way right after
               set_reference.  8 configurations over 7 column schemes, both
               alphabets, row labels 0 and running.  The buffers are part of
               the explored state, so a snapshot copies detector and buffers
               together (identity aliasing survives the copy).
  reuse-array  the same with ONE float ndarray per call shape and a new
               zero-copy frame around it for every call
               (``DataFrame(buffer, copy=False)``): what MD3 keeps may be a live
               numpy view of the caller's array even where pandas'
               copy-on-write protects frame-to-frame sharing.  A deepcopy
               snapshot cuts such a view, therefore everything MD3 has stored
               (oracle_data, the reference frames) is read in the SAME step,
               after the sentinel overwrite; from-scratch re-execution every
               5th maximal path.

  reuse-columns  (second pass) ONE 1-D ndarray per COLUMN and call shape (float64 for
               the features, int64 for the target — the dtypes of the dict-built
               schemes) and a new zero-copy frame ``DataFrame({label: array}, copy=
               False)`` around them for every call: a mixed-dtype, multi-block
               frame every column of which is a live view of caller memory (the
               all-float reuse-array frames are one 2-D block).  4 configurations
               (string / integer / empty-string labels, target first / middle /
               last, both alphabets, row labels 0 and running); read-back in the
               same step and from-scratch re-execution as for reuse-array.

  Counters (all in REQUIRED) prove that, per container kind, a labelled sample went
  through the reused container in each of the four cells {first, later sample of a
  round} x {columns in the reference's order, in another order}, and in a second
  round of the same history.

Stronger oracle (round 4): "adopts them as the new reference" — when a round
completes, ``reference_batch_features`` / ``reference_batch_target``, read by
column LABEL, must hold exactly the labelled samples of that round; in the reuse
families this (and, from the first call on, the same for the initial reference
batch) is checked after every accepted call.

oracle_data_length_required < k: the labelled samples cannot be summarised over
k folds, so the property cannot be met once L labels have arrived; the check
accepts only an up-front refusal of the configuration (ValueError from the
constructor or set_reference) and otherwise reports
sig=C19-MD3-oracle-length-below-k at the L-th label (genuine defect on the
pinned tree, see /verif/fixes/C19-oracle-length-below-k.*).
"""
import itertools
from fractions import Fraction

import numpy as np
import pandas as pd
from sklearn.base import BaseEstimator, ClassifierMixin
from sklearn.model_selection import KFold

from menelaus.concept_drift import MD3

from mc import rng
from mc.canon import canon
from mc.explorer import System, Violation
from mc.numeric import diff_keys, lockstep
from models.md3 import MD3Model, UNDEFINED, in_margin, learn_threshold, predict_one

PROPERTY = "C19"

FEATURES = ["x", "z"]
TARGET = "y"


# --------------------------------------------------------------------------
# environment handed to MD3: stub classifier + user margin function
# --------------------------------------------------------------------------
class ThresholdClassifier(ClassifierMixin, BaseEstimator):
    """fit learns a threshold on feature 0 (models.md3.learn_threshold, exact
    rationals — binary64 inputs are rationals), predict compares with it."""

    def __init__(self, margin=0.5):
        self.margin = margin

    def fit(self, X, y):
        X = np.asarray(X, dtype=float)
        y = np.asarray(y).ravel()
        self.thr_ = learn_threshold(
            [Fraction(v) for v in X[:, 0].tolist()], [int(v) for v in y.tolist()]
        )
        self.classes_ = np.array([0, 1])
        return self

    def predict(self, X):
        X = np.asarray(X, dtype=float)
        return np.array(
            [predict_one(Fraction(v), self.thr_) for v in X[:, 0].tolist()], dtype=int
        )


class FixedClassifier(ClassifierMixin, BaseEstimator):
    """A rule that learns nothing: fit is a no-op, predict compares feature 0
    with the constructor's threshold (kept by sklearn.clone).  With it the margin
    signal and the correctness of a row do not depend on the fold it is tested
    in, so reference batches with prescribed per-fold statistics can be written
    down directly (families flat0 / flatL / defaults)."""

    def __init__(self, thr=3.0, margin=0.5):
        self.thr = thr
        self.margin = margin

    def fit(self, X, y):
        self.thr_ = Fraction(self.thr)
        self.classes_ = np.array([0, 1])
        return self

    def predict(self, X):
        X = np.asarray(X, dtype=float)
        return np.array(
            [predict_one(Fraction(v), self.thr_) for v in X[:, 0].tolist()], dtype=int
        )


def margin_function(detector, sample, clf):
    """User margin function: 1 iff |x0 - thr| <= m."""
    return in_margin(Fraction(float(sample[0])), clf.thr_, Fraction(clf.margin))


# the user's classifier is trained once on this set (threshold exactly 3) and is
# never refitted by MD3
TRAIN_X = [1.0, 2.0, 4.0, 5.0]
TRAIN_Y = [0, 0, 1, 1]
USER_THR = Fraction(3)

# reference batches (x0, label); chosen (offline search, verified in init) so that
# md_std > 0 and acc_std > 0 for k = 2 and k = 3 and so that warnings are reached
# from both sides within a few updates for both sensitivities.
REFS = {
    # high margin density: out-of-margin samples push MD below the reference
    "R6": {
        "margin": 1.0,
        "rows": [(4.5, 1), (2.75, 0), (3.25, 1), (3.75, 0), (3.5, 1), (5.25, 1)],
    },
    # low margin density
    "R7": {
        "margin": 0.5,
        "rows": [(0.5, 0), (0.75, 0), (1.25, 0), (3.5, 0), (3.75, 1), (4.0, 1), (5.75, 1)],
    },
    # N = 8, k = 2: every statistic and the forgetting factor are dyadic (exact ties enforced)
    "R8": {
        "margin": 0.5,
        "rows": [(0.0, 0), (0.75, 0), (2.25, 0), (3.0, 1), (3.5, 0), (3.75, 1), (5.25, 1), (5.5, 1)],
    },
}

# Zero-spread reference batches for the *learning* classifier (offline search, verified in
# _new_model): for the stated k every fold has the same, non-dyadic margin density and / or
# accuracy, so the standard deviation over folds is exactly 0 ("flat").  With a spread of 0
# every deviation of the running margin density must warn and every accuracy drop must be a
# drift; a one-pass sum / sum-of-squares spread is NaN or ~1e-9 here.
ZREFS = {
    "Z6": {  # md 1/3 (flat), acc 2/3 (flat)
        "margin": 0.5, "k": 2, "flat": ("md", "acc"),
        "rows": [(1.25, 0), (0.75, 0), (2.75, 0), (3.75, 1), (1.75, 0), (3.0, 1)],
    },
    "Z6m": {  # md 1/3 (flat), acc 5/6 +- 1/6
        "margin": 0.5, "k": 2, "flat": ("md",),
        "rows": [(3.0, 1), (2.25, 0), (0.0, 0), (2.75, 1), (3.25, 1), (1.25, 0)],
    },
    "Z6a": {  # md 1/2 +- 1/6, acc 2/3 (flat)
        "margin": 0.5, "k": 2, "flat": ("acc",),
        "rows": [(2.5, 1), (5.0, 1), (4.5, 1), (3.0, 0), (3.25, 1), (3.25, 0)],
    },
    "Z9": {  # md 1/3 (flat), acc 2/3 (flat), three folds
        "margin": 0.5, "k": 3, "flat": ("md", "acc"),
        "rows": [(2.5, 0), (1.5, 0), (0.25, 0), (0.25, 1), (2.0, 0), (4.0, 1), (2.5, 0), (6.0, 1), (2.0, 1)],
    },
    "Z10": {  # md 1/5 (flat), acc 4/5 (flat), folds of five
        "margin": 0.5, "k": 2, "flat": ("md", "acc"),
        "rows": [(4.25, 1), (2.0, 0), (5.25, 1), (0.75, 0), (5.75, 1), (2.25, 0), (3.25, 0), (1.0, 1),
                 (2.75, 0), (2.0, 0)],
    },
    "Z15": {  # md 1/5 (flat), acc 4/5 (flat), three folds of five
        "margin": 1.0, "k": 3, "flat": ("md", "acc"),
        "rows": [(5.5, 0), (2.0, 0), (5.0, 1), (3.0, 0), (5.25, 1), (3.0, 0), (5.25, 1), (5.25, 0), (1.0, 0),
                 (0.5, 0), (5.25, 1), (0.75, 0), (2.0, 0), (1.25, 0), (3.25, 1)],
    },
}
REFS.update(ZREFS)

X_IN = 3.25  # inside the margin of the user's classifier for m = 0.5 and m = 1
X_OUT = 6.0  # outside
# feature 0 of the i-th labelled sample of oracle round r: LAB_X[(i + 3 r) mod 8]
LAB_X = [3.25, 1.0, 5.0, 2.75, 4.0, 2.0, 3.5, 0.5]

SENS = [0.5, 2]
ORACLE_LEN = [1, 2, 3, None]
FOLDS = [2, 3]

EVENTS = [
    "upd_in",
    "upd_out",
    "upd_2rows",
    "lab_ok",
    "lab_bad",
    "lab_cols_renamed",
    "lab_cols_extra",
    "lab_2rows",
]
EVKIND = {
    "upd_in": "update",
    "upd_out": "update",
    "upd_2rows": "update_2rows",
    "lab_ok": "label",
    "lab_bad": "label",
    "lab_cols_renamed": "label_columns",
    "lab_cols_extra": "label_columns",
    "lab_2rows": "label_2rows",
}

# ---------------------------------------------------------------------------
# column-label schemes (family "cols"): the three roles x (feature 0), z (feature 1),
# y (target) under different labels and frame orders.  The base scheme is the one all
# other families use.  "new" / "extra" label the renamed target / the surplus column of the
# illegal label events; "np": the frames are built from one float ndarray (integer labels
# are what pandas gives such a frame), otherwise from a dict (x, z float64, y int64).
# ---------------------------------------------------------------------------
_STR = {"x": "x", "z": "z", "y": "y"}
SCHEMES = {
    "xzy": {"order": ["x", "z", "y"], "lab": _STR, "new": "target", "extra": "w", "np": False},
    "yxz": {"order": ["y", "x", "z"], "lab": _STR, "new": "target", "extra": "w", "np": False},
    "xyz": {"order": ["x", "y", "z"], "lab": _STR, "new": "target", "extra": "w", "np": False},
    "int-t0": {"order": ["y", "x", "z"], "lab": {"y": 0, "x": 1, "z": 2}, "new": 7, "extra": 9, "np": False},
    "int-t1": {"order": ["x", "y", "z"], "lab": {"x": 0, "y": 1, "z": 2}, "new": 7, "extra": 9, "np": False},
    "int-t2": {"order": ["x", "z", "y"], "lab": {"x": 0, "z": 1, "y": 2}, "new": 7, "extra": 9, "np": False},
    "np-t0": {"order": ["y", "x", "z"], "lab": {"y": 0, "x": 1, "z": 2}, "new": 7, "extra": 9, "np": True},
    "np-t2": {"order": ["x", "z", "y"], "lab": {"x": 0, "z": 1, "y": 2}, "new": 7, "extra": 9, "np": True},
    "empty-last": {"order": ["x", "z", "y"], "lab": {"x": "x", "z": "z", "y": ""}, "new": "target", "extra": "w",
                   "np": False},
    "empty-first": {"order": ["y", "x", "z"], "lab": {"x": "x", "z": "z", "y": ""}, "new": "target", "extra": "w",
                    "np": False},
}
# schemes used by the reuse families only (not part of family "cols")
SCHEMES_EXTRA = {
    # string labels on an all-float, ndarray-built frame
    "np-xzy": {"order": ["x", "z", "y"], "lab": _STR, "new": "target", "extra": "w", "np": True},
}
BASE_SCHEME = "xzy"
PERMS = list(itertools.permutations(range(3)))  # PERMS[0] is the identity


def _scheme(cfg):
    name = cfg.get("cols", BASE_SCHEME)
    return SCHEMES[name] if name in SCHEMES else SCHEMES_EXTRA[name]


def _label_of(sch, role):
    if role == "t":
        return sch["new"]
    if role == "w":
        return sch["extra"]
    return sch["lab"][role]


def _columns(cfg):
    """labels of the reference's feature columns (frame order) + target label"""
    sch = _scheme(cfg)
    return [sch["lab"][r] for r in sch["order"] if r != "y"] + [sch["lab"]["y"]]


def _frame(cfg, data, order):
    """DataFrame with the columns ``order`` (roles), labelled per the configuration's scheme."""
    sch = _scheme(cfg)
    labels = [_label_of(sch, r) for r in order]
    if sch["np"]:
        arr = np.column_stack([np.asarray(data[r], dtype=float) for r in order])
        if labels == list(range(len(labels))):
            return pd.DataFrame(arr)  # RangeIndex columns, as from a bare ndarray
        return pd.DataFrame(arr, columns=labels)
    return pd.DataFrame({lab: data[r] for r, lab in zip(order, labels)}, columns=labels)


def _ref_spec(cfg):
    """-> (rows, margin) of the configuration's reference batch"""
    if "rows" in cfg:
        return [tuple(r) for r in cfg["rows"]], cfg["margin"]
    ref = REFS[cfg["ref"]]
    return ref["rows"], ref["margin"]


def _ref_frame(cfg):
    rows, _ = _ref_spec(cfg)
    data = {
        "x": [float(x) for x, _ in rows],
        "z": [float(i % 2) for i in range(len(rows))],
        "y": [int(y) for _, y in rows],
    }
    df = _frame(cfg, data, _scheme(cfg)["order"])
    if cfg.get("index") == "stream":
        # the batch is a slice of a longer frame: row labels 50, 51, ...
        df.index = range(50, 50 + len(df))
    return df


def _ref_rows(cfg):
    """the reference batch as rows by role (what _ref_frame puts into the frame)"""
    rows, _ = _ref_spec(cfg)
    return [{"x": float(x), "z": float(i % 2), "y": int(y)} for i, (x, y) in enumerate(rows)]


# ---------------------------------------------------------------------------
# families "reuse" / "reuse-array": the caller's containers.  cfg["reuse"] = "frame": one DataFrame object per call
# shape, refilled cell by cell; "array": one float ndarray per call shape with a new zero-copy frame around it per call.
# ---------------------------------------------------------------------------
SENTINEL_F = -99.5
SENTINEL_I = -99


def _buf_key(meth, df):
    return (meth, tuple(repr(c) for c in df.columns), len(df))


def _scribble(buf):
    """the caller recycles its container: every cell is overwritten in place"""
    if isinstance(buf, np.ndarray):
        buf[...] = SENTINEL_F
        return
    if isinstance(buf, list):  # one 1-D ndarray per column
        for a in buf:
            a[...] = SENTINEL_F if a.dtype.kind == "f" else SENTINEL_I
        return
    for j, dt in enumerate(buf.dtypes):
        v = SENTINEL_F if dt.kind == "f" else SENTINEL_I
        for i in range(len(buf)):
            buf.iat[i, j] = v


def _through_buffer(cfg, bufs, meth, df):
    """-> the frame handed to MD3 for this call: the values, labels and dtypes of ``df``, in the caller's ONE container
    for calls of this shape (created at first use, otherwise overwritten in place)."""
    key = _buf_key(meth, df)
    if cfg["reuse"] == "array":
        assert all(dt.kind == "f" for dt in df.dtypes), "array-backed frames are all-float (np schemes)"
        arr = bufs.get(key)
        if arr is None:
            arr = bufs[key] = np.empty(df.shape, dtype=float)
        arr[...] = df.to_numpy()
        out = pd.DataFrame(arr, columns=df.columns, index=df.index, copy=False)
        # the family is what it says only if the frame is a live view of the caller's array
        assert np.shares_memory(out.to_numpy(), arr), "DataFrame(ndarray, copy=False) copied the buffer"
        return out
    if cfg["reuse"] == "columns":
        # one 1-D ndarray per column (float64 features, int64 target: the dtypes of ``df``) and a new zero-copy frame
        # around them per call: a mixed-dtype frame every column of which is a live view of caller memory
        arrs = bufs.get(key)
        if arrs is None:
            arrs = bufs[key] = [np.empty(len(df), dtype=dt) for dt in df.dtypes]
        for j, a in enumerate(arrs):
            a[...] = df.iloc[:, j].to_numpy()
        out = pd.DataFrame(dict(zip(df.columns, arrs)), columns=list(df.columns), index=df.index, copy=False)
        assert list(out.dtypes) == list(df.dtypes) and list(out.columns) == list(df.columns)
        assert all(np.shares_memory(out.iloc[:, j].to_numpy(), a) for j, a in enumerate(arrs)), \
            "DataFrame(dict of ndarrays, copy=False) copied a column buffer"
        return out
    buf = bufs.get(key)
    if buf is None:
        buf = bufs[key] = df.copy()
        return buf
    assert list(buf.dtypes) == list(df.dtypes) and list(buf.columns) == list(df.columns)
    for j in range(df.shape[1]):
        for i in range(len(df)):
            buf.iat[i, j] = df.iat[i, j]
    if not buf.index.equals(df.index):
        buf.index = df.index
    return buf


def _frame_hash(det):
    return {k: canon(v) for k, v in vars(det).items()}


def _fl(v):
    try:
        return float(v)
    except Exception:
        return repr(v)


def _observe(det, exc):
    rd = getattr(det, "reference_distribution", None)
    od = getattr(det, "oracle_data", None)
    return {
        "exc": exc,
        "state": det.drift_state,
        "waiting": det.waiting_for_oracle,
        "n_oracle": 0 if od is None else int(len(od)),
        "md": _fl(getattr(det, "curr_margin_density", None)),
        "ref": None
        if rd is None
        else {
            "len": int(rd["len"]),
            "md": _fl(rd["md"]),
            "md_std": _fl(rd["md_std"]),
            "acc": _fl(rd["acc"]),
            "acc_std": _fl(rd["acc_std"]),
        },
        "total": int(det.total_updates),
        "since": int(det.updates_since_reset),
    }


def _labelled(cfg, model, ok):
    i = len(model.labels)
    if "lab_x" in cfg:
        # scripted families: feature 0 is a function of the position inside the round only
        x = cfg["lab_x"][i % len(cfg["lab_x"])]
    else:
        x = LAB_X[(i + 3 * model.rounds) % len(LAB_X)]
    pred = predict_one(x, USER_THR)
    return x, (pred if ok else 1 - pred)


def _split_event(ev):
    base, _, p = ev.partition(":")
    return base, (int(p) if p else 0)


def _event(cfg, model, ev):
    """-> (method name, frame passed, model call, row by role or None)

    Family "idx": the frames are one-row slices of a longer stream, so their row label is not 0 but
    the sample's running number (a function of the model state, so that equal states still merge)."""
    meth, frame, mcall, row = _event0(cfg, model, ev)
    if cfg.get("index") == "stream":
        first = 1000 + 10 * model.total + len(model.labels)
        frame.index = range(first, first + len(frame))
    return meth, frame, mcall, row


def _event0(cfg, model, ev):
    """-> (method name, frame passed, model call, row by role or None)

    ``lab_ok:p`` / ``lab_bad:p`` list the sample's columns in the p-th permutation of the
    reference frame's column order (p = 0 and the bare name: the reference's order)."""
    base, p = _split_event(ev)
    sch = _scheme(cfg)
    forder = [r for r in sch["order"] if r != "y"]
    cols = _columns(cfg)
    if base == "upd_in":
        return "update", _frame(cfg, {"x": [X_IN], "z": [1.0]}, forder), lambda mm, D: mm.update(1, X_IN, D), None
    if base == "upd_out":
        return "update", _frame(cfg, {"x": [X_OUT], "z": [0.0]}, forder), lambda mm, D: mm.update(1, X_OUT, D), None
    if base == "upd_2rows":
        data = {"x": [X_IN, X_OUT], "z": [1.0, 0.0]}
        return "update", _frame(cfg, data, forder), lambda mm, D: mm.update(2, X_IN, D), None
    if base in ("lab_ok", "lab_bad"):
        x, y = _labelled(cfg, model, base == "lab_ok")
        z = float(len(model.labels) % 2)
        order = [sch["order"][j] for j in PERMS[p]]
        frame = _frame(cfg, {"x": [x], "z": [z], "y": [y]}, order)
        return "give_oracle_label", frame, lambda mm, D: mm.label(1, cols, x, y, D), {"x": x, "z": z, "y": y}
    x, y = _labelled(cfg, model, True)
    if base == "lab_cols_renamed":
        order = ["t" if r == "y" else r for r in sch["order"]]
        frame = _frame(cfg, {"x": [x], "z": [0.0], "t": [y]}, order)
        renamed = [sch["new"] if c == sch["lab"]["y"] else c for c in cols]
        return "give_oracle_label", frame, lambda mm, D: mm.label(1, renamed, x, y, D), None
    if base == "lab_cols_extra":
        frame = _frame(cfg, {"x": [x], "z": [0.0], "y": [y], "w": [1.0]}, sch["order"] + ["w"])
        return "give_oracle_label", frame, lambda mm, D: mm.label(1, cols + [sch["extra"]], x, y, D), None
    if base == "lab_2rows":
        frame = _frame(cfg, {"x": [x, x], "z": [0.0, 1.0], "y": [y, y]}, sch["order"])
        return "give_oracle_label", frame, lambda mm, D: mm.label(2, cols, x, y, D), None
    raise KeyError(ev)


def _nondyadic(q):
    return isinstance(q, Fraction) and (q.denominator & (q.denominator - 1)) != 0


def _new_model(cfg):
    rows, margin = _ref_spec(cfg)
    model = MD3Model(
        rows, _columns(cfg), cfg["sens"], cfg["k"], cfg["L"], USER_THR, margin,
        refit=cfg.get("clf", "learn") == "learn",
    )
    st = model.stats
    ref = cfg.get("ref")
    if ref in ZREFS:
        assert cfg["k"] == ZREFS[ref]["k"], cfg
        for key in ZREFS[ref]["flat"]:
            assert st[key + "_std"] == 0 and _nondyadic(st[key]), (cfg, key)
    elif ref is not None:
        assert st["md_std"] != 0 and st["acc_std"] != 0, cfg
    if "expect" in cfg:
        # generated reference batches: the statistics they were built to have
        for key, val in cfg["expect"].items():
            assert st[key] == Fraction(*val), (cfg, key, st[key])
    return model


class MD3System(System):
    name = "MD3"

    # -- construction ---------------------------------------------------------
    def init(self, cfg):
        rows, margin = _ref_spec(cfg)
        k, L, sens = cfg["k"], cfg["L"], cfg["sens"]
        if cfg.get("clf", "learn") == "learn":
            clf = ThresholdClassifier(margin=margin).fit(
                np.array([[x, 0.0] for x in TRAIN_X]), np.array(TRAIN_Y)
            )
        else:
            clf = FixedClassifier(thr=float(USER_THR), margin=margin).fit(None, None)
        assert clf.thr_ == USER_THR
        assert in_margin(X_IN, USER_THR, margin) == 1
        assert in_margin(X_OUT, USER_THR, margin) == 0
        model = _new_model(cfg)
        undefined = L is not None and L < k
        try:
            if cfg.get("defaults"):
                # family "defaults": sensitivity, k and oracle_data_length_required are NOT passed
                assert (sens, k, L) == (2, 10, None), cfg
                det = MD3(clf, margin_calculation_function=margin_function)
            else:
                det = MD3(
                    clf,
                    margin_calculation_function=margin_function,
                    sensitivity=sens,
                    k=k,
                    oracle_data_length_required=L,
                )
            bufs = {}
            if cfg.get("reuse"):
                # the caller's reference frame lives on in the caller's hands and is recycled right after the call
                ref = _through_buffer(cfg, bufs, "set_reference", _ref_frame(cfg))
                det.set_reference(ref, target_name=_scheme(cfg)["lab"]["y"])
                bufs["reference frame object"] = ref
                _scribble(bufs[_buf_key("set_reference", ref)])
            else:
                det.set_reference(_ref_frame(cfg), target_name=_scheme(cfg)["lab"]["y"])
        except ValueError as e:
            if undefined:
                # k-fold statistics of L < k labelled samples do not exist: refusing the
                # configuration up front is the only way to honour the protocol
                return {"config_refused": str(e)[:200]}
            return {"init_error": "%s: %s" % (type(e).__name__, str(e)[:200])}
        except Exception as e:  # noqa: BLE001 - becomes a Violation at the first step
            return {"init_error": "%s: %s" % (type(e).__name__, str(e)[:200])}
        state = {"det": det, "model": model, "fh": _frame_hash(det), "rows": [], "refrows": _ref_rows(cfg)}
        if cfg.get("reuse"):
            # one container per call shape of the alphabet, all holding the sentinel between calls
            for ev in ALPHABETS[cfg.get("alphabet", "base")]:
                meth, df, _, _ = _event(cfg, model, ev)
                _through_buffer(cfg, bufs, meth, df)
            for key, buf in bufs.items():
                if key != "reference frame object":
                    _scribble(buf)
            state["bufs"] = bufs
        return state

    def alphabet(self, cfg, state, pos):
        if "config_refused" in state:
            return ["noop"]
        if "init_error" in state:
            return ["upd_in"]
        return ALPHABETS[cfg.get("alphabet", "base")]

    def key(self, cfg, state, pos):
        if "det" not in state:
            return None
        # state["fh"] is the per-attribute structural hash of the complete detector,
        # recomputed after every call
        return (tuple(sorted(state["fh"].items())), state["model"].canon())

    # -- collected labelled samples ---------------------------------------------
    @staticmethod
    def _check_oracle_data(cfg, det, rows, ev, ctx):
        """The labelled samples collected so far (``oracle_data``), read by column NAME, are the
        samples handed over, in order — whatever column order each sample listed them in."""
        od = getattr(det, "oracle_data", None)
        if not rows:
            if od is not None and len(od):
                raise Violation(
                    "MD3-oracle-data",
                    "no labelled sample is pending after %s but oracle_data holds %d row(s)" % (ev, len(od)),
                    expected=[],
                    observed=int(len(od)),
                )
            return
        if not isinstance(od, pd.DataFrame):
            ctx.count("oracle_data_not_a_frame")
            return
        sch = _scheme(cfg)
        try:
            got = [
                {r: float(od[sch["lab"][r]].iloc[i]) for r in ("x", "z", "y")} for i in range(len(od))
            ]
        except Exception as e:  # noqa: BLE001
            got = "%s: %s" % (type(e).__name__, str(e)[:120])
        want = [{r: float(v) for r, v in row.items()} for row in rows]
        if got != want:
            raise Violation(
                "MD3-oracle-data",
                "after %s the collected labelled samples, read by column name, are not the samples handed to "
                "give_oracle_label" % ev,
                expected=want,
                observed=got,
            )
        ctx.count("oracle_data_checked_by_name")

    # -- adopted reference --------------------------------------------------------
    @staticmethod
    def _check_reference_rows(cfg, det, refrows, ev, ctx):
        """"adopts them as the new reference": the reference batch MD3 holds (``reference_batch_features`` /
        ``reference_batch_target``), read by column NAME, is the batch handed to set_reference or, after a completed
        round, the labelled samples of that round, in order."""
        feats = getattr(det, "reference_batch_features", None)
        targ = getattr(det, "reference_batch_target", None)
        if not isinstance(feats, pd.DataFrame) or not isinstance(targ, pd.DataFrame):
            ctx.count("reference_batch_not_frames")
            return
        sch = _scheme(cfg)
        try:
            got = {
                "x": [float(v) for v in feats[sch["lab"]["x"]].tolist()],
                "z": [float(v) for v in feats[sch["lab"]["z"]].tolist()],
                "y": [float(v) for v in targ[sch["lab"]["y"]].tolist()],
            }
        except Exception as e:  # noqa: BLE001
            got = "%s: %s" % (type(e).__name__, str(e)[:120])
        want = {r: [float(row[r]) for row in refrows] for r in ("x", "z", "y")}
        if got != want:
            raise Violation(
                "MD3-reference-rows",
                "after %s the reference batch held by MD3, read by column name, is not the batch it was given / the "
                "labelled samples it adopted" % ev,
                expected=want,
                observed=got,
            )
        ctx.count("reference_rows_checked_by_name")

    # -- one event ---------------------------------------------------------------
    def step(self, cfg, state, ev, pos, ctx):
        if "init_error" in state:
            raise Violation(
                "MD3-construction",
                "MD3(...) / set_reference raised on a valid configuration %r: %s"
                % ({k: cfg.get(k) for k in ("ref", "cols", "sens", "k", "L")}, state["init_error"]),
                expected="detector constructed",
                observed=state["init_error"],
            )
        if "config_refused" in state:
            ctx.count("config_refused_up_front")
            ctx.terminal = True
            return {"config_refused": state["config_refused"]}
        det = state["det"]
        base, perm = _split_event(ev)
        meth, df, mcall, row = _event(cfg, state["model"], ev)
        was_waiting = state["model"].waiting
        was_drift = state["model"].state == "drift"
        old = state["model"].stats
        n_before = len(state["model"].labels)
        before = state["fh"]
        reuse = cfg.get("reuse")
        if reuse:
            df = _through_buffer(cfg, state["bufs"], meth, df)
        rng.seed_step(ctx.seed, cfg["id"], pos)
        exc = None
        try:
            getattr(det, meth)(df)
        except ValueError:
            exc = "ValueError"
        except Exception as e:  # noqa: BLE001
            exc = "%s: %s" % (type(e).__name__, str(e)[:120])
        if reuse:
            # the caller recycles the container before anything is read back from the detector
            _scribble(state["bufs"][_buf_key(meth, df)])
            ctx.count("calls_through_reused_%s" % reuse)
        obs = _observe(det, exc)
        after = state["fh"] = _frame_hash(det)

        model, exp, ok = lockstep(
            state["model"],
            mcall,
            lambda e: UNDEFINED in e or not diff_keys(e, obs),
            stats=ctx.stats,
        )
        state["model"] = model
        if UNDEFINED in exp:
            raise Violation(
                "MD3-oracle-length-below-folds",
                "oracle_data_length_required=%d < k=%d was accepted at construction, but after exactly %d "
                "labelled sample(s) the k-fold summary of the new reference does not exist: the detector cannot "
                "adopt them, stop waiting and restart (observed: exc=%r, waiting=%r, len(oracle_data)=%r, "
                "drift_state=%r, reference len=%r)"
                % (exp["L"], exp["k"], exp["L"], obs["exc"], obs["waiting"], obs["n_oracle"], obs["state"],
                   obs["ref"] and obs["ref"]["len"]),
                expected="configuration refused up front, or a completed confirmation",
                observed=obs,
                sig="C19-MD3-oracle-length-below-k",
            )
        if not ok:
            bad = diff_keys(exp, obs)
            raise Violation(
                "MD3-protocol",
                "MD3 disagrees with the protocol model on %s after %s (%s, step %d)"
                % (bad, ev, "waiting" if was_waiting else "not waiting", pos + 1),
                expected=exp,
                observed=obs,
            )
        last = model.last
        fam = cfg.get("family", "base")
        ctx.count("family:" + fam)
        if "cols" in cfg:
            ctx.count("cols:" + cfg["cols"])
        if exp["exc"] is not None:
            # refused: nothing may change
            changed = sorted(k for k in set(before) | set(after) if before.get(k) != after.get(k))
            if changed:
                raise Violation(
                    "MD3-refusal-frame",
                    "refused %s (%s) changed detector attributes %s"
                    % (ev, "waiting" if was_waiting else "not waiting", changed),
                    expected="no attribute changes",
                    observed=changed,
                )
            ctx.mark("refused_%s_%s" % (EVKIND[base], "waiting" if was_waiting else "idle"))
            if was_drift:
                ctx.count("refused_while_drift_reported")
            return obs

        kind = last[0]
        rows = state["rows"]
        if kind == "label":
            rows.append(row)
        elif kind in ("confirmed", "rejected"):
            state["refrows"] = rows + [row]
            del rows[:]
        self._check_oracle_data(cfg, det, rows, ev, ctx)
        if reuse or kind in ("confirmed", "rejected"):
            self._check_reference_rows(cfg, det, state["refrows"], ev, ctx)
            if kind in ("confirmed", "rejected"):
                ctx.count("adopted_reference_rows_checked")
        if reuse and kind in ("label", "confirmed", "rejected"):
            ctx.count("reused_%s_label_%s" % (reuse, "first_of_round" if n_before == 0 else "later_in_round"))
            in_order = tuple(df.columns) == tuple(_columns(cfg))
            if in_order:
                ctx.count("reused_%s_label_in_reference_column_order" % reuse)
            else:
                ctx.count("reused_%s_label_in_another_column_order" % reuse)
            # the four cells position in the round x column order (a change may need one particular cell)
            ctx.count("reused_%s_label_%s_%s" % (reuse, "first" if n_before == 0 else "later",
                                                 "reference_order" if in_order else "other_order"))
            if model.rounds >= 1 and kind == "label":
                ctx.count("reused_%s_label_in_second_round" % reuse)
            if reuse == "columns" and any(dt.kind == "i" for dt in df.dtypes):
                ctx.count("reused_columns_label_with_int64_target_view")

        if kind in ("label", "confirmed", "rejected") and perm != 0:
            ctx.mark("label_columns_permuted_first_of_round" if n_before == 0
                     else "label_columns_permuted_later_in_round")
        if kind == "warning":
            ctx.mark("warnings")
            ctx.count("warning_%s_side" % last[1])
            if last[2] >= 1:
                ctx.mark("warning_after_reference_replacement")
            if old["md_std"] == 0:
                ctx.count("warning_on_zero_md_spread")
                if _nondyadic(old["md"]):
                    ctx.count("warning_on_zero_md_spread_nondyadic")
        elif kind in ("confirmed", "rejected"):
            ctx.mark("confirmed_drifts" if kind == "confirmed" else "rejected_confirmations")
            if last[1]:
                ctx.count("new_reference_md_std_positive")
            else:
                ctx.count("new_reference_md_std_zero")
            if last[2] >= 2:
                ctx.mark("histories_with_2_oracle_rounds")
            if last[2] >= 3:
                ctx.count("histories_with_3_oracle_rounds")
            if old["acc_std"] == 0 and _nondyadic(old["acc"]):
                ctx.count("drift_on_zero_acc_spread_nondyadic" if kind == "confirmed"
                          else "no_drift_on_zero_acc_spread_nondyadic")
            new = model.stats
            if new["md_std"] == 0 and _nondyadic(new["md"]):
                ctx.count("adopted_zero_md_spread_nondyadic")
            if new["acc_std"] == 0 and _nondyadic(new["acc"]):
                ctx.count("adopted_zero_acc_spread_nondyadic")
            if cfg.get("defaults"):
                ctx.count("confirmation_with_default_parameters")
        elif kind == "label":
            ctx.count("labels_collected_before_last")
        elif kind == "update":
            ctx.count("quiet_updates")
            if model.since == 30:
                ctx.count("streams_of_30_updates_without_warning")
        if meth == "update" and was_drift:
            ctx.mark("epoch_restart_after_drift")
        return obs


SYSTEMS = {"MD3": MD3System()}

DEPTH = {"quick": 8, "thorough": 11}

# label events with every column order (family "perm"); the refused call shapes stay enabled
PERM_EVENTS = (
    ["upd_in", "upd_out"]
    + ["lab_ok:%d" % p for p in range(len(PERMS))]
    + ["lab_bad:%d" % p for p in range(len(PERMS))]
    + ["upd_2rows", "lab_cols_renamed", "lab_2rows"]
)
ALPHABETS = {"base": EVENTS, "perm": PERM_EVENTS}


def _cfgs():
    out = []
    i = 0
    for r in ("R6", "R7", "R8"):
        for s in SENS:
            for L in ORACLE_LEN:
                for k in FOLDS:
                    out.append({"id": i, "ref": r, "sens": s, "L": L, "k": k})
                    i += 1
    return out


SPLIT = {"quick": 2, "thorough": 4}


def _accepted_prefixes(cfg, p):
    """Split one configuration into independent sub-trees.

    Walks the *model* to find every sequence of <= p accepted calls (a refused call
    returns to the state it came from, so only accepted calls lead anywhere new).
    Returns (interior, frontier): ``interior`` nodes get a shallow task that
    executes all 8 events there (refusals included) and one more step, ``frontier``
    nodes get the full remaining depth.  A node is not split further when the
    model's decision at it is numerically undecidable or undefined — the explorer
    then covers it with a single deep task."""
    import copy

    from mc.numeric import Decider

    interior, frontier = [], []
    todo = [([], _new_model(cfg))]
    while todo:
        prefix, model = todo.pop()
        if len(prefix) >= p:
            frontier.append(prefix)
            continue
        kids = []
        clean = True
        for ev in ("upd_in", "upd_out", "lab_ok", "lab_bad"):
            m = copy.deepcopy(model)
            D = Decider()
            exp = _event(cfg, m, ev)[2](m, D)
            if UNDEFINED in exp or D.near:
                clean = False
                break
            if exp["exc"] is None:
                kids.append((prefix + [ev], m))
        if not clean or not kids:
            frontier.append(prefix)
            continue
        interior.append(prefix)
        todo.extend(kids)
    return interior, frontier


# Long streams (deviation-bounded mode): a periodic default stream that keeps the
# running margin density near the reference (sensitivity 2: no warning), and every
# history that replaces <= K of its calls by any call of LONG_MENU.
LONG_IN = {"R6": {0, 1, 2, 3, 4}, "R7": {3}, "R8": {0, 3, 6}}
LONG_LEN = {"quick": 36, "thorough": 48}
LONG_K = {"quick": 1, "thorough": 2}
LONG_MENU = ["upd_in", "upd_out", "lab_ok", "lab_bad", "upd_2rows", "lab_cols_renamed"]


def _long_default(ref, n):
    period = len(REFS[ref]["rows"])
    return ["upd_in" if (i % period) in LONG_IN[ref] else "upd_out" for i in range(n)]


# ---------------------------------------------------------------------------
# families added in round 3b
# ---------------------------------------------------------------------------
FAM_DEPTH = {
    "cols": {"quick": 6, "thorough": 8},
    "perm": {"quick": 6, "thorough": 8},
    "idx": {"quick": 6, "thorough": 8},
    "sens0": {"quick": 7, "thorough": 9},
    "zref": {"quick": 7, "thorough": 9},
}
# (reference batch, sensitivity, oracle length, k)
COLS_SETTINGS = [("R6", 0.5, 2, 2), ("R7", 2, 3, 3), ("R8", 0.5, 2, 2), ("R8", 2, 3, 3)]
PERM_SCHEMES = ["xzy", "yxz", "int-t0", "np-t2"]
PERM_FULL = ["xzy", "yxz"]  # all four settings; the other schemes: the two middle ones
PERM_SETTINGS = [("R6", 0.5, 3, 2), ("R6", 2, 3, 3), ("R8", 0.5, 3, 2), ("R8", 2, 3, 3)]
# (scheme, alphabet, reference batch, sensitivity, oracle length, k)
IDX_SETTINGS = [
    ("xzy", "base", "R6", 0.5, 2, 2),
    ("xzy", "perm", "R8", 0.5, 3, 2),
    ("yxz", "perm", "R6", 2, 3, 3),
    ("np-t0", "base", "R8", 2, 3, 3),
    ("int-t2", "base", "R7", 2, 3, 3),
]
# round 4: the caller re-uses its containers.  (kind, scheme, alphabet, reference batch, sensitivity, oracle length, k,
# row labels)
REUSE_DEPTH = {"quick": 6, "thorough": 8}
REUSE_SETTINGS = [
    ("frame", "xzy", "perm", "R8", 0.5, 3, 2, None),
    ("frame", "xzy", "base", "R6", 0.5, 2, 2, None),
    ("frame", "yxz", "perm", "R6", 2, 3, 3, None),
    ("frame", "xyz", "perm", "R6", 0.5, 3, 2, None),
    ("frame", "int-t1", "base", "R7", 2, 3, 3, None),
    ("frame", "np-t2", "perm", "R8", 2, 3, 3, None),
    ("frame", "empty-first", "base", "R8", 0.5, 2, 2, None),
    ("frame", "xzy", "base", "R8", 0.5, 3, 2, "stream"),
    ("array", "np-xzy", "perm", "R8", 0.5, 3, 2, None),
    ("array", "np-t0", "base", "R6", 0.5, 2, 2, None),
    ("array", "np-t2", "perm", "R6", 2, 3, 3, None),
    ("array", "np-xzy", "base", "R8", 2, 3, 3, "stream"),
    # per-column 1-D buffers: dict-built schemes only (float64 features, int64 target)
    ("columns", "xzy", "perm", "R8", 0.5, 3, 2, None),
    ("columns", "yxz", "base", "R6", 0.5, 2, 2, None),
    ("columns", "int-t1", "perm", "R6", 2, 3, 3, None),
    ("columns", "empty-last", "base", "R8", 2, 3, 3, "stream"),
]
REUSE_FAMILY = {"frame": "reuse", "array": "reuse-array", "columns": "reuse-columns"}
ZREF_SETTINGS = {"Z6": [2, 3], "Z6m": [3], "Z6a": [3], "Z9": [3], "Z10": [2, 3], "Z15": [3]}  # oracle lengths
FLAT_Q = {2: [3, 5], 3: [3, 5]}  # k -> fold sizes of the flat0 reference batches
FLATL_SHAPES = [(2, 3), (3, 3)]  # (k, fold size): full star;  FLATL_EXTRA: two points each
FLATL_EXTRA = [(2, 5), (5, 3)]
FLAT_K = {"quick": 1, "thorough": 2}
FLAT_K2_MAXLEN = 24
FLAT_MENU = ["upd_in", "upd_out", "lab_ok", "lab_bad", "lab_2rows"]
FIXED_MARGIN = 0.5


def _folds(n, k):
    return [list(map(int, t)) for _, t in KFold(n_splits=k, shuffle=True, random_state=42).split(np.zeros((n, 1)))]


def _pattern(k, q, a, c):
    """k*q rows for the fixed classifier (threshold 3, margin 1/2) whose f-th KFold test fold holds
    exactly a[f] in-margin rows and c[f] correctly classified rows.  -> (rows, ok flags)"""
    n = k * q
    rows, oks = [None] * n, [None] * n
    for f, test in enumerate(_folds(n, k)):
        assert len(test) == q
        for j, i in enumerate(test):
            inm = j < a[f]
            okc = ((j + f) % q) < c[f]  # a rotation of the fold: exactly c[f] rows, unaligned with the margin rows
            side = i % 2
            x = (3.25 if side else 2.75) if inm else (5.0 if side else 1.0)
            pred = predict_one(x, USER_THR)
            rows[i] = [x, pred if okc else 1 - pred]
            oks[i] = okc
    return rows, oks


def _walk(cfg, plan):
    """Event script from a plan, by walking the model: ("warn", ev) repeats ev until the model waits,
    ("seq", [events]) and ("ev", event) are taken as they are."""
    from mc.numeric import Decider

    model = _new_model(cfg)
    out = []

    def do(ev):
        _event(cfg, model, ev)[2](model, Decider())
        out.append(ev)

    for item in plan:
        if item[0] == "warn":
            n = 0
            while not model.waiting and n < 60:
                do(item[1])
                n += 1
        elif item[0] == "seq":
            for ev in item[1]:
                do(ev)
        else:
            do(item[1])
    return out


def _star(q):
    """(a, c) pairs: every in-margin count with q-1 correct rows, every correct count with 1 in-margin row"""
    pts = [(a, q - 1) for a in range(q + 1)] + [(1, c) for c in range(q + 1)]
    return sorted(set(pts))


def _family_cfgs(tier):
    """-> list of (cfg, task fields) for the added families"""
    out = []
    nid = [100]

    def cfg_(**kw):
        kw["id"] = nid[0]
        nid[0] += 1
        return kw

    # cols: every column-label scheme x four (reference batch, setting) pairs, base alphabet
    for sch in SCHEMES:
        if sch == BASE_SCHEME:
            continue
        for (r, s, L, k) in COLS_SETTINGS:
            c = cfg_(family="cols", ref=r, sens=s, L=L, k=k, cols=sch)
            out.append((c, {"depth": FAM_DEPTH["cols"][tier], "tag": "%s,%s,s%s,L%s,k%d" % (sch, r, s, L, k)}))
    # perm: labelled samples in every column order
    for sch in PERM_SCHEMES:
        for (r, s, L, k) in PERM_SETTINGS if sch in PERM_FULL else PERM_SETTINGS[1:3]:
            c = cfg_(family="perm", ref=r, sens=s, L=L, k=k, cols=sch, alphabet="perm")
            out.append((c, {"depth": FAM_DEPTH["perm"][tier], "tag": "%s,%s,s%s,L%s,k%d" % (sch, r, s, L, k)}))
    # idx: sample frames / reference batch with row labels other than 0.. (slices of a longer frame)
    for (sch, alpha, r, s, L, k) in IDX_SETTINGS:
        c = cfg_(family="idx", ref=r, sens=s, L=L, k=k, cols=sch, alphabet=alpha, index="stream")
        out.append((c, {"depth": FAM_DEPTH["idx"][tier], "tag": "%s,%s,%s,s%s,L%s,k%d" % (sch, alpha, r, s, L, k)}))
    # reuse / reuse-array: every call of the history goes through the caller's one container for that call shape
    for (kind, sch, alpha, r, s, L, k, index) in REUSE_SETTINGS:
        c = cfg_(family=REUSE_FAMILY[kind], reuse=kind, ref=r, sens=s, L=L, k=k, cols=sch, alphabet=alpha)
        if index:
            c["index"] = index
        out.append((c, {"depth": REUSE_DEPTH[tier], "validate_every": 53 if kind == "frame" else 5,
                        "tag": "%s,%s,%s,s%s,L%s,k%d%s" % (sch, alpha, r, s, L, k, ",rows-" + index if index else "")}))
    # sens0: sensitivity 0 (every deviation warns, every accuracy drop is a drift)
    for r in ("R6", "R7", "R8"):
        for k in FOLDS:
            c = cfg_(family="sens0", ref=r, sens=0, L=3, k=k)
            out.append((c, {"depth": FAM_DEPTH["sens0"][tier], "tag": "%s,s0,L3,k%d" % (r, k)}))
    # zref: zero-spread references, learning classifier
    for r in sorted(ZREFS):
        for L in ZREF_SETTINGS[r]:
            for s in SENS:
                k = ZREFS[r]["k"]
                c = cfg_(family="zref", ref=r, sens=s, L=L, k=k)
                out.append((c, {"depth": FAM_DEPTH["zref"][tier], "tag": "%s,s%s,L%d,k%d" % (r, s, L, k)}))
    # flat0: fixed classifier, every fold of the initial reference has a in-margin and c correct rows
    n = 0
    for k in sorted(FLAT_Q):
        for q in FLAT_Q[k]:
            pts = [(a, c) for a in range(q + 1) for c in range(q + 1)] if q == 3 else _star(q)
            for (a, c) in pts:
                rows, _ = _pattern(k, q, [a] * k, [c] * k)
                s = SENS[n % 2]
                n += 1
                cf = cfg_(
                    family="flat0", clf="fixed", rows=rows, margin=FIXED_MARGIN, sens=s, L=k, k=k,
                    expect={"md": [a, q], "md_std": [0, 1], "acc": [c, q], "acc_std": [0, 1]},
                )
                out.append((cf, {"depth": k + 3 + (1 if tier == "thorough" else 0),
                                 "tag": "k%d,q%d,a%d,c%d,s%s" % (k, q, a, c, s)}))
    # flatL: fixed classifier, oracle length = reference length = k*q; the labelled samples of a round
    # follow a pattern with (a2, c2) per fold, so the ADOPTED references are zero-spread too
    shapes = [(k, q, _star(q), 2) for (k, q) in FLATL_SHAPES] + [
        (k, q, [(1, q - 1), (2, 2)][: 2 if k == 2 else 1], 2) for (k, q) in FLATL_EXTRA
    ]
    for (k, q, pts, nvar) in shapes:
        for (a, c) in pts:
            # labelled rounds: the reference's own layout (accuracy ties the reference), and one with
            # another margin count and one more wrong (if none can be added: one fewer) row per fold
            variants = [(a, c), ((a + 1) if a < q else (a - 1), (c - 1) if c >= 1 else (c + 1))]
            for (a2, c2) in variants[:nvar]:
                rows, _ = _pattern(k, q, [a] * k, [c] * k)
                lrows, loks = _pattern(k, q, [a2] * k, [c2] * k)
                cf = cfg_(
                    family="flatL", clf="fixed", rows=rows, margin=FIXED_MARGIN, sens=2, L=None, k=k,
                    lab_x=[r[0] for r in lrows],
                    expect={"md": [a, q], "md_std": [0, 1], "acc": [c, q], "acc_std": [0, 1]},
                )
                labels = ["lab_ok" if o else "lab_bad" for o in loks]
                w1 = "upd_in" if a < q else "upd_out"
                w2 = "upd_in" if a2 < q else "upd_out"
                plan = [("warn", w1), ("seq", labels), ("warn", w2), ("seq", labels), ("ev", "upd_out"), ("ev", "upd_in")]
                out.append((cf, {"script": _walk(cf, plan), "tag": "k%d,q%d,a%d,c%d,to-a%d,c%d" % (k, q, a, c, a2, c2)}))
    # defaults: MD3(clf, margin_calculation_function=f) — sensitivity 2, k 10, oracle length = len(reference);
    # 30 rows, folds of 3
    a10 = [1] * 9 + [2]
    c10 = [3] * 8 + [2] * 2
    rows, _ = _pattern(10, 3, a10, c10)
    for name, nbad in (("drift", 11), ("nodrift", 9)):
        # labelled round: same in-margin layout, nbad wrong labels (one per fold, then a second in fold 0 ...)
        cl = [3 - (1 if f < nbad else 0) - (1 if f + 10 < nbad else 0) for f in range(10)]
        lrows, loks = _pattern(10, 3, a10, cl)
        cf = cfg_(
            family="defaults", clf="fixed", rows=rows, margin=FIXED_MARGIN, sens=2, L=None, k=10, defaults=True,
            lab_x=[r[0] for r in lrows], expect={"md": [11, 30], "acc": [28, 30]},
        )
        labels = ["lab_ok" if o else "lab_bad" for o in loks]
        plan = [("warn", "upd_in"), ("seq", labels), ("warn", "upd_in"), ("ev", "lab_ok"), ("ev", "lab_bad")]
        out.append((cf, {"script": _walk(cf, plan), "tag": name}))
    return out


def tasks(tier, seed):
    out = []
    d = DEPTH[tier]
    for cfg in _cfgs():
        tag = "%s,s%s,L%s,k%d" % (cfg["ref"], cfg["sens"], cfg["L"], cfg["k"])
        if cfg["L"] is not None and cfg["L"] < cfg["k"]:
            interior, frontier = [], [[]]
        else:
            interior, frontier = _accepted_prefixes(cfg, SPLIT[tier])
            if cfg["sens"] == 2 and cfg["L"] in (3, None):
                default = _long_default(cfg["ref"], LONG_LEN[tier])
                base = {
                    "system": "MD3",
                    "cfg": cfg,
                    "mode": "dev",
                    "default": default,
                    "menu": LONG_MENU,
                    "validate_every": 101,
                }
                # one task per configuration: the refused replacements at a position all return
                # to the same state and merge, which a split by first deviation would lose
                out.append(
                    dict(base, k=LONG_K[tier], label="MD3|%d|%s|long" % (cfg["id"], tag), cost=10 ** 6)
                )
        for p in interior:
            out.append(
                {
                    "system": "MD3",
                    "cfg": cfg,
                    "prefix": p,
                    "depth": 2,
                    "label": "MD3|%d|%s|node:%s" % (cfg["id"], tag, "+".join(p) or "root"),
                    "cost": 1,
                    "validate_every": 53,
                }
            )
        for p in frontier:
            out.append(
                {
                    "system": "MD3",
                    "cfg": cfg,
                    "prefix": p,
                    "depth": d - len(p),
                    "label": "MD3|%d|%s|tree:%s" % (cfg["id"], tag, "+".join(p) or "root"),
                    "cost": 2 ** (d - len(p)),
                    "validate_every": 101,
                }
            )
    for cfg, f in _family_cfgs(tier):
        label = "MD3|%d|fam-%s|%s" % (cfg["id"], cfg["family"], f["tag"])
        if "script" in f:
            out.append(
                {
                    "system": "MD3",
                    "cfg": cfg,
                    "mode": "dev",
                    "default": f["script"],
                    "menu": FLAT_MENU,
                    # two replacements only for the shorter scripts (cost grows with length^2 per replacement)
                    "k": FLAT_K[tier] if len(f["script"]) <= FLAT_K2_MAXLEN else 1,
                    "label": label,
                    "cost": len(f["script"]) ** 2,
                    "validate_every": 53,
                }
            )
        else:
            out.append(
                {
                    "system": "MD3",
                    "cfg": cfg,
                    "prefix": [],
                    "depth": f["depth"],
                    "label": label,
                    "cost": 2 ** f["depth"] * (2 if cfg.get("alphabet") == "perm" else 1),
                    "validate_every": f.get("validate_every", 101),
                }
            )
    return out


REQUIRED = [
    "warnings",
    "warning_high_side",
    "warning_low_side",
    "confirmed_drifts",
    "rejected_confirmations",
    "refused_update_waiting",
    "refused_update_2rows_waiting",
    "refused_update_2rows_idle",
    "refused_label_idle",
    "refused_label_columns_waiting",
    "refused_label_columns_idle",
    "refused_label_2rows_waiting",
    "refused_label_2rows_idle",
    "refused_while_drift_reported",
    "warning_after_reference_replacement",
    "histories_with_2_oracle_rounds",
    "epoch_restart_after_drift",
    "new_reference_md_std_positive",
    "exact_ties",
    "streams_of_30_updates_without_warning",
    # round 3b families (MD3 draws no random numbers: none of these depends on VERIF_SEED)
    "family:cols",
    "family:perm",
    "family:idx",
    "family:sens0",
    "family:zref",
    "family:flat0",
    "family:flatL",
    "family:defaults",
    "label_columns_permuted_first_of_round",
    "label_columns_permuted_later_in_round",
    "oracle_data_checked_by_name",
    "warning_on_zero_md_spread_nondyadic",
    "drift_on_zero_acc_spread_nondyadic",
    "no_drift_on_zero_acc_spread_nondyadic",
    "adopted_zero_md_spread_nondyadic",
    "adopted_zero_acc_spread_nondyadic",
    "confirmation_with_default_parameters",
    # round 4 (MD3 draws no random numbers: none of these depends on VERIF_SEED)
    "family:reuse",
    "family:reuse-array",
    "calls_through_reused_frame",
    "calls_through_reused_array",
    "reused_frame_label_first_of_round",
    "reused_frame_label_later_in_round",
    "reused_frame_label_in_reference_column_order",
    "reused_frame_label_in_another_column_order",
    "reused_array_label_first_of_round",
    "reused_array_label_later_in_round",
    "reused_array_label_in_reference_column_order",
    "reused_array_label_in_another_column_order",
    "reference_rows_checked_by_name",
    "adopted_reference_rows_checked",
    # round 4, second pass
    "family:reuse-columns",
    "calls_through_reused_columns",
    "reused_columns_label_with_int64_target_view",
] + [
    "reused_%s_label_%s_%s" % (kind, when, order)
    for kind in ("frame", "array", "columns")
    for when in ("first", "later")
    for order in ("reference_order", "other_order")
] + ["reused_%s_label_in_second_round" % kind for kind in ("frame", "array", "columns")
] + ["cols:" + s for s in SCHEMES if s != BASE_SCHEME]

# wall-clock safety net only (the quick tier is ~350 CPU-seconds, i.e. well under a minute on 16 idle cores); sized so
# that it is not hit with --jobs 6 on a machine shared with other checks either
TIME_BUDGET = {"quick": 1800, "thorough": 6000}


def describe(tier):
    d = DEPTH[tier]
    fams = _family_cfgs(tier)
    per_family = {}
    for cfg, f in fams:
        per_family[cfg["family"]] = per_family.get(cfg["family"], 0) + 1
    scripts = [len(f["script"]) for cfg, f in fams if "script" in f]
    return {
        "rule": "reachable-state search: every sequence of length %d over the 8-event alphabet (4 legal, 4 illegal "
        "call shapes; all of them enabled in every state, no per-history bound on illegal events in either tier) "
        "is executed on the real MD3 object per configuration, with states merged on the structural hash of the "
        "complete detector plus the model summary; a refused call is checked to leave every attribute unchanged "
        "and therefore merges with its source state. A history is non-trivial when it contains a warning, a "
        "confirmation (drift or no drift), a refusal or an epoch restart. Long streams: per configuration with "
        "sensitivity 2 and oracle length 3 / None, a periodic default stream of %d updates that stays inside the "
        "warning band, and every history replacing <= %d of its calls by any of %d alternative calls "
        "(deviation-bounded mode). Added families (each a set of further configurations, same oracle): "
        "cols = %d column-label schemes (target first / middle / last; string, integer, empty-string labels; "
        "dict-built and ndarray-built frames) x 4 (reference batch, setting) pairs, all sequences of length %d; "
        "perm = labelled samples listing their columns in each of the 6 orders (17-event alphabet), 4 schemes x 2-4 "
        "(batch, setting) pairs, length %d; idx = reference batch and sample frames whose row labels do not start "
        "at 0 (slices of a longer frame), 5 configurations over both alphabets, same length; sens0 = sensitivity 0, length %d; zref = 6 reference batches whose folds "
        "all have the same non-dyadic margin density and / or accuracy (spread exactly 0) with the learning "
        "classifier, length %d; flat0 = a classifier that learns nothing and generated reference batches with a "
        "in-margin and c correct rows in every fold (k 2, 3; folds of 3: all (a, c); folds of 5: a star), oracle "
        "length k, length k+%d; flatL = the same with oracle length = reference length = k x fold size and labelled "
        "rounds that make the adopted references zero-spread as well, scripted two-round histories (length %d..%d) "
        "with every replacement of <= %d calls (scripts longer than 24 calls: 1) by any of %d calls; defaults = MD3 constructed with its default "
        "sensitivity / k = 10 / oracle length on a 30-row batch, scripted histories (56 calls) with <= 1 replacement; "
        "reuse / reuse-array / reuse-columns = the caller re-uses its containers: ONE container per call shape "
        "(a DataFrame refilled cell by cell / a 2-D float ndarray / one 1-D ndarray per column, float64 features and "
        "int64 target, the latter two wrapped in a new zero-copy frame per call) and one for the reference batch, "
        "filled in place before the call and overwritten with a sentinel right after it, %d + %d + %d configurations "
        "over %d column schemes and both alphabets, all sequences of length %d; after every accepted call oracle_data "
        "and the reference batch held by MD3, read by column label, must equal the values handed over"
        % (d, LONG_LEN[tier], LONG_K[tier], len(LONG_MENU), len(SCHEMES) - 1, FAM_DEPTH["cols"][tier],
           FAM_DEPTH["perm"][tier], FAM_DEPTH["sens0"][tier], FAM_DEPTH["zref"][tier],
           3 + (1 if tier == "thorough" else 0), min(scripts), sorted(scripts)[-3], FLAT_K[tier], len(FLAT_MENU),
           per_family.get("reuse", 0), per_family.get("reuse-array", 0), per_family.get("reuse-columns", 0),
           len({t[1] for t in REUSE_SETTINGS}), REUSE_DEPTH[tier]),
        "bounds": {
            "depth": d,
            "events": EVENTS,
            "reference_batches": {k: len(v["rows"]) for k, v in REFS.items()},
            "sensitivity": SENS,
            "oracle_data_length_required": ORACLE_LEN,
            "k": FOLDS,
            "configurations": len(_cfgs()) + len(fams),
            "illegal_events_per_history": "unbounded (both tiers)",
            "long_stream": {"length": LONG_LEN[tier], "deviations": LONG_K[tier], "menu": LONG_MENU},
            "family_configurations": per_family,
            "family_depth": dict({k: v[tier] for k, v in FAM_DEPTH.items()}, reuse=REUSE_DEPTH[tier]),
            "reuse_settings": [
                {"container": t[0], "scheme": t[1], "alphabet": t[2], "reference": t[3], "sensitivity": t[4],
                 "oracle_length": t[5], "k": t[6], "row_labels": t[7] or "0.."}
                for t in REUSE_SETTINGS
            ],
            "reuse_sentinels": [SENTINEL_F, SENTINEL_I],
            "column_schemes": {
                k: {"frame_order": [v["lab"][r] for r in v["order"]], "target": v["lab"]["y"],
                    "built_from": "ndarray" if v["np"] else "dict"}
                for k, v in SCHEMES.items()
            },
            "perm_events": PERM_EVENTS,
            "scripted": {"deviations": FLAT_K[tier], "deviations_when_longer_than": [FLAT_K2_MAXLEN, 1],
                         "menu": FLAT_MENU, "lengths": sorted(set(scripts))},
        },
        "explanation": "states = distinct canonical (detector, model) states reached; transitions = calls executed "
        "on the real object and compared with the model; executions = maximal paths of the merged graph. "
        "each base configuration is split into the sub-trees below its accepted call sequences of length %d "
        "(tree:* tasks, full remaining depth) plus, for every node above them, a depth-2 task executing all 8 events "
        "there (node:* tasks); every added-family configuration is one task (fam-* labels)" % SPLIT[tier],
        "assumptions": [
            "the classifier is a deterministic threshold rule on feature 0 and the margin function is "
            "|x0 - thr| <= m, both computed in exact rationals on both sides; MD3 never refits the user's classifier",
            "families flat0 / flatL / defaults use a classifier whose fit() learns nothing (threshold 3), so the "
            "per-fold statistics of a batch can be prescribed; the model is told so (refit=False)",
            "fold assignment is sklearn KFold(k, shuffle=True, random_state=42) as documented in the code (trusted)",
            "standard deviation over folds is the population standard deviation (numpy default)",
            "drift_state after an accepted label that does not complete the round is None (pinned by "
            "test_md3::test_give_oracle_label); 2-row frames are refused per the method docstrings",
            "feature values of the i-th labelled sample are a fixed function of (i, oracle round); only the "
            "label (correct / wrong) and, in family perm, the column order are enumerated",
            "columns are identified by label: a labelled sample with the reference's labels in any order is legal, "
            "and oracle_data read by label must hold the samples handed over (values compared as floats, dtypes "
            "and the buffer's own column order are not constrained)",
            "column labels may be any hashable pandas label (strings incl. the empty string, integers as produced "
            "by DataFrame(ndarray)); the docstring's 'string' is read as 'label'",
            "update() frames list the feature columns in the reference's order (MD3 reads them by position)",
            "threshold comparisons within relative 1e-9 are numerically undecidable and follow the implementation; "
            "exact ties are enforced when all operands and the forgetting factor are dyadic",
            "reuse families: the caller may overwrite in place any container it passed, as soon as the call has "
            "returned; what MD3 has collected / adopted must keep the values it was given (it is not required that MD3 "
            "leaves the caller's container untouched — the property does not say so and the check does not look)",
            "reuse-array / reuse-columns rely on DataFrame(ndarray or dict of ndarrays, copy=False) being zero-copy "
            "(asserted at every call)",
            "oracle_data_length_required < k has no k-fold summary: accepted only if the configuration is refused "
            "at construction / set_reference",
        ],
    }
