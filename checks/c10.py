"""C10 -- NN-DVI measures neighbourhood density change between exactly the given batches.

Two systems (DESIGN §4 C10):

* ``NNSP``  -- NNSpacePartitioner, exhaustive *input* enumeration ("fn" tasks): every ordered
  pair of point multisets with sizes 1-4 x 1-4 from a 5-point menu (1-D and 2-D), every
  k in {1,2,3} with k <= |D|.  Oracles: D is the sorted de-duplicated union; v1 / v2 are exactly
  the membership indicators of sample 1 / sample 2 over D; every adjacency row is a k-nearest-
  neighbour set that contains the point itself (tie-tolerant brute force, exact rational
  distances); nnps_matrix is the weight-normalised adjacency; the distance is symmetric in the
  samples (second build with the samples swapped), lies in [0,1], is 0 when both samples are the
  same set and equals sum|a-b|/(a+b)/|D| recomputed from D, the memberships and the adjacency.
* ``NNDVI`` -- the detector in lock-step with models.nnsp.NNDVIModel over all batch sequences
  from a menu of 4 after ``set_reference``; same-seed permutation threshold (DESIGN §2.3).
"""
import itertools
import math
import time

import numpy as np

from menelaus.data_drift import NNDVI
from menelaus.partitioners import NNSpacePartitioner

from mc import rng
from mc.explorer import Ctx, HarnessError, System, Violation, artefact, jsonable, _same
from mc.numeric import close, diff_keys, lockstep
from mc.observe import batch_obs
from models import nnsp as M

PROPERTY = "C10"

# ======================================================================= NNSP (exhaustive inputs)
POINT_MENU = {
    # 1-D: 1 is equidistant from 0 and 2 (kNN boundary ties), one non-integer value
    "1d": [[0.0], [1.0], [2.0], [4.0], [7.5]],
    # 2-D: unit square (ties for k = 2, lexicographic order differs from row order) + outlier
    #      equidistant from (1,0) and (1,1)
    "2d": [[0.0, 0.0], [1.0, 0.0], [0.0, 1.0], [1.0, 1.0], [3.0, 0.5]],
}
SIZES = (1, 2, 3, 4)
KS = (1, 2, 3)
ROW_ORDERS = {"quick": ("asc",), "thorough": ("asc", "desc-asc")}
MAX_ART_PER_SIG = 1


def _rows(menu, idx, order):
    idx = list(idx)
    if order == "desc":
        idx = idx[::-1]
    return [list(POINT_MENU[menu][i]) for i in idx]


def _flt(a):
    return [float(x) for x in np.asarray(a, dtype=float).ravel()]


class NNSPSystem(System):
    """One event = one pair of samples; the history has length 1 (so --replay works)."""

    name = "NNSP"

    def init(self, cfg):
        return {}

    def alphabet(self, cfg, state, pos):
        return []

    def step(self, cfg, state, ev, pos, ctx):
        k = cfg["k"]
        s1, s2 = ev["s1"], ev["s2"]
        A = np.array(s1, dtype=float)
        B = np.array(s2, dtype=float)
        try:
            p = NNSpacePartitioner(k)
            p.build(A.copy(), B.copy())
            d_fwd = float(NNSpacePartitioner.compute_nnps_distance(p.nnps_matrix, p.v1, p.v2))
            q = NNSpacePartitioner(k)
            q.build(B.copy(), A.copy())
            d_rev = float(NNSpacePartitioner.compute_nnps_distance(q.nnps_matrix, q.v1, q.v2))
        except Exception as e:  # the property covers any two samples of any sizes
            raise Violation(
                "nnsp-exception",
                "NNSpacePartitioner(k=%d) raised %s: %s on s1=%r s2=%r" % (k, type(e).__name__, e, s1, s2),
                expected="a partition", observed=repr(e),
            )

        D = M.union(s1, s2)
        n = len(D)
        e1 = M.membership(D, s1)
        e2 = M.membership(D, s2)
        unequal = len(s1) != len(s2)
        shared = sum(1 for a, b in zip(e1, e2) if a and b)
        within = len(set(map(tuple, s1))) < len(s1) or len(set(map(tuple, s2))) < len(s2)
        same_set = e1 == e2
        size_cls = "unequal-sizes" if unequal else "equal-sizes"
        fails = []

        def fail(sub, msg, expected, observed, sig=None):
            fails.append(Violation(sub, msg, expected=expected, observed=observed, sig=sig or sub))

        # --- D: de-duplicated union, sorted
        D_obs = np.asarray(p.D, dtype=float)
        D_exp = [[float(x) for x in pt] for pt in D]
        if D_obs.ndim != 2 or D_obs.tolist() != D_exp:
            fail("nnsp-union", "D is not the sorted de-duplicated union of the two samples (s1=%r s2=%r)" % (s1, s2),
                 D_exp, D_obs.tolist())
        # --- v1 / v2: exact membership indicators
        v1_obs, v2_obs = _flt(p.v1), _flt(p.v2)
        if v1_obs != [float(x) for x in e1] or v2_obs != [float(x) for x in e2]:
            fail("nnsp-membership",
                 "v1/v2 are not the membership indicators of sample 1 / sample 2 over D=%r for sizes %d,%d "
                 "(s1=%r s2=%r)" % (D_exp, len(s1), len(s2), s1, s2),
                 {"v1": e1, "v2": e2}, {"v1": v1_obs, "v2": v2_obs},
                 sig="nnsp-membership|" + size_cls)
        # --- adjacency: kNN relation, self included
        adj = np.asarray(p.adjacency_matrix, dtype=float)
        adj_ok = adj.shape == (n, n)
        if not adj_ok:
            fail("nnsp-adjacency", "adjacency_matrix has shape %r, |D| = %d" % (adj.shape, n), [n, n], list(adj.shape))
        else:
            for i in range(n):
                why = M.knn_row_defect(D, i, adj[i].tolist(), k)
                if why:
                    adj_ok = False
                    fail("nnsp-adjacency", "adjacency_matrix is not the %d-NN relation of D=%r: %s" % (k, D_exp, why),
                         "k nearest points incl. itself", adj.tolist())
                    break
        tie = M.has_boundary_tie(D, k)
        # --- nnps matrix: weight-normalised adjacency
        if adj_ok:
            P_exp = [[float(x) for x in r] for r in M.weight_normalised(adj.astype(int).tolist())]
            P_obs = np.asarray(p.nnps_matrix, dtype=float)
            if P_obs.shape != (n, n) or P_obs.tolist() != P_exp:
                fail("nnsp-nnps-matrix", "nnps_matrix is not the weight-normalised adjacency matrix", P_exp, P_obs.tolist())
        # --- distance: formula, range, identity, symmetry
        if adj_ok:
            d_exp = M.distance(adj.astype(int).tolist(), e1, e2)
            if d_exp is None or not close(float(d_exp), d_fwd):
                fail("nnsp-distance-formula",
                     "distance %r differs from sum|a-b|/(a+b)/|D| = %s recomputed from D, the memberships and the "
                     "adjacency (s1=%r s2=%r k=%d)" % (d_fwd, d_exp, s1, s2, k),
                     None if d_exp is None else float(d_exp), d_fwd, sig="nnsp-distance-formula|" + size_cls)
        if math.isnan(d_fwd) or d_fwd < -1e-12 or d_fwd > 1 + 1e-12:
            fail("nnsp-distance-range", "distance %r outside [0,1] (s1=%r s2=%r k=%d)" % (d_fwd, s1, s2, k),
                 "[0,1]", d_fwd, sig="nnsp-distance-range|" + size_cls)
        if same_set and not (abs(d_fwd) <= 1e-12):
            fail("nnsp-distance-identity",
                 "both samples are the same set but the distance is %r (s1=%r s2=%r k=%d)" % (d_fwd, s1, s2, k),
                 0.0, d_fwd, sig="nnsp-distance-identity|" + size_cls)
        if not close(d_fwd, d_rev):
            fail("nnsp-distance-symmetry",
                 "distance(s1,s2) = %r but distance(s2,s1) = %r (s1=%r s2=%r k=%d)" % (d_fwd, d_rev, s1, s2, k),
                 d_rev, d_fwd, sig="nnsp-distance-symmetry|" + size_cls)

        if fails:
            v = fails[0]
            others = sorted({f.sub for f in fails[1:]} - {v.sub})
            if others:
                v.msg += " [also failing here: %s]" % ", ".join(others)
            raise v

        if unequal:
            ctx.mark("unequal_size_pairs")
        if shared:
            ctx.mark("cross_sample_duplicate_pairs")
        if within:
            ctx.mark("within_sample_duplicate_pairs")
        if tie:
            ctx.mark("knn_boundary_tie_builds")
        if unequal and shared:
            ctx.count("unequal_size_pairs_with_cross_duplicates")
        if same_set:
            ctx.count("same_set_pairs")
            if unequal:
                ctx.count("same_set_pairs_of_unequal_size")
        if d_fwd == 0.0:
            ctx.count("nnsp_distance_zero")
        elif d_fwd == 1.0:
            ctx.count("nnsp_distance_one")
        else:
            ctx.count("nnsp_distance_strictly_between")
        if not same_set and d_fwd == 0.0:
            ctx.count("distance_zero_for_different_sets")
        return {"D": D_exp, "v1": v1_obs, "v2": v2_obs, "distance": d_fwd, "distance_swapped": d_rev}


def run_nnsp(task, seed):
    """All ordered pairs (multiset of size n1, multiset of size n2) for one (menu, k, row order)."""
    t0 = time.time()
    system = SYSTEMS["NNSP"]
    cfg = task["cfg"]
    menu, k = cfg["menu"], cfg["k"]
    o1, o2 = task["orders"]
    ctx = Ctx(seed)
    st = ctx.stats
    violations, samples = [], []
    per_sig = {}
    pts = range(len(POINT_MENU[menu]))
    part, nparts = task.get("part", (0, 1))
    for j1, i1 in enumerate(itertools.combinations_with_replacement(pts, task["n1"])):
        if j1 % nparts != part:
            continue
        for i2 in itertools.combinations_with_replacement(pts, task["n2"]):
            if k > len(set(i1) | set(i2)):
                st["skipped_k_exceeds_union"] += 1
                continue
            ev = {"s1": _rows(menu, i1, o1), "s2": _rows(menu, i2, o2)}
            ctx.marks = 0
            try:
                obs = system.step(cfg, {}, ev, 0, ctx)
            except Violation as v:
                st["violations_raw"] += 1
                st["violations_raw:" + v.sig] += 1
                per_sig[v.sig] = per_sig.get(v.sig, 0) + 1
                if per_sig[v.sig] <= MAX_ART_PER_SIG:
                    try:
                        system.step(cfg, {}, ev, 0, Ctx(seed, collect=False))
                        raise HarnessError("HARNESS-NONDET: NNSP violation did not reproduce: %r" % (ev,))
                    except Violation as v2:
                        if (v2.sub, v2.msg) != (v.sub, v.msg):
                            raise HarnessError("HARNESS-NONDET: NNSP violation changed on re-execution: %r" % (ev,))
                    violations.append(artefact(PROPERTY, system, cfg, seed, [ev], v))
                continue
            st["states"] += 1
            st["transitions"] += 2  # two real builds (samples as given and swapped)
            st["executions"] += 1
            if ctx.marks:
                st["nontrivial_executions"] += 1
            if st["executions"] % 499 == 1:
                obs2 = system.step(cfg, {}, ev, 0, Ctx(seed, collect=False))
                if not _same(obs, obs2):
                    raise HarnessError("HARNESS-NONDET: NNSP build is not repeatable on %r" % (ev,))
                st["fresh_replays"] += 1
            if len(samples) < 1 or (ctx.marks >= 3 and len(samples) < 2):
                samples.append({"system": "NNSP", "cfg": jsonable(cfg), "events": [jsonable(ev)],
                                "last_obs": jsonable(obs), "nontrivial_events": ctx.marks})
    return {"stats": dict(st), "violations": violations, "samples": samples, "wall": time.time() - t0}


# ======================================================================= NNDVI (lock-step model)
def _col(xs):
    return [[float(x)] for x in xs]


def _pts(rows):
    return [[float(x) for x in r] for r in rows]


# Batches are tie-free for k <= 2 in every union reference U batch that can occur (checked when the
# task list is built), have unequal sizes (4..8 rows vs. a 5/6-row reference; 1-D batch 1 has the
# size of the reference so that drift also occurs between equal-sized batches), share
# points with the reference (batch 0, 2, 3) and contain duplicate rows (batch 3).
BATCH_MENU = {
    "1d": {
        "ref": _col([0, 1, 2.5, 4.5, 7, 10.5]),
        "menu": [
            _col([0, 1, 2.5, 4.5, 7, 11]),            # the reference with one point moved (6 rows)
            _col([20, 21.5, 23.5, 26, 29.5, 34]),      # far away, same size as the reference (6 rows)
            _col([4.5, 7, 10.5, 20, 21.5]),            # straddles both regions (5 rows)
            _col([0, 0, 1, 30, 30, 33.5, 38, 38]),     # duplicates inside the batch (8 rows)
        ],
    },
    "2d": {
        "ref": _pts([[0, 0], [1, 0.75], [2.5, 0.25], [0.5, 2.25], [3.25, 2.5]]),
        "menu": [
            _pts([[0, 0], [1, 0.75], [2.5, 0.25], [0.5, 2.25], [3.75, 3.25]]),
            _pts([[10, 10], [11, 10.75], [12.5, 10.25], [10.5, 12.25], [13.25, 12.5], [11.75, 14.5], [15, 11.25]]),
            _pts([[0.5, 2.25], [3.25, 2.5], [10, 10], [11, 10.75]]),
            _pts([[0, 0], [0, 0], [12.5, 10.25], [12.5, 10.25], [14.25, 13.75], [16.5, 11]]),
        ],
    },
}
K_NN = (1, 2)
SAMPLING_TIMES = (8, 30)
ALPHAS = (0.01, 0.3, 0.6)
NNDVI_LEN = {"quick": 3, "thorough": 5}


class NNDVISystem(System):
    name = "NNDVI"

    def init(self, cfg):
        m = BATCH_MENU[cfg["menu"]]
        det = NNDVI(k_nn=cfg["k_nn"], sampling_times=cfg["sampling_times"], alpha=cfg["alpha"])
        rng.seed_step(0, cfg["id"], "set_reference")
        det.set_reference(np.array(m["ref"], dtype=float))
        model = M.NNDVIModel(cfg["k_nn"], cfg["sampling_times"], cfg["alpha"])
        model.set_reference(m["ref"])
        return {"det": det, "model": model}

    def alphabet(self, cfg, state, pos):
        return [0, 1, 2, 3]

    def _probe_threshold(self, cfg, ref_before, X, seed, pos):
        """The threshold is a local of update(); to sharpen the check it is recomputed through the
        (private) static helper, if that still exists, from the same seed.  Never decides alone
        whether the helper is missing or has another signature."""
        fn = getattr(NNDVI, "_compute_drift_threshold", None)
        if fn is None:
            return None
        try:
            part = NNSpacePartitioner(cfg["k_nn"])
            part.build(ref_before, X)
            rng.seed_step(seed, cfg["id"], pos)
            return float(fn(part.nnps_matrix, part.v1, part.v2, cfg["sampling_times"], cfg["alpha"]))
        except Exception:
            return None

    def step(self, cfg, state, ev, pos, ctx):
        det = state["det"]
        batch = BATCH_MENU[cfg["menu"]]["menu"][ev]
        X = np.array(batch, dtype=float)
        ref_before = np.array(det.reference_batch, dtype=float, copy=True)
        rng.seed_step(ctx.seed, cfg["id"], pos)
        try:
            det.update(X.copy())
        except Exception as e:
            raise Violation("nndvi-exception", "NNDVI.update raised %s: %s at step %d" % (type(e).__name__, e, pos + 1),
                            expected="an update", observed=repr(e))
        obs = batch_obs(det)
        obs["reference"] = np.asarray(det.reference_batch, dtype=float).tolist()
        theta_impl = self._probe_threshold(cfg, ref_before, X, ctx.seed, pos)
        obs["theta_probe"] = theta_impl
        follow = obs["state"] == "drift"

        def call(m, D):
            rng.seed_step(ctx.seed, cfg["id"], pos)  # same draws as the real call
            try:
                return m.step(batch, D, follow=follow)
            except M.KnnTie as e:
                raise HarnessError("HARNESS-CRASH: NNDVI batch menu is not tie-free: %s" % e)

        model, exp, ok = lockstep(state["model"], call, lambda e: not diff_keys(e, obs), stats=ctx.stats)
        state["model"] = model
        info = model.last
        size_cls = "unequal-sizes" if info["unequal"] else "equal-sizes"
        if not ok or exp["reference"] != obs["reference"]:
            bad = diff_keys(exp, obs) or ["reference"]
            if "state" in bad:
                sub = "nndvi-decision"
                what = ("drift decision %r, but d = %.12g vs theta = %.12g (degenerate=%s) demands %r"
                        % (obs["state"], info["d"], info["theta"], info["degenerate"], exp["state"]))
            elif "reference" in bad:
                sub = "nndvi-reference"
                what = "reference_batch is not %s" % ("the test batch after drift" if exp["state"] == "drift" else "kept")
            else:
                sub = "nndvi-counters"
                what = "lifecycle counters differ on %s" % bad
            raise Violation(sub, "NNDVI %s: %s at update %d (batch %d, %d rows vs. reference of %d rows; implementation "
                            "threshold via helper = %r)" % (cfg["id"], what, pos + 1, ev, len(batch), len(ref_before), theta_impl),
                            expected=dict(exp, d=info["d"], theta=info["theta"]), observed=obs,
                            sig="%s|%s" % (sub, size_cls))
        # sharpened: the threshold itself (private helper, same seed)
        if theta_impl is None:
            ctx.count("theta_probe_unavailable")
        else:
            if info["degenerate"]:
                th_ok = math.isnan(theta_impl) or abs(theta_impl - info["c"]) <= 1e-9
            else:
                th_ok = close(theta_impl, info["theta"])
            if not th_ok:
                raise Violation("nndvi-threshold",
                                "NNDVI %s: threshold %r is not norm.ppf(1-alpha; mean, population std) = %r of the %d "
                                "same-seed permutation distances at update %d" % (cfg["id"], theta_impl, info["theta"],
                                                                                 cfg["sampling_times"], pos + 1),
                                expected=info["theta"], observed=theta_impl, sig="nndvi-threshold|" + size_cls)
            ctx.count("theta_probe_compared")

        if obs["state"] == "drift":
            ctx.mark("drift_decisions")
            ctx.count("reference_replaced")
            ctx.count("drift_on_unequal_sizes" if info["unequal"] else "drift_on_equal_sizes")
        else:
            ctx.count("no_drift_decisions")
            ctx.count("reference_kept")
            if not info["degenerate"]:
                ctx.count("no_drift_with_finite_threshold")
        if info["degenerate"]:
            ctx.count("nan_threshold_steps")
        if info["ambiguous"]:
            ctx.count("degenerate_threshold_followed_impl")
        if info["unequal"]:
            ctx.count("unequal_size_updates")
        if info["shared"]:
            ctx.count("updates_sharing_points_with_reference")
        if not info["degenerate"] and info["theta"] > 0 and 0.5 <= info["d"] / info["theta"] <= 2:
            ctx.count("decisions_within_factor2_of_threshold")
        if pos + 1 == cfg["len"]:
            if model.drifts >= 2:
                ctx.count("histories_with_2plus_drifts")
            if model.drifts >= 3:
                ctx.count("histories_with_3plus_drifts")
        if obs["state"] == "drift" and model.drifts >= 2 and obs["since"] == 1:
            ctx.count("back_to_back_drifts")
        return obs


SYSTEMS = {"NNSP": NNSPSystem(), "NNDVI": NNDVISystem()}


# ======================================================================= tasks / evidence
def _check_menus():
    for name, m in BATCH_MENU.items():
        allb = [m["ref"]] + m["menu"]
        for a in allb:
            for b in allb:
                for k in K_NN:
                    if M.has_boundary_tie(M.union(a, b), k):
                        raise HarnessError("HARNESS-CRASH: batch menu %s has a kNN boundary tie (k=%d)" % (name, k))


def tasks(tier, seed):
    _check_menus()
    out = []
    for menu in ("1d", "2d"):
        for k in KS:
            for order in ROW_ORDERS[tier]:
                o = ("asc", "asc") if order == "asc" else ("desc", "asc")
                for n1 in SIZES:
                    for n2 in SIZES:
                        nparts = 5 if n1 * n2 >= 9 else 1
                        for part in range(nparts):
                            out.append({
                                "fn": "run_nnsp", "system": "NNSP",
                                "cfg": {"id": "%s|k%d" % (menu, k), "menu": menu, "k": k},
                                "n1": n1, "n2": n2, "orders": list(o), "part": [part, nparts],
                                "label": "NNSP|%s|k%d|%s|%dx%d|%d" % (menu, k, order, n1, n2, part),
                                "cost": math.comb(4 + n1, n1) * math.comb(4 + n2, n2) * 3 // nparts,
                            })
    L = NNDVI_LEN[tier]
    for menu in ("1d", "2d"):
        for k in K_NN:
            for s in SAMPLING_TIMES:
                for a in ALPHAS:
                    cid = "%s|k%d|s%d|a%g" % (menu, k, s, a)
                    for first in range(4):
                        out.append({
                            "system": "NNDVI",
                            "cfg": {"id": cid, "menu": menu, "k_nn": k, "sampling_times": s, "alpha": a, "len": L},
                            "prefix": [first], "depth": L - 1,
                            "label": "NNDVI|%s|%d" % (cid, first),
                            # scheduled first: these are the only tasks subject to the time budget
                            "cost": 10 ** 6 + 4 ** (L - 1) * (s + 10) // 3,
                            "validate_every": 17,
                        })
    return out


REQUIRED = [
    "unequal_size_pairs",
    "cross_sample_duplicate_pairs",
    "within_sample_duplicate_pairs",
    "unequal_size_pairs_with_cross_duplicates",
    "same_set_pairs_of_unequal_size",
    "knn_boundary_tie_builds",
    "nnsp_distance_strictly_between",
    "drift_decisions",
    "no_drift_decisions",
    "no_drift_with_finite_threshold",
    "nan_threshold_steps",
    "histories_with_2plus_drifts",
    "reference_replaced",
    "reference_kept",
    "unequal_size_updates",
    "drift_on_unequal_sizes",
    "drift_on_equal_sizes",
    "updates_sharing_points_with_reference",
]

# safety net only (the machine is shared; sized ~50x the CPU-seconds/16 actually needed)
TIME_BUDGET = {"quick": 900, "thorough": 3600}


def describe(tier):
    nm = sum(math.comb(5 + n - 1, n) for n in SIZES)
    return {
        "rule": "NNSP: every ordered pair of point multisets (sizes 1-4 x 1-4, rows ascending; thorough also "
        "first sample descending) from the 5-point menu, per dimension and per k <= |D| -- one evaluation = the "
        "real build on (s1,s2) plus the real build on (s2,s1), all oracles; non-trivial = unequal sizes, "
        "duplicates within or across the samples, or a kNN boundary tie. NNDVI: every sequence of menu batches of "
        "the stated length after set_reference, per configuration (prefix-shared DFS, deepcopy snapshots, lock-step "
        "model after every update); non-trivial = at least one drift. Evaluations are distinct by construction.",
        "bounds": {
            "nnsp_point_menu": POINT_MENU,
            "nnsp_sample_sizes": list(SIZES),
            "nnsp_multisets_per_menu": nm,
            "nnsp_ordered_pairs_per_menu_and_k": nm * nm,
            "nnsp_k": list(KS),
            "nnsp_row_orders": list(ROW_ORDERS[tier]),
            "nndvi_batch_menu": BATCH_MENU,
            "nndvi_sequence_length": NNDVI_LEN[tier],
            "nndvi_sequences_per_configuration": 4 ** NNDVI_LEN[tier],
            "nndvi_k_nn": list(K_NN),
            "nndvi_sampling_times": list(SAMPLING_TIMES),
            "nndvi_alpha": list(ALPHAS),
            "nndvi_configurations": 2 * len(K_NN) * len(SAMPLING_TIMES) * len(ALPHAS),
        },
        "explanation": "states = distinct inputs (NNSP) + tree nodes (NNDVI); transitions = real build() calls (two "
        "per NNSP evaluation) + real update() calls; traces_validated_against_impl = NNSP evaluations + maximal "
        "NNDVI histories, each compared with the specification after every call.",
        "assumptions": [
            "draw protocol of the permutation threshold: sampling_times x numpy.random.permutation(v_ref) with "
            "v_ref in the order of the sorted union D, v2 = 1 - v1, under the per-step seed schedule (DESIGN §2.3)",
            "a threshold fitted to permutation distances that are all equal is degenerate: scipy returns NaN for "
            "scale 0 (no drift); when rounding makes the spread tiny instead, 'd > common value' is accepted too "
            "(only when d is not below the common value; counted as degenerate_threshold_followed_impl)",
            "NNDVI batch menus are free of kNN boundary ties (k <= 2), so the kNN relation is unique and the model "
            "uses its own brute-force neighbours; ties are covered by the NNSP enumeration with a tie-tolerant oracle",
            "the numeric value of the threshold is additionally compared through the private static helper "
            "NNDVI._compute_drift_threshold when it exists (sharpening only; skipped if unavailable)",
            "decisions within relative 1e-9 of the threshold are numerically undecidable and follow the "
            "implementation (near_tie_steered); scipy.stats.norm.ppf and exact Fraction arithmetic are trusted",
        ],
    }
