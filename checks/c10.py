"""C10 -- NN-DVI measures neighbourhood density change between exactly the given batches.

Two systems (DESIGN §4 C10):

* ``NNSP``  -- NNSpacePartitioner, exhaustive *input* enumeration ("fn" tasks): every ordered
  pair of point multisets with sizes 1-4 x 1-4 from a 5-point menu (1-D and 2-D), every
  k in {1,2,3} with k <= |D|.  Oracles: D is the sorted de-duplicated union; v1 / v2 are exactly
  the membership indicators of sample 1 / sample 2 over D; every adjacency row is a k-nearest-
  neighbour set that contains the point itself (tie-tolerant brute force, exact rational
  distances); nnps_matrix is the weight-normalised adjacency; the distance is symmetric in the
  samples (second build with the samples swapped), lies in [0,1], is 0 when both samples are the
  same set and equals sum|a-b|/(a+b)/|D| recomputed from D, the memberships and the adjacency.
* ``NNDVI`` -- the detector in lock-step with models.nnsp.NNDVIModel over all batch sequences
  from a menu of 4 after ``set_reference``; same-seed permutation threshold (DESIGN §2.3).

Round-3 families (EXTENDING.md; every one is a set of *additional* tasks whose label names it):

* NNSP: integer-typed samples, integer sample vs. float64 sample (shared integral points, float
  points that truncate onto integer points), float32 samples alone and against float64 samples
  (decimals that are not float32 numbers), integer lattices in 1-D / 2-D with k up to 4 (many
  exact distance ties; unions of 6 points so that sklearn's tree search is reached), 3-D points,
  and points at level 1e6 with a spread of a few units (kNN judged with the absolute error a
  correct float implementation commits on squared distances at that level).
* NNDVI: the same value families as batches (int64 / float32 / DataFrame incl. integer, float32
  and mixed-dtype frames with unsorted labels and a non-default index, containers and dtypes
  mixed across one history), lattice batches whose pooled kNN relation is not unique (the
  decision must be the one some valid relation yields), 3-D, level 1e6, sampling_times 1-3,
  alpha 1e-6 / 0.999, a batch equal to the reference as a set (other multiplicities and row
  order), ``set_reference`` called by the user mid-history and right after a drift, and
  ``NNDVIx``: several detectors with different parameters interleaved call by call.

Round-4 families (objects that are used again):

* NNDVI ``reuse``: the caller keeps ONE container per shape (2-D ndarray C / Fortran ordered, a row slice and a
  transposed view of a capacity buffer, DataFrame, 1-D ndarray, 1-D slice, Series; float64 / int64 / float32), refills it
  in place and passes the same object to ``set_reference`` and to every ``update`` (also to a user's ``set_reference``
  mid-history); the reference must stay the batch that was given when the container is refilled and when every
  container is overwritten after the history.  Every history is executed from scratch (no snapshots).
* ``NNSPr``: ONE NNSpacePartitioner object built for every sequence of sample pairs (sizes 1-2 x 1-2 over 3 points), fed
  from the caller's two reused buffers which are overwritten right after each build; all NNSP oracles after every build.
"""
import itertools
import math
import time

import numpy as np
import pandas as pd

from menelaus.data_drift import NNDVI
from menelaus.partitioners import NNSpacePartitioner

from mc import rng
from mc.explorer import Ctx, HarnessError, System, Violation, artefact, jsonable, _same
from mc.numeric import close, diff_keys, lockstep
from mc.observe import batch_obs
from models import nnsp as M

PROPERTY = "C10"

# ======================================================================= NNSP (exhaustive inputs)
POINT_MENU = {
    # 1-D: 1 is equidistant from 0 and 2 (kNN boundary ties), one non-integer value
    "1d": [[0.0], [1.0], [2.0], [4.0], [7.5]],
    # 2-D: unit square (ties for k = 2, lexicographic order differs from row order) + outlier
    #      equidistant from (1,0) and (1,1)
    "2d": [[0.0, 0.0], [1.0, 0.0], [0.0, 1.0], [1.0, 1.0], [3.0, 0.5]],
}
# ---- round 3 menus
POINT_MENU.update({
    # integer-valued versions (int64 samples); "2d-half" is the float64 partner: shares the
    # integral points (0,0), (1,0) and holds points that truncate onto integer menu points
    "2d-int": [[0, 0], [1, 0], [0, 1], [1, 1], [3, 1]],
    "2d-half": [[0, 0], [1, 0], [0.5, 1], [1, 1.5], [3, 0.5]],
    # integer lattices: equally spaced points, every interior point has tied neighbours
    "1d-lat": [[0], [1], [2], [3], [4]],
    "2d-lat": [[0, 0], [1, 0], [2, 0], [0, 1], [1, 1], [2, 1]],
    # decimals that are not float32 (nor float64) numbers; "2d-dec64" is the float64 partner of a
    # float32 sample: shares the dyadic points (0.5,0.25), (1.5,0.25) exactly, its other points are
    # far from every float32 point (no pair of points closer than 0.4: a pair at distance ~1e-9 --
    # the same decimal in both precisions -- would not be resolvable by any float kNN search)
    "2d-dec": [[0.5, 0.25], [1.5, 0.25], [0.1, 1.3], [1.1, 1.7], [3.3, 0.7]],
    "2d-dec64": [[0.5, 0.25], [1.5, 0.25], [0.6, 1.9], [2.3, 1.2], [3.9, 1.4]],
    # 3-D: unit-square face + points off the plane, ties for k = 2, 3
    "3d": [[0, 0, 0], [1, 0, 0], [0, 1, 0], [1, 1, 1], [3, 0.5, 2]],
    # level 1e6, spread of a few units, decimals (so that a float32 round trip moves every point)
    "2d-big": [[1e6 + 0.0, 1e6 + 0.0], [1e6 + 1.1, 1e6 + 0.3], [1e6 + 2.7, 1e6 + 2.2],
               [1e6 + 0.4, 1e6 + 3.9], [1e6 + 7.9, 1e6 + 5.3]],
    "1d-big": [[1e6], [1e6 + 1.1], [1e6 + 2.7], [1e6 + 5.2], [1e6 + 9.9]],
})
# Absolute error allowed on a squared distance at level 1e6 in <= 2-D: a correct implementation may
# evaluate |x-y|^2 as |x|^2 + |y|^2 - 2xy (sklearn's brute-force search does), whose rounding error is
# a few ulp of |x|^2 ~ 2e12, i.e. ~ 1e-3; 64 * eps * 2e12 = 0.03 bounds it with a margin.  The menus
# are chosen so that competing squared distances differ by > 0.3 (checked when the tasks are built),
# so the tolerance never decides anything on these menus -- it only keeps the oracle honest.
BIG_TOL = 64 * 2.220446049250313e-16 * 2e12
# (menu of sample 1, menu of sample 2 or None, form, sizes, ks, knn tolerance, family)
NNSP_FAMILIES = [
    ("2d-int", None, "i64", (1, 2, 3), (1, 2, 3), 0, "int"),
    ("2d-int", "2d-half", "i64/f64", (1, 2, 3), (2, 3), 0, "int-vs-float"),
    ("2d-dec", None, "f32", (1, 2, 3), (2,), 0, "float32"),
    ("2d-dec", "2d-dec64", "f32/f64", (1, 2, 3), (2,), 0, "float32-vs-float64"),
    ("1d-lat", None, "i64", (1, 2, 3), (2, 3), 0, "lattice"),
    ("2d-lat", None, "i64", (1, 2, 3), (2, 4), 0, "lattice"),
    ("3d", None, "f64", (1, 2, 3), (2, 3), 0, "3d"),
    ("2d-big", None, "f64", (1, 2, 3), (2, 3), BIG_TOL, "level1e6"),
    ("1d-big", None, "f64", (1, 2, 3), (2,), BIG_TOL, "level1e6"),
]
SIZES = (1, 2, 3, 4)
KS = (1, 2, 3)
ROW_ORDERS = {"quick": ("asc",), "thorough": ("asc", "desc-asc")}
MAX_ART_PER_SIG = 1


def _rows(menu, idx, order):
    idx = list(idx)
    if order == "desc":
        idx = idx[::-1]
    return [list(POINT_MENU[menu][i]) for i in idx]


_NP_DTYPE = {"f64": np.float64, "i64": np.int64, "f32": np.float32}


def _arr(rows, form):
    """The sample as the caller would hold it: an ndarray of the family's dtype."""
    a = np.array(rows, dtype=float)
    if form == "i64" and not np.all(a == np.floor(a)):
        raise HarnessError("HARNESS-CRASH: integer family with non-integral menu value %r" % (rows,))
    return a.astype(_NP_DTYPE[form])


def _exact(a):
    """Rows of the values actually handed over (float32 / int64 -> float64 is exact)."""
    return [[float(x) for x in r] for r in np.asarray(a).astype(np.float64).reshape(len(a), -1)]


class _Skip(Exception):
    """k exceeds the number of distinct pooled points: outside what the class documents."""


def _flt(a):
    return [float(x) for x in np.asarray(a, dtype=float).ravel()]


def _judge_partition(p, d_fwd, d_rev, s1, s2, k, tol):
    """Every NNSP oracle on one built partitioner ``p`` (s1 / s2: the exact rows given; d_fwd: its distance;
    d_rev: the distance of the build with the samples swapped, or None).  Raises the first Violation."""
    D = M.union(s1, s2)
    n = len(D)
    e1 = M.membership(D, s1)
    e2 = M.membership(D, s2)
    unequal = len(s1) != len(s2)
    shared = sum(1 for a, b in zip(e1, e2) if a and b)
    within = len(set(map(tuple, s1))) < len(s1) or len(set(map(tuple, s2))) < len(s2)
    same_set = e1 == e2
    size_cls = "unequal-sizes" if unequal else "equal-sizes"
    fails = []

    def fail(sub, msg, expected, observed, sig=None):
        fails.append(Violation(sub, msg, expected=expected, observed=observed, sig=sig or sub))

    # --- D: de-duplicated union, sorted
    D_obs = np.asarray(p.D, dtype=float)
    D_exp = [[float(x) for x in pt] for pt in D]
    if D_obs.ndim != 2 or D_obs.tolist() != D_exp:
        fail("nnsp-union", "D is not the sorted de-duplicated union of the two samples (s1=%r s2=%r)" % (s1, s2),
             D_exp, D_obs.tolist())
    # --- v1 / v2: exact membership indicators
    v1_obs, v2_obs = _flt(p.v1), _flt(p.v2)
    if v1_obs != [float(x) for x in e1] or v2_obs != [float(x) for x in e2]:
        fail("nnsp-membership",
             "v1/v2 are not the membership indicators of sample 1 / sample 2 over D=%r for sizes %d,%d "
             "(s1=%r s2=%r)" % (D_exp, len(s1), len(s2), s1, s2),
             {"v1": e1, "v2": e2}, {"v1": v1_obs, "v2": v2_obs},
             sig="nnsp-membership|" + size_cls)
    # --- adjacency: kNN relation, self included
    adj = np.asarray(p.adjacency_matrix, dtype=float)
    adj_ok = adj.shape == (n, n)
    if not adj_ok:
        fail("nnsp-adjacency", "adjacency_matrix has shape %r, |D| = %d" % (adj.shape, n), [n, n], list(adj.shape))
    else:
        for i in range(n):
            why = M.knn_row_defect(D, i, adj[i].tolist(), k, tol)
            if why:
                adj_ok = False
                fail("nnsp-adjacency", "adjacency_matrix is not the %d-NN relation of D=%r: %s" % (k, D_exp, why),
                     "k nearest points incl. itself", adj.tolist())
                break
    tie = M.has_boundary_tie(D, k)
    if tie and tol:
        raise HarnessError("HARNESS-CRASH: the level-1e6 menus are meant to be free of exact ties")
    # --- nnps matrix: weight-normalised adjacency
    if adj_ok:
        P_exp = [[float(x) for x in r] for r in M.weight_normalised(adj.astype(int).tolist())]
        P_obs = np.asarray(p.nnps_matrix, dtype=float)
        if P_obs.shape != (n, n) or P_obs.tolist() != P_exp:
            fail("nnsp-nnps-matrix", "nnps_matrix is not the weight-normalised adjacency matrix", P_exp, P_obs.tolist())
    # --- distance: formula, range, identity, symmetry
    if adj_ok:
        d_exp = M.distance(adj.astype(int).tolist(), e1, e2)
        if d_exp is None or not close(float(d_exp), d_fwd):
            fail("nnsp-distance-formula",
                 "distance %r differs from sum|a-b|/(a+b)/|D| = %s recomputed from D, the memberships and the "
                 "adjacency (s1=%r s2=%r k=%d)" % (d_fwd, d_exp, s1, s2, k),
                 None if d_exp is None else float(d_exp), d_fwd, sig="nnsp-distance-formula|" + size_cls)
    if math.isnan(d_fwd) or d_fwd < -1e-12 or d_fwd > 1 + 1e-12:
        fail("nnsp-distance-range", "distance %r outside [0,1] (s1=%r s2=%r k=%d)" % (d_fwd, s1, s2, k),
             "[0,1]", d_fwd, sig="nnsp-distance-range|" + size_cls)
    if same_set and not (abs(d_fwd) <= 1e-12):
        fail("nnsp-distance-identity",
             "both samples are the same set but the distance is %r (s1=%r s2=%r k=%d)" % (d_fwd, s1, s2, k),
             0.0, d_fwd, sig="nnsp-distance-identity|" + size_cls)
    if d_rev is not None and not close(d_fwd, d_rev):
        fail("nnsp-distance-symmetry",
             "distance(s1,s2) = %r but distance(s2,s1) = %r (s1=%r s2=%r k=%d)" % (d_fwd, d_rev, s1, s2, k),
             d_rev, d_fwd, sig="nnsp-distance-symmetry|" + size_cls)

    if fails:
        v = fails[0]
        others = sorted({f.sub for f in fails[1:]} - {v.sub})
        if others:
            v.msg += " [also failing here: %s]" % ", ".join(others)
        raise v
    return n, D_exp, v1_obs, v2_obs, unequal, shared, within, same_set, tie


class NNSPSystem(System):
    """One event = one pair of samples; the history has length 1 (so --replay works)."""

    name = "NNSP"

    def init(self, cfg):
        return {}

    def alphabet(self, cfg, state, pos):
        return []

    def step(self, cfg, state, ev, pos, ctx):
        k = cfg["k"]
        form = cfg.get("form", "f64")
        f1, f2 = form.split("/") if "/" in form else (form, form)
        tol = cfg.get("knn_tol", 0)
        A = _arr(ev["s1"], f1)
        B = _arr(ev["s2"], f2)
        # from here on s1 / s2 are the exact values of the arrays handed over
        s1, s2 = _exact(A), _exact(B)
        if k > len(M.union(s1, s2)):
            raise _Skip()
        try:
            p = NNSpacePartitioner(k)
            p.build(A.copy(), B.copy())
            d_fwd = float(NNSpacePartitioner.compute_nnps_distance(p.nnps_matrix, p.v1, p.v2))
            q = NNSpacePartitioner(k)
            q.build(B.copy(), A.copy())
            d_rev = float(NNSpacePartitioner.compute_nnps_distance(q.nnps_matrix, q.v1, q.v2))
        except Exception as e:  # the property covers any two samples of any sizes
            raise Violation(
                "nnsp-exception",
                "NNSpacePartitioner(k=%d) raised %s: %s on s1=%r s2=%r" % (k, type(e).__name__, e, s1, s2),
                expected="a partition", observed=repr(e),
            )

        n, D_exp, v1_obs, v2_obs, unequal, shared, within, same_set, tie = _judge_partition(
            p, d_fwd, d_rev, s1, s2, k, tol)

        if unequal:
            ctx.mark("unequal_size_pairs")
        if shared:
            ctx.mark("cross_sample_duplicate_pairs")
        if within:
            ctx.mark("within_sample_duplicate_pairs")
        if tie:
            ctx.mark("knn_boundary_tie_builds")
        if unequal and shared:
            ctx.count("unequal_size_pairs_with_cross_duplicates")
        if same_set:
            ctx.count("same_set_pairs")
            if unequal:
                ctx.count("same_set_pairs_of_unequal_size")
        if d_fwd == 0.0:
            ctx.count("nnsp_distance_zero")
        elif d_fwd == 1.0:
            ctx.count("nnsp_distance_one")
        else:
            ctx.count("nnsp_distance_strictly_between")
        if not same_set and d_fwd == 0.0:
            ctx.count("distance_zero_for_different_sets")
        fam = cfg.get("family")
        if fam:
            ctx.count("nnsp_family_%s_pairs" % fam)
            if tie:
                ctx.count("nnsp_family_%s_tie_builds" % fam)
            if f1 != f2 and shared:
                ctx.count("nnsp_points_shared_across_dtypes")
            if n >= 6 and 2 <= k < n // 2:
                ctx.count("nnsp_builds_with_6_points_and_k_below_half")
        return {"D": D_exp, "v1": v1_obs, "v2": v2_obs, "distance": d_fwd, "distance_swapped": d_rev}


def run_nnsp(task, seed):
    """All ordered pairs (multiset of size n1, multiset of size n2) for one (menu, k, row order)."""
    t0 = time.time()
    system = SYSTEMS["NNSP"]
    cfg = task["cfg"]
    menu, k = cfg["menu"], cfg["k"]
    o1, o2 = task["orders"]
    ctx = Ctx(seed)
    st = ctx.stats
    violations, samples = [], []
    per_sig = {}
    menu2 = cfg.get("menu2") or menu
    pts = range(len(POINT_MENU[menu]))
    pts2 = range(len(POINT_MENU[menu2]))
    part, nparts = task.get("part", (0, 1))
    for j1, i1 in enumerate(itertools.combinations_with_replacement(pts, task["n1"])):
        if j1 % nparts != part:
            continue
        for i2 in itertools.combinations_with_replacement(pts2, task["n2"]):
            if menu2 == menu and "/" not in cfg.get("form", "") and k > len(set(i1) | set(i2)):
                st["skipped_k_exceeds_union"] += 1
                continue
            ev = {"s1": _rows(menu, i1, o1), "s2": _rows(menu2, i2, o2)}
            ctx.marks = 0
            try:
                obs = system.step(cfg, {}, ev, 0, ctx)
            except _Skip:
                st["skipped_k_exceeds_union"] += 1
                continue
            except Violation as v:
                st["violations_raw"] += 1
                st["violations_raw:" + v.sig] += 1
                per_sig[v.sig] = per_sig.get(v.sig, 0) + 1
                if per_sig[v.sig] <= MAX_ART_PER_SIG:
                    try:
                        system.step(cfg, {}, ev, 0, Ctx(seed, collect=False))
                        raise HarnessError("HARNESS-NONDET: NNSP violation did not reproduce: %r" % (ev,))
                    except Violation as v2:
                        if (v2.sub, v2.msg) != (v.sub, v.msg):
                            raise HarnessError("HARNESS-NONDET: NNSP violation changed on re-execution: %r" % (ev,))
                    violations.append(artefact(PROPERTY, system, cfg, seed, [ev], v))
                continue
            st["states"] += 1
            st["transitions"] += 2  # two real builds (samples as given and swapped)
            st["executions"] += 1
            if ctx.marks:
                st["nontrivial_executions"] += 1
            if st["executions"] % 499 == 1:
                obs2 = system.step(cfg, {}, ev, 0, Ctx(seed, collect=False))
                if not _same(obs, obs2):
                    raise HarnessError("HARNESS-NONDET: NNSP build is not repeatable on %r" % (ev,))
                st["fresh_replays"] += 1
            if len(samples) < 1 or (ctx.marks >= 3 and len(samples) < 2):
                samples.append({"system": "NNSP", "cfg": jsonable(cfg), "events": [jsonable(ev)],
                                "last_obs": jsonable(obs), "nontrivial_events": ctx.marks})
    return {"stats": dict(st), "violations": violations, "samples": samples, "wall": time.time() - t0}


# ======================================================================= NNSPr (one partitioner object, reused; round 4)
NNSPR_CAP = 4  # rows of the caller's two preallocated sample buffers
# 3 points of a point menu each: every ordered pair of multisets of size 1-2 over them is an event (69 / 81 events),
# every sequence of NNSPR_LEN builds on the one object is explored.  Unions of 1-3 points, so consecutive builds have
# unions of different and of equal sizes (with other memberships); [0, 1, 2] of "2d" has tied neighbours for k = 2.
NNSPR_CONFIGS = [
    {"menu": "2d", "pts": [0, 1, 2], "k": 2},
    {"menu": "2d", "pts": [0, 3, 4], "k": 1},
    {"menu": "2d-int", "pts": [0, 1, 4], "k": 2, "form": "i64"},
]
NNSPR_LEN = {"quick": 2, "thorough": 3}


def _nnspr_events(cfg):
    """Every ordered pair (multiset of size 1-2, multiset of size 1-2) over the configuration's points whose union has
    at least k points; an event is [[indices of sample 1], [indices of sample 2]]."""
    n = len(cfg["pts"])
    ms = [list(c) for size in (1, 2) for c in itertools.combinations_with_replacement(range(n), size)]
    return [[a, b] for a in ms for b in ms if len(set(a) | set(b)) >= cfg["k"]]


class NNSPReusedSystem(System):
    """ONE NNSpacePartitioner object built again and again (the property speaks of *any* two samples, not of the first
    two an object sees), fed from the caller's two preallocated buffers (views ``buf[:n]``, refilled in place for every
    build and overwritten right after it).  After every build all NNSP oracles are applied to the object's attributes:
    nothing of an earlier build (one-hot vectors, union, neighbour index) and nothing of the caller's buffers may show."""

    name = "NNSPr"

    def init(self, cfg):
        return {"p": NNSpacePartitioner(cfg["k"]), "bufs": {}, "last": None}

    def alphabet(self, cfg, state, pos):
        return _nnspr_events(cfg)

    def step(self, cfg, state, ev, pos, ctx):
        k, form = cfg["k"], cfg.get("form", "f64")
        menu = POINT_MENU[cfg["menu"]]
        given = []
        views = []
        for role, idx in zip("ab", ev):
            a = _arr([list(menu[cfg["pts"][i]]) for i in idx], form)
            buf = state["bufs"].setdefault(role, np.zeros((NNSPR_CAP, a.shape[1]), dtype=a.dtype))
            buf[:len(a)] = a
            views.append(buf[:len(a)])
            given.append(_exact(a))
        s1, s2 = given
        p = state["p"]
        try:
            p.build(views[0], views[1])
            # the caller's read loop goes on: both buffers are overwritten before the results are looked at
            for buf in state["bufs"].values():
                buf[...] = REUSE_SCRIBBLE
            d = float(NNSpacePartitioner.compute_nnps_distance(p.nnps_matrix, p.v1, p.v2))
        except Exception as e:
            raise Violation("nnsp-exception", "NNSpacePartitioner(k=%d), build number %d on the same object, raised %s: %s "
                            "on s1=%r s2=%r" % (k, pos + 1, type(e).__name__, e, s1, s2),
                            expected="a partition", observed=repr(e), sig="nnsp-exception|reused-partitioner")
        try:
            n, D_exp, v1_obs, v2_obs, unequal, shared, within, same_set, tie = _judge_partition(p, d, None, s1, s2, k, 0)
        except Violation as v:
            v.msg = ("build number %d on ONE partitioner object (fed from the caller's two reused buffers, overwritten "
                     "after the build; previous build: %r): %s" % (pos + 1, state["last"], v.msg))
            v.sig = "%s|reused-partitioner" % v.sub
            raise
        ctx.count("nnspr_builds")
        if pos:
            ctx.mark("nnspr_builds_on_a_used_partitioner")
            pn, pv1, pv2 = state["last_shape"]
            if pn != n:
                ctx.count("nnspr_rebuilds_with_another_union_size")
            elif (pv1, pv2) != (v1_obs, v2_obs):
                ctx.count("nnspr_rebuilds_same_union_size_other_membership")
        if tie:
            ctx.count("nnspr_builds_with_knn_boundary_tie")
        state["last"] = [s1, s2]
        state["last_shape"] = (n, v1_obs, v2_obs)
        return {"D": D_exp, "v1": v1_obs, "v2": v2_obs, "distance": d}


# ======================================================================= NNDVI (lock-step model)
def _col(xs):
    return [[float(x)] for x in xs]


def _pts(rows):
    return [[float(x) for x in r] for r in rows]


def _shift(rows, by):
    return [[x + by for x in r] for r in rows]


# Batches are tie-free for k <= 2 in every union reference U batch that can occur (checked when the
# task list is built), have unequal sizes (4..8 rows vs. a 5/6-row reference; 1-D batch 1 has the
# size of the reference so that drift also occurs between equal-sized batches), share
# points with the reference (batch 0, 2, 3) and contain duplicate rows (batch 3).
BATCH_MENU = {
    "1d": {
        "ref": _col([0, 1, 2.5, 4.5, 7, 10.5]),
        "menu": [
            _col([0, 1, 2.5, 4.5, 7, 11]),            # the reference with one point moved (6 rows)
            _col([20, 21.5, 23.5, 26, 29.5, 34]),      # far away, same size as the reference (6 rows)
            _col([4.5, 7, 10.5, 20, 21.5]),            # straddles both regions (5 rows)
            _col([0, 0, 1, 30, 30, 33.5, 38, 38]),     # duplicates inside the batch (8 rows)
        ],
    },
    "2d": {
        "ref": _pts([[0, 0], [1, 0.75], [2.5, 0.25], [0.5, 2.25], [3.25, 2.5]]),
        "menu": [
            _pts([[0, 0], [1, 0.75], [2.5, 0.25], [0.5, 2.25], [3.75, 3.25]]),
            _pts([[10, 10], [11, 10.75], [12.5, 10.25], [10.5, 12.25], [13.25, 12.5], [11.75, 14.5], [15, 11.25]]),
            _pts([[0.5, 2.25], [3.25, 2.5], [10, 10], [11, 10.75]]),
            _pts([[0, 0], [0, 0], [12.5, 10.25], [12.5, 10.25], [14.25, 13.75], [16.5, 11]]),
        ],
    },
}
# ---- round 3 menus.  "-ms": batch 3 is the reference *as a set* with other multiplicities and row order.
BATCH_MENU["1d-ms"] = {
    "ref": BATCH_MENU["1d"]["ref"],
    "menu": BATCH_MENU["1d"]["menu"][:3] + [_col([7, 0, 10.5, 10.5, 1, 4.5, 2.5, 0, 0])],
}
BATCH_MENU["2d-ms"] = {
    "ref": BATCH_MENU["2d"]["ref"],
    "menu": BATCH_MENU["2d"]["menu"][:3]
    + [_pts([[3.25, 2.5], [0, 0], [0.5, 2.25], [0.5, 2.25], [1, 0.75], [2.5, 0.25], [0, 0]])],
}
# integral where possible (int64 / integer frames), batch 2 needs float64: mixed dtypes across one
# history; tie-free like the "2d" menu it is derived from (doubled coordinates)
BATCH_MENU["2d-int"] = {
    "ref": _pts([[0, 0], [2, 1], [5, 1], [1, 5], [7, 5]]),
    "menu": [
        _pts([[0, 0], [2, 1], [5, 1], [1, 5], [8, 7]]),
        _pts([[20, 20], [22, 21], [25, 20], [21, 25], [27, 25], [23, 29], [30, 23]]),
        _pts([[1, 5], [7, 5], [20, 20], [22.5, 21.5]]),     # (22.5, 21.5) truncates to (22, 21): a point of batch 1
        _pts([[7, 5], [0, 0], [1, 5], [1, 5], [2, 1], [5, 1], [0, 0]]),   # the reference as a set
    ],
}
# integer lattice: the pooled kNN relation is never unique
BATCH_MENU["2d-lat"] = {
    "ref": _pts([[0, 0], [1, 0], [2, 0], [0, 1], [1, 1], [2, 1]]),
    "menu": [
        _pts([[1, 0], [2, 0], [3, 0], [1, 1], [2, 1], [3, 1]]),          # the lattice moved by one column
        _pts([[10, 10], [11, 10], [10, 11], [11, 11], [12, 10]]),         # far lattice
        _pts([[2, 1], [0, 0], [1, 1], [1, 1], [2, 0], [0, 1], [1, 0], [0, 0]]),   # the reference as a set
        _pts([[0.5, 0], [1.5, 1], [2, 0.5], [10, 10], [11, 10.5]]),       # half-steps (float64), straddles
    ],
}
# decimals that are not float32 numbers ("2d" menu / 2.5 + 0.1, roughly); as float32 batches, and in a
# mixed history together with float64 batches that share no decimal with a float32 batch
BATCH_MENU["2d-dec"] = {
    "ref": _pts([[0.1, 0.1], [0.5, 0.4], [1.1, 0.2], [0.3, 1.0], [1.4, 1.1]]),
    "menu": [
        _pts([[0.1, 0.1], [0.5, 0.4], [1.1, 0.2], [0.3, 1.0], [1.6, 1.4]]),
        _pts([[4.1, 4.1], [4.5, 4.4], [5.1, 4.2], [4.3, 5.0], [5.4, 5.1], [4.8, 5.9], [6.1, 4.6]]),
        _pts([[0.3, 1.0], [1.4, 1.1], [4.1, 4.1], [4.5, 4.4]]),
        _pts([[1.4, 1.1], [0.1, 0.1], [0.3, 1.0], [0.3, 1.0], [0.5, 0.4], [1.1, 0.2], [0.1, 0.1]]),
    ],
}
BATCH_MENU["3d"] = {
    "ref": _pts([[0, 0, 0], [1, 0.75, 0.5], [2.5, 0.25, 1.25], [0.5, 2.25, 2], [3.25, 2.5, 0.25]]),
    "menu": [
        _pts([[0, 0, 0], [1, 0.75, 0.5], [2.5, 0.25, 1.25], [0.5, 2.25, 2], [3.75, 3.25, 1.5]]),
        _pts([[10, 10, 10], [11, 10.75, 10.5], [12.5, 10.25, 11.25], [10.5, 12.25, 12], [13.25, 12.5, 10.25],
              [11.75, 14.5, 13]]),
        # (0.5, 2.25, 0) and (0.5, 2.25, 2) differ in the third coordinate only
        _pts([[0.5, 2.25, 2], [0.5, 2.25, 0], [10, 10, 10], [11, 10.75, 10.5]]),
        _pts([[3.25, 2.5, 0.25], [0, 0, 0], [0.5, 2.25, 2], [0.5, 2.25, 2], [1, 0.75, 0.5], [2.5, 0.25, 1.25]]),
    ],
}
# level 1e6: the "2d-dec" menu (x 2.5) on top of 1e6 -- a spread of a few units
BATCH_MENU["2d-big"] = {
    key: (_shift([[2.5 * x for x in r] for r in val], 1e6) if key == "ref"
          else [_shift([[2.5 * x for x in r] for r in b], 1e6) for b in val])
    for key, val in BATCH_MENU["2d-dec"].items()
}
TIE_FREE_MENUS = ("1d", "2d", "1d-ms", "2d-ms", "2d-int", "2d-dec", "3d", "2d-big")
K_NN = (1, 2)
SAMPLING_TIMES = (8, 30)
ALPHAS = (0.01, 0.3, 0.6)
NNDVI_LEN = {"quick": 3, "thorough": 5}

# ---- containers / dtypes (round 3).  A form says how a batch reaches the detector.
_DF_LABELS = ["b", "a", "c"]  # deliberately not in sorted order


def _make(rows, form):
    """(object handed to the detector, exact float rows of its values).

    f64 / i64 / f32: ndarray of that dtype; df / dfi / df32: DataFrame of float64 / int64 / float32
    columns; dfm: DataFrame whose first column is int64 when integral (mixed column dtypes);
    'i?' / 'dfi?': integer-typed when every value is integral, else float64.  Frames carry
    labels that are not in sorted order and a descending, non-contiguous index."""
    a = np.array(rows, dtype=float)
    if a.ndim != 2:
        raise HarnessError("HARNESS-CRASH: batch rows must be 2-D: %r" % (rows,))
    integral = bool(np.all(a == np.floor(a)))
    if form.endswith("?"):
        form = form[:-1] if integral else {"i?": "f64", "dfi?": "df"}[form]
    if form in ("i64", "dfi"):
        if not integral:
            raise HarnessError("HARNESS-CRASH: integer form for non-integral batch %r" % (rows,))
        a = a.astype(np.int64)
    elif form in ("f32", "df32"):
        a = a.astype(np.float32)
    if form.startswith("df"):
        n, d = a.shape
        index = [5 + 2 * (n - 1 - i) for i in range(n)]
        if form == "dfm":
            cols = {}
            for j in range(d):
                c = a[:, j]
                cols[_DF_LABELS[j]] = c.astype(np.int64) if (j == 0 and np.all(c == np.floor(c))) else c
            obj = pd.DataFrame(cols, index=index)
        else:
            obj = pd.DataFrame(a, columns=_DF_LABELS[:d], index=index)
    else:
        obj = a
    return obj, _exact(np.asarray(obj))



# ---- caller-owned containers that are REUSED (round 4).  A reuse kind says which ONE object per role (X) and
# shape the caller keeps, refills in place before every call and passes again -- to set_reference and to update alike
# (the preallocated read buffer of a batch loop).  The model sees the values written, never the object.
REUSE_CAP = 12  # rows of the preallocated capacity buffers (>= the longest menu batch; checked)
REUSE_SCRIBBLE = -77  # what the caller leaves in its buffers when the history is over (no menu value; exact in every dtype)
REUSE_KINDS = {
    # kind: (needs 1-D data, description)
    "nd2": (False, "one C-contiguous 2-D ndarray per shape, refilled with buf[...] = batch"),
    "nd2-slice": (False, "one (12, d) capacity ndarray; the first n rows are refilled and the view buf[:n] is passed"),
    "nd2-T": (False, "one (d, 12) capacity ndarray filled column-wise; the non-contiguous view buf[:, :n].T is passed"),
    "nd2-F": (False, "one Fortran-ordered 2-D ndarray per shape, refilled in place"),
    "df": (False, "one DataFrame per shape (labels not sorted, descending index), refilled with df.iloc[:, :] = batch"),
    "nd1": (True, "one 1-D ndarray per length (univariate data), refilled in place"),
    "nd1-slice": (True, "one (12,) capacity ndarray; the view buf[:n] is passed"),
    "series": (True, "one Series per length (non-default index), refilled with s.iloc[:] = batch"),
}


def _reuse_write(kind, store, n, d, dtype, values):
    """Write ``values`` (n x d ndarray, or a scalar) into the caller's container for this shape -- creating it the
    first time -- and return (object to pass, True if the container existed before)."""
    if kind in ("nd2", "nd2-F", "df"):
        key = "%s:%dx%d" % (kind, n, d)
    elif kind in ("nd1", "series"):
        key = "%s:%d" % (kind, n)
    else:
        key = "%s:cap" % kind
    had = key in store
    if kind == "nd2":
        buf = store.setdefault(key, np.zeros((n, d), dtype=dtype))
        buf[...] = values
        return buf, had
    if kind == "nd2-F":
        buf = store.setdefault(key, np.zeros((n, d), dtype=dtype, order="F"))
        buf[...] = values
        return buf, had
    if kind == "nd2-slice":
        buf = store.setdefault(key, np.zeros((REUSE_CAP, d), dtype=dtype))
        buf[:n] = values
        return buf[:n], had
    if kind == "nd2-T":
        buf = store.setdefault(key, np.zeros((d, REUSE_CAP), dtype=dtype))
        buf[:, :n] = values if np.isscalar(values) else np.asarray(values).T
        return buf[:, :n].T, had
    if kind == "df":
        if not had:
            store[key] = pd.DataFrame(np.zeros((n, d), dtype=dtype), columns=_DF_LABELS[:d],
                                      index=[5 + 2 * (n - 1 - i) for i in range(n)])
        store[key].iloc[:, :] = values
        return store[key], had
    col = values if np.isscalar(values) else np.asarray(values)[:, 0]
    if kind == "nd1":
        buf = store.setdefault(key, np.zeros(n, dtype=dtype))
        buf[...] = col
        return buf, had
    if kind == "nd1-slice":
        buf = store.setdefault(key, np.zeros(REUSE_CAP, dtype=dtype))
        buf[:n] = col
        return buf[:n], had
    if kind == "series":
        if not had:
            store[key] = pd.Series(np.zeros(n, dtype=dtype), index=[5 + 2 * (n - 1 - i) for i in range(n)])
        store[key].iloc[:] = col
        return store[key], had
    raise HarnessError("HARNESS-CRASH: unknown reuse kind %r" % (kind,))


def _reuse_fill(cfg, unit, rows, ctx=None):
    """The batch ``rows`` as it reaches the detector in a reuse family: written in place into the caller's ONE
    container for that shape (kept in the explored state: unit["bufs"]), which is then passed -- again."""
    kind, form = cfg["reuse"], _form_of(cfg, "ref")
    a = _arr(rows, form)
    if a.ndim != 2 or len(a) > REUSE_CAP or (REUSE_KINDS[kind][0] and a.shape[1] != 1):
        raise HarnessError("HARNESS-CRASH: reuse kind %s cannot hold a batch of shape %r" % (kind, a.shape))
    store = unit.setdefault("bufs", {})
    n, d = a.shape
    obj, had = _reuse_write(kind, store, n, d, a.dtype, a)
    vals = np.asarray(obj)
    got = _exact(vals.reshape(n, d))
    if vals.dtype != a.dtype or got != _exact(a):
        raise HarnessError("HARNESS-CRASH: the reused %s (%s) does not hold the values written to it" % (kind, form))
    shapes = unit.setdefault("buf_last", {})
    skey = "%dx%d" % (n, d) if kind in ("nd2", "nd2-F", "df", "nd1", "series") else "cap"
    if ctx is not None and had:
        ctx.count("reuse_container_passed_again")
        if shapes.get(skey) != got:
            ctx.mark("reuse_container_overwritten_with_other_values")
    shapes[skey] = got
    if ctx is not None:
        ctx.count("reuse_kind_" + kind)
    return obj, got


def _reuse_scribble(cfg, unit):
    """The history is over: the caller overwrites every container it ever passed."""
    for key, buf in unit.get("bufs", {}).items():
        if isinstance(buf, pd.DataFrame):
            buf.iloc[:, :] = REUSE_SCRIBBLE
        elif isinstance(buf, pd.Series):
            buf.iloc[:] = REUSE_SCRIBBLE
        else:
            buf[...] = REUSE_SCRIBBLE
    unit["buf_last"] = {}


def _form_of(cfg, which):
    f = cfg.get("forms")
    if f is None:
        return "f64"
    if isinstance(f, str):
        return f
    return f["ref"] if which == "ref" else f["menu"][which]


def _decode(ev):
    """int i -> update(menu batch i);  "s<i>" / "sr" -> set_reference(menu batch i / the initial reference)."""
    if isinstance(ev, int):
        return "update", ev
    if isinstance(ev, str) and ev[:1] == "s":
        return "set_reference", ("ref" if ev[1:] == "r" else int(ev[1:]))
    raise HarnessError("HARNESS-CRASH: unknown NNDVI event %r" % (ev,))


def _batch(cfg, which, unit=None, ctx=None):
    m = BATCH_MENU[cfg["menu"]]
    rows = m["ref"] if which == "ref" else m["menu"][which]
    if cfg.get("reuse"):
        return _reuse_fill(cfg, unit, rows, ctx)
    return _make(rows, _form_of(cfg, which))


def _new_unit(cfg, seed_id):
    det = NNDVI(k_nn=cfg["k_nn"], sampling_times=cfg["sampling_times"], alpha=cfg["alpha"])
    unit = {"aux": {"user_ref": False, "updates": 0}}
    obj, rows = _batch(cfg, "ref", unit)  # reuse families: the caller's container is born here, inside the state
    rng.seed_step(0, seed_id, "set_reference")
    det.set_reference(obj)
    model = M.NNDVIModel(cfg["k_nn"], cfg["sampling_times"], cfg["alpha"])
    model.set_reference(rows)
    unit.update(det=det, model=model)
    return unit


def _probe(cfg, ref_before, X, seed, seed_id, pos):
    """(threshold, adjacency) through the public partitioner and the (private) static helper, from
    the same seed.  Sharpening only: never decides alone; None where unavailable."""
    try:
        part = NNSpacePartitioner(cfg["k_nn"])
        part.build(ref_before, X)
        adj = np.asarray(part.adjacency_matrix)
        hint = [[int(x) for x in r] for r in adj.tolist()] if adj.ndim == 2 else None
    except Exception:
        return None, None
    fn = getattr(NNDVI, "_compute_drift_threshold", None)
    if fn is None:
        return None, hint
    try:
        rng.seed_step(seed, seed_id, pos)
        return float(fn(part.nnps_matrix, part.v1, part.v2, cfg["sampling_times"], cfg["alpha"])), hint
    except Exception:
        return None, hint


def _reuse_after_history(cfg, unit, ctx, pos):
    """Reuse families, after the last call of the history: the caller overwrites every container it ever passed
    (whatever their shapes); the reference must still be the batch that was given / that raised the last alarm."""
    det, model = unit["det"], unit["model"]
    _reuse_scribble(cfg, unit)
    ref = np.asarray(det.reference_batch, dtype=float).tolist()
    exp = [[float(x) for x in r] for r in model.ref]
    if ref != exp:
        raise Violation("nndvi-reference",
                        "NNDVI %s: after call %d the caller overwrote its (reused) containers with %r and "
                        "reference_batch followed: it is no longer the batch that was given" % (cfg["id"], pos + 1, REUSE_SCRIBBLE),
                        expected={"reference": exp}, observed={"reference": ref},
                        sig="nndvi-reference|caller-container-overwritten")
    ctx.count("reuse_histories_ending_with_all_containers_overwritten")


def _unit_step(cfg, unit, ev, pos, ctx, seed_id, last_pos):
    """One call on one detector + its model; all oracles; returns the observation."""
    det = unit["det"]
    aux = unit["aux"]
    fam = cfg.get("family")
    kind, which = _decode(ev)
    ref_before = np.array(det.reference_batch, dtype=float, copy=True)  # before the caller touches its containers
    state_before = det.drift_state
    obj, batch = _batch(cfg, which, unit, ctx)
    reuse = cfg.get("reuse")
    if reuse:
        # the caller has just refilled its container for this call; nothing has been called yet
        ref_now = np.asarray(det.reference_batch, dtype=float)
        if ref_now.shape != ref_before.shape or ref_now.tolist() != ref_before.tolist():
            raise Violation("nndvi-reference",
                            "NNDVI %s: reference_batch changed while the caller refilled its reused container (%s, %s) "
                            "for call %d (%s of batch %s): the reference is not the batch that was given but follows "
                            "the caller's object" % (cfg["id"], reuse, _form_of(cfg, "ref"), pos + 1, kind, which),
                            expected={"reference": ref_before.tolist()}, observed={"reference": ref_now.tolist()},
                            sig="nndvi-reference|caller-container-overwritten")

    if kind == "set_reference":
        rng.seed_step(ctx.seed, seed_id, pos)
        try:
            det.set_reference(obj)
        except Exception as e:
            raise Violation("nndvi-exception", "NNDVI.set_reference raised %s: %s at call %d"
                            % (type(e).__name__, e, pos + 1), expected="a new reference", observed=repr(e))
        obs = batch_obs(det)
        obs["reference"] = np.asarray(det.reference_batch, dtype=float).tolist()
        if obs["reference"] != batch:
            raise Violation("nndvi-set-reference",
                            "NNDVI %s: after set_reference (call %d, %s) reference_batch is not the batch given"
                            % (cfg["id"], pos + 1, "right after a drift" if state_before == "drift" else "mid-history"),
                            expected={"reference": batch}, observed=obs)
        model = unit["model"]
        model.set_reference(batch)
        # lifecycle attributes after a user's set_reference are C01/C02's business, not judged here
        model.state, model.total, model.since = obs["state"], obs["total"], obs["since"]
        aux["user_ref"] = True
        ctx.mark("user_set_reference_calls")
        if aux["updates"]:
            ctx.count("user_set_reference_mid_history")
        if state_before == "drift":
            ctx.count("user_set_reference_right_after_drift")
        if fam:
            ctx.count("nndvi_family_%s_steps" % fam)
        if reuse:
            ctx.count("reuse_set_reference_calls")
            if pos == last_pos:
                _reuse_after_history(cfg, unit, ctx, pos)
        return obs

    rng.seed_step(ctx.seed, seed_id, pos)
    try:
        det.update(obj)
    except Exception as e:
        raise Violation("nndvi-exception", "NNDVI.update raised %s: %s at step %d" % (type(e).__name__, e, pos + 1),
                        expected="an update", observed=repr(e))
    obs = batch_obs(det)
    obs["reference"] = np.asarray(det.reference_batch, dtype=float).tolist()
    X = np.array(batch, dtype=float)
    theta_impl, hint = _probe(cfg, ref_before, X, ctx.seed, seed_id, pos)
    obs["theta_probe"] = theta_impl
    follow = obs["state"] == "drift"
    tol = cfg.get("knn_tol", 0)

    def call(m, D):
        rng.seed_step(ctx.seed, seed_id, pos)  # same draws as the real call
        return m.step(batch, D, follow=follow, hint=hint, tol=tol)

    model, exp, ok = lockstep(unit["model"], call, lambda e: not diff_keys(e, obs), stats=ctx.stats)
    unit["model"] = model
    info = model.last
    if info["relations"] > 1 and cfg["menu"] in TIE_FREE_MENUS:
        raise HarnessError("HARNESS-CRASH: NNDVI batch menu %s is not tie-free" % cfg["menu"])
    size_cls = "unequal-sizes" if info["unequal"] else "equal-sizes"
    if not ok or exp["reference"] != obs["reference"]:
        bad = diff_keys(exp, obs) or ["reference"]
        if "state" in bad:
            sub = "nndvi-decision"
            what = ("drift decision %r, but d = %.12g vs theta = %.12g (degenerate=%s%s) demands %r"
                    % (obs["state"], info["d"], info["theta"], info["degenerate"],
                       "" if info["relations"] == 1 else "; every one of the %d valid kNN relations" % info["relations"],
                       exp["state"]))
        elif "reference" in bad:
            sub = "nndvi-reference"
            what = "reference_batch is not %s" % ("the test batch after drift" if exp["state"] == "drift" else "kept")
        else:
            sub = "nndvi-counters"
            what = "lifecycle counters differ on %s" % bad
        raise Violation(sub, "NNDVI %s: %s at update %d (batch %s%s, %d rows vs. reference of %d rows; implementation "
                        "threshold via helper = %r)" % (cfg["id"], what, pos + 1, ev,
                                                        " in the caller's reused %s" % reuse if reuse else "",
                                                        len(batch), len(ref_before), theta_impl),
                        expected=dict(exp, d=info["d"], theta=info["theta"]), observed=obs,
                        sig="%s|%s" % (sub, size_cls))
    # sharpened: the threshold itself (private helper, same seed) -- comparable when the model worked on
    # the relation the public partitioner produced (always, when the relation is unique)
    if theta_impl is None or info["relation"] not in ("unique", "hint"):
        ctx.count("theta_probe_unavailable")
    else:
        if info["degenerate"]:
            th_ok = math.isnan(theta_impl) or abs(theta_impl - info["c"]) <= 1e-9
        else:
            th_ok = close(theta_impl, info["theta"])
        if not th_ok:
            raise Violation("nndvi-threshold",
                            "NNDVI %s: threshold %r is not norm.ppf(1-alpha; mean, population std) = %r of the %d "
                            "same-seed permutation distances at update %d" % (cfg["id"], theta_impl, info["theta"],
                                                                             cfg["sampling_times"], pos + 1),
                            expected=info["theta"], observed=theta_impl, sig="nndvi-threshold|" + size_cls)
        ctx.count("theta_probe_compared")

    aux["updates"] += 1
    if obs["state"] == "drift":
        ctx.mark("drift_decisions")
        ctx.count("reference_replaced")
        ctx.count("drift_on_unequal_sizes" if info["unequal"] else "drift_on_equal_sizes")
        if aux["user_ref"]:
            ctx.count("drifts_against_a_user_set_reference")
    else:
        ctx.count("no_drift_decisions")
        ctx.count("reference_kept")
        if not info["degenerate"]:
            ctx.count("no_drift_with_finite_threshold")
    if aux["user_ref"]:
        ctx.count("updates_against_a_user_set_reference")
    if info["degenerate"]:
        ctx.count("nan_threshold_steps")
    if info["ambiguous"]:
        ctx.count("degenerate_threshold_followed_impl")
    if info["unequal"]:
        ctx.count("unequal_size_updates")
    if info["shared"]:
        ctx.count("updates_sharing_points_with_reference")
    if info["same_set"]:
        ctx.count("updates_equal_to_reference_as_a_set")
        if batch != ref_before.tolist():
            ctx.count("updates_equal_to_reference_as_a_set_other_rows")
    if info["relations"] > 1:
        ctx.count("updates_with_non_unique_knn_relation")
        ctx.count("knn_relation_" + info["relation"])
    if not math.isnan(info["theta"]) and math.isinf(info["theta"]):
        ctx.count("infinite_threshold_steps")
    if not info["degenerate"] and info["theta"] > 0 and 0.5 <= info["d"] / info["theta"] <= 2:
        ctx.count("decisions_within_factor2_of_threshold")
    if fam:
        ctx.count("nndvi_family_%s_steps" % fam)
        if obs["state"] == "drift":
            ctx.count("nndvi_family_%s_drifts" % fam)
        elif not info["degenerate"]:
            ctx.count("nndvi_family_%s_no_drift_finite_threshold" % fam)
    form = _form_of(cfg, which)
    if form != "f64":
        ctx.count("updates_in_form_" + form.replace("?", "-if-integral"))
    if pos == last_pos:
        if model.drifts >= 2:
            ctx.count("histories_with_2plus_drifts")
        if model.drifts >= 3:
            ctx.count("histories_with_3plus_drifts")
    if obs["state"] == "drift" and model.drifts >= 2 and obs["since"] == 1:
        ctx.count("back_to_back_drifts")
    if reuse:
        ctx.count("reuse_updates")
        if obs["state"] == "drift":
            ctx.count("reuse_drifts_on_a_reused_container")
        if aux.get("reuse_drifted"):
            ctx.count("reuse_updates_after_a_drift_on_a_reused_container")
        if obs["state"] == "drift":
            aux["reuse_drifted"] = True
        if pos == last_pos:
            _reuse_after_history(cfg, unit, ctx, pos)
    return obs


class NNDVISystem(System):
    name = "NNDVI"

    def init(self, cfg):
        return _new_unit(cfg, cfg["id"])

    def alphabet(self, cfg, state, pos):
        return list(cfg.get("events", [0, 1, 2, 3]))

    def step(self, cfg, state, ev, pos, ctx):
        return _unit_step(cfg, state, ev, pos, ctx, cfg["id"], cfg["len"] - 1)


def run_reuse(task, seed):
    """Every event sequence of the task, each executed FROM SCRATCH (fresh detector, fresh caller containers): a
    deep-copied snapshot would turn a detector-held *view* of the caller's container into an independent array and so
    cut exactly the aliasing this family is about."""
    from mc import procstate
    from mc.explorer import run_path

    t0 = time.time()
    system = SYSTEMS[task["system"]]
    cfg = task["cfg"]
    prefix = list(task.get("prefix", ()))
    evs = list(cfg.get("events", [0, 1, 2, 3]))
    ctx = Ctx(seed)
    st = ctx.stats
    violations, samples = [], []
    per_sig = {}
    seen_prefixes = set()
    dead = []  # violating prefixes: nothing is explored below them (as in the DFS explorer)
    for tail in itertools.product(evs, repeat=task["depth"]):
        events = prefix + list(tail)
        if any(events[:len(d)] == d for d in dead):
            continue
        procstate.reset()
        state = system.init(cfg)
        nmarks = 0
        obs = None
        ok = True
        for pos, ev in enumerate(events):
            ctx.marks = 0
            ctx.terminal = False
            try:
                obs = system.step(cfg, state, ev, pos, ctx)
            except Violation as v:
                ok = False
                bad = events[:pos + 1]
                dead.append(bad)
                st["violations_raw"] += 1
                st["sig:" + str(v.sig)] += 1
                per_sig[v.sig] = per_sig.get(v.sig, 0) + 1
                if per_sig[v.sig] <= 3:
                    for _ in range(2):
                        _, v2 = run_path(system, cfg, bad, seed)
                        if v2 is None or (v2.sub, v2.msg) != (v.sub, v.msg):
                            raise HarnessError("HARNESS-NONDET: violation %r on %s cfg=%r events=%r did not reproduce "
                                               "from scratch" % ((v.sub, v.msg), system.name, cfg, bad))
                    violations.append(artefact(PROPERTY, system, cfg, seed, bad, v))
                break
            st["transitions"] += 1
            if ctx.marks:
                nmarks += 1
            pre = tuple(map(str, events[:pos + 1]))
            if pre not in seen_prefixes:
                seen_prefixes.add(pre)
                st["states"] += 1
        if not ok:
            continue
        st["executions"] += 1
        st["executions_from_scratch"] += 1
        if nmarks:
            st["nontrivial_executions"] += 1
        if st["executions"] % 17 == 1:
            obs2, v2 = run_path(system, cfg, events, seed)
            if v2 is not None or not obs2 or not _same(obs2[-1], obs):
                raise HarnessError("HARNESS-NONDET: %s history %r is not repeatable" % (system.name, events))
            st["fresh_replays"] += 1
        if len(samples) < 1 or (nmarks and len(samples) < 2):
            samples.append({"system": system.name, "cfg": jsonable(cfg), "events": jsonable(events),
                            "last_obs": jsonable(obs), "nontrivial_events": nmarks})
    return {"stats": dict(st), "violations": violations, "samples": samples, "wall": time.time() - t0}


class NNDVIMultiSystem(System):
    """Several NNDVI objects in one process, advanced in an arbitrary interleaving: an event is
    [detector index, event]; every detector is judged against its own model, so any state shared
    between instances (class attributes, module-level caches) shows as a disagreement."""

    name = "NNDVIx"

    def init(self, cfg):
        return {"units": [_new_unit(u, "%s#%d" % (cfg["id"], j)) for j, u in enumerate(cfg["units"])]}

    def alphabet(self, cfg, state, pos):
        return [[j, e] for j, u in enumerate(cfg["units"]) for e in u.get("events", [0, 1, 2, 3])]

    def step(self, cfg, state, ev, pos, ctx):
        j, e = ev
        ucfg = cfg["units"][j]
        obs = _unit_step(ucfg, state["units"][j], e, pos, ctx, "%s#%d" % (cfg["id"], j), cfg["len"] - 1)
        ctx.count("interleaved_calls")
        if pos > 0 and state.get("last") is not None and state["last"] != j:
            ctx.count("interleaved_switches_between_detectors")
        state["last"] = j
        obs = dict(obs, detector=j)
        # the detectors that were not called must not have moved
        for i, u in enumerate(state["units"]):
            if i == j:
                continue
            o = batch_obs(u["det"])
            m = u["model"]
            ref = np.asarray(u["det"].reference_batch, dtype=float).tolist()
            if (o["state"], o["total"], o["since"]) != (m.state, m.total, m.since) or ref != [
                [float(x) for x in r] for r in m.ref
            ]:
                raise Violation("nndvi-interleaved",
                                "NNDVIx %s: a call on detector %d changed detector %d" % (cfg["id"], j, i),
                                expected={"state": m.state, "total": m.total, "since": m.since},
                                observed=dict(o, reference=ref))
        return obs


SYSTEMS = {"NNSP": NNSPSystem(), "NNSPr": NNSPReusedSystem(), "NNDVI": NNDVISystem(), "NNDVIx": NNDVIMultiSystem()}


# ======================================================================= tasks / evidence
def _check_menus():
    for name in TIE_FREE_MENUS:
        m = BATCH_MENU[name]
        big = name.endswith("-big")
        allb = [m["ref"]] + m["menu"]
        for a in allb:
            for b in allb:
                U = M.union(a, b)
                for k in K_NN:
                    if M.count_relations(U, k, BIG_TOL * 10 if big else 0) != 1:
                        raise HarnessError("HARNESS-CRASH: batch menu %s has a kNN boundary tie (k=%d)" % (name, k))
    for name in ("2d-big", "1d-big"):
        P = M.points(POINT_MENU[name])
        for i, p in enumerate(P):
            ds = sorted(float(M.sqdist(p, q)) for j, q in enumerate(P) if j != i)
            if min(b - a for a, b in zip(ds, ds[1:])) <= 10 * BIG_TOL:
                raise HarnessError("HARNESS-CRASH: point menu %s: competing squared distances closer than 10 x tolerance" % name)


def _nndvi_tasks(cid, cfg, L, split=1, cost=0, family=None):
    """DFS over all sequences of length L, one task per choice of the first ``split`` events."""
    cfg = dict(cfg, id=cid, len=L)
    if family:
        cfg["family"] = family
    evs = cfg.get("events", [0, 1, 2, 3])
    out = []
    for first in itertools.product(evs, repeat=split):
        out.append({
            "system": "NNDVI", "cfg": cfg,
            "prefix": list(first), "depth": L - split,
            "label": "NNDVI|%s%s|%s" % ((family + "|") if family else "", cid, ",".join(map(str, first)) or "all"),
            "cost": 10 ** 6 + len(evs) ** (L - split) * (cfg["sampling_times"] + 10) // 3 + cost,
            "validate_every": 17,
        })
    return out


def _family_tasks(tier):
    """Round-3 families (additional tasks; nothing above is changed by them)."""
    out = []
    q = tier == "quick"
    # ---------------------------------------------------------------- NNSP value families
    for menu, menu2, form, sizes, ks, tol, fam in NNSP_FAMILIES:
        for k in ks:
            for n1 in sizes:
                for n2 in sizes:
                    cfg = {"id": "%s:%s|k%d" % (menu, form, k), "menu": menu, "k": k, "form": form, "family": fam}
                    if menu2:
                        cfg["menu2"] = menu2
                    if tol:
                        cfg["knn_tol"] = tol
                    npts = len(POINT_MENU[menu])
                    for order in ROW_ORDERS[tier]:
                        o = ("asc", "asc") if order == "asc" else ("desc", "asc")
                        out.append({
                            "fn": "run_nnsp", "system": "NNSP", "cfg": cfg,
                            "n1": n1, "n2": n2, "orders": list(o), "part": [0, 1],
                            "label": "NNSP|%s|%s:%s|k%d|%s|%dx%d" % (fam, menu, form, k, order, n1, n2),
                            "cost": math.comb(npts - 1 + n1, n1) * math.comb(npts - 1 + n2, n2) * 3,
                        })
    # ---------------------------------------------------------------- NNDVI families
    L = 3 if q else 4

    def cfgs(menu, ks, ss, alphas, forms=None, tol=0, events=None):
        for k in ks:
            for s_ in ss:
                for a in alphas:
                    c = {"menu": menu, "k_nn": k, "sampling_times": s_, "alpha": a}
                    if forms is not None:
                        c["forms"] = forms
                    if tol:
                        c["knn_tol"] = tol
                    if events:
                        c["events"] = events
                    yield "%s|k%d|s%d|a%g" % (menu, k, s_, a), c

    # integer-typed batches; ndarray and integer frames; float64 where a value is not integral
    int_forms = {
        "int": "i?",
        "int-frames": "dfi?",
        "int-mixed": {"ref": "i64", "menu": ["dfi", "i64", "f64", "dfm"]},
    }
    for tag, forms in int_forms.items():
        for cid, c in cfgs("2d-int", (1, 2), (8,), (0.3, 0.01) if tag == "int" else (0.3,), forms):
            out += _nndvi_tasks(tag + ":" + cid, c, L, family="int")
    # lattice batches: non-unique kNN relation at every update
    for tag, forms in (("lat", "i?"), ("lat-frames", {"ref": "dfi", "menu": ["i64", "dfi", "i64", "df"]})):
        for cid, c in cfgs("2d-lat", (2, 3), (8,), (0.3, 0.01) if tag == "lat" else (0.3,), forms):
            out += _nndvi_tasks(tag + ":" + cid, c, L, family="lattice")
    # float32 batches, alone and mixed with float64 batches / frames across the history
    f32_forms = {
        "f32": "f32",
        "f32-mixed": {"ref": "f32", "menu": ["df32", "f64", "f32", "df"]},
    }
    for tag, forms in f32_forms.items():
        for cid, c in cfgs("2d-dec", (1, 2), (8,), (0.3,), forms):
            out += _nndvi_tasks(tag + ":" + cid, c, L, family="float32")
    # DataFrame batches (labels not sorted, non-default index), containers mixed across the history
    df_forms = {
        "df": "df",
        "df-after-array": {"ref": "f64", "menu": ["df", "df", "f64", "df"]},
        "array-after-df": {"ref": "df", "menu": ["f64", "df", "f64", "f64"]},
    }
    for tag, forms in df_forms.items():
        for menu in ("1d-ms", "2d-ms"):
            for cid, c in cfgs(menu, (2,) if menu == "1d-ms" else (1, 2), (8,), (0.3,), forms):
                out += _nndvi_tasks(tag + ":" + cid, c, L, family="dataframe")
    # 3-D
    for cid, c in cfgs("3d", (1, 2), (8,), (0.3, 0.01)):
        out += _nndvi_tasks(cid, c, L, family="3d")
    # level 1e6
    for tag, forms in (("big", None), ("big-frames", "df")):
        for cid, c in cfgs("2d-big", (1, 2), (8,), (0.3,), forms, tol=BIG_TOL):
            out += _nndvi_tasks(tag + ":" + cid, c, L, family="level1e6")
    # degenerate fits: 1-3 re-assignments
    for menu in ("1d-ms", "2d-ms"):
        for cid, c in cfgs(menu, (1, 2), (1, 2, 3), (0.3,)):
            out += _nndvi_tasks(cid, c, L, split=0, family="sampling-1-3")
    # alpha close to its ends (0 and 1 themselves: see describe())
    for menu in ("1d-ms", "2d-ms"):
        for cid, c in cfgs(menu, (2,), (8,), (1e-6, 0.999)):
            out += _nndvi_tasks(cid, c, L, family="alpha-extreme")
    # set_reference by the user mid-history and right after a drift
    ev_sr = [0, 1, 3, "s1", "s3", "sr"]
    for menu, k, s_, a in (("2d-ms", 2, 8, 0.3), ("1d-ms", 1, 8, 0.6), ("2d-int", 2, 8, 0.3)):
        forms = "i?" if menu == "2d-int" else None
        for cid, c in cfgs(menu, (k,), (s_,), (a,), forms, events=ev_sr):
            out += _nndvi_tasks("setref:" + cid, c, L + 1, split=2, family="user-set-reference")
    # ---------------------------------------------------------------- caller-owned containers reused (round 4)
    # ONE container per shape for the X role, refilled in place and passed to set_reference and update alike; every
    # sequence is executed from scratch (run_reuse).  Shapes collide inside every menu (1d-ms: reference, batch 0 and
    # batch 1 have 6 rows; 2d-ms / 2d-dec: reference and batch 0 have 5 rows, batch 1 and batch 3 have 7; 2d-int
    # likewise), so a kept container is overwritten with other values after set_reference, after a user's
    # set_reference mid-history and after a hand-over on drift; the capacity kinds share memory between all shapes.
    for name, m in BATCH_MENU.items():
        if max(len(b) for b in [m["ref"]] + m["menu"]) > REUSE_CAP:
            raise HarnessError("HARNESS-CRASH: batch menu %s has a batch longer than REUSE_CAP" % name)
    reuse_plan = [
        # (menu, form, kinds, k, events, length)
        ("2d-ms", "f64", ("nd2", "nd2-slice", "nd2-T", "nd2-F", "df"), 2, None, L),
        ("1d-ms", "f64", ("nd1", "nd1-slice", "series", "nd2", "df"), 2, None, L),
        ("2d-int", "i64", ("nd2", "df"), 2, [0, 1, 3], L),          # batch 2 is not integral
        ("2d-dec", "f32", ("nd2", "nd2-slice", "df"), 2, None, L),
        # the user calls set_reference with the reused container mid-history / right after a drift
        ("2d-ms", "f64", ("nd2", "df"), 2, ev_sr, L),
        ("1d-ms", "f64", ("nd1",), 1, ev_sr, L),
    ]
    for menu, form, kinds, k, events, Lr in reuse_plan:
        for kind in kinds:
            for cid, c in cfgs(menu, (k,), (8,), (0.3,), form, events=events):
                cid = "%s:%s:%s%s" % (kind, form, cid, "|setref" if events is ev_sr else "")
                cfg = dict(c, id=cid, len=Lr, family="reuse", reuse=kind)
                for first in (events or [0, 1, 2, 3]):
                    out.append({
                        "fn": "run_reuse", "system": "NNDVI", "cfg": cfg, "prefix": [first], "depth": Lr - 1,
                        "label": "NNDVI|reuse|%s|%s" % (cid, first),
                        "cost": 10 ** 6 + len(events or [0, 1, 2, 3]) ** (Lr - 1) * Lr * 6,
                    })
    # ---------------------------------------------------------------- ONE partitioner object reused (round 4)
    for cfg in NNSPR_CONFIGS:
        cfg = dict(cfg, id="%s-p%s:%s|k%d" % (cfg["menu"], "".join(map(str, cfg["pts"])), cfg.get("form", "f64"), cfg["k"]),
                   len=NNSPR_LEN[tier], family="reused-partitioner")
        evs = _nnspr_events(cfg)
        # thorough: three builds on the first configuration only (69^3 sequences, one task per first build)
        Ln = NNSPR_LEN[tier] if cfg["pts"] == NNSPR_CONFIGS[0]["pts"] and cfg["menu"] == NNSPR_CONFIGS[0]["menu"] else 2
        cfg["len"] = Ln
        for first in ([None] if Ln == 2 else evs):
            out.append({
                "system": "NNSPr", "cfg": cfg, "prefix": [] if first is None else [first],
                "depth": Ln if first is None else Ln - 1,
                "label": "NNSPr|reused-partitioner|%s|%s" % (cfg["id"], "all" if first is None else first),
                "cost": 10 ** 6 + len(evs) ** (Ln if first is None else Ln - 1) * 2,
                "validate_every": 50,
            })
    # several detectors interleaved
    units = [
        {"id": "u0", "menu": "1d-ms", "k_nn": 1, "sampling_times": 8, "alpha": 0.3},
        {"id": "u1", "menu": "2d-ms", "k_nn": 2, "sampling_times": 8, "alpha": 0.3, "forms": "df"},
        {"id": "u2", "menu": "2d-ms", "k_nn": 2, "sampling_times": 30, "alpha": 0.01, "events": [0, 1, 2, "s1"]},
    ]
    if q:
        # 2 detectors, 3 batches each, every interleaving of 4 calls; 2 detectors on one menu
        # (one of them with user set_reference calls), every interleaving of 3 calls
        plans = [("2det", [dict(units[0], events=[0, 1, 3]), dict(units[1], events=[0, 1, 3])], 4),
                 ("2det-same-menu", units[1:], 3)]
    else:
        plans = [("2det", units[:2], 5), ("3det", units, 4)]
    for name, us, Lx in plans:
        us = [dict(u, family="interleaved") for u in us]
        cfg = {"id": name, "units": us, "len": Lx}
        alpha = [[j, e] for j, u in enumerate(us) for e in u.get("events", [0, 1, 2, 3])]
        for first in alpha:
            out.append({
                "system": "NNDVIx", "cfg": cfg, "prefix": [first], "depth": Lx - 1,
                "label": "NNDVIx|interleaved|%s|%s" % (name, first),
                "cost": 10 ** 6 + len(alpha) ** (Lx - 1) * 6,
                "validate_every": 17,
            })
    return out


def tasks(tier, seed):
    _check_menus()
    out = []
    for menu in ("1d", "2d"):
        for k in KS:
            for order in ROW_ORDERS[tier]:
                o = ("asc", "asc") if order == "asc" else ("desc", "asc")
                for n1 in SIZES:
                    for n2 in SIZES:
                        nparts = 5 if n1 * n2 >= 9 else 1
                        for part in range(nparts):
                            out.append({
                                "fn": "run_nnsp", "system": "NNSP",
                                "cfg": {"id": "%s|k%d" % (menu, k), "menu": menu, "k": k},
                                "n1": n1, "n2": n2, "orders": list(o), "part": [part, nparts],
                                "label": "NNSP|%s|k%d|%s|%dx%d|%d" % (menu, k, order, n1, n2, part),
                                "cost": math.comb(4 + n1, n1) * math.comb(4 + n2, n2) * 3 // nparts,
                            })
    L = NNDVI_LEN[tier]
    for menu in ("1d", "2d"):
        for k in K_NN:
            for s in SAMPLING_TIMES:
                for a in ALPHAS:
                    cid = "%s|k%d|s%d|a%g" % (menu, k, s, a)
                    for first in range(4):
                        out.append({
                            "system": "NNDVI",
                            "cfg": {"id": cid, "menu": menu, "k_nn": k, "sampling_times": s, "alpha": a, "len": L},
                            "prefix": [first], "depth": L - 1,
                            "label": "NNDVI|%s|%d" % (cid, first),
                            # scheduled first: these are the only tasks subject to the time budget
                            "cost": 10 ** 6 + 4 ** (L - 1) * (s + 10) // 3,
                            "validate_every": 17,
                        })
    out += _family_tasks(tier)
    return out


REQUIRED = [
    "unequal_size_pairs",
    "cross_sample_duplicate_pairs",
    "within_sample_duplicate_pairs",
    "unequal_size_pairs_with_cross_duplicates",
    "same_set_pairs_of_unequal_size",
    "knn_boundary_tie_builds",
    "nnsp_distance_strictly_between",
    "drift_decisions",
    "no_drift_decisions",
    "no_drift_with_finite_threshold",
    "nan_threshold_steps",
    "histories_with_2plus_drifts",
    "reference_replaced",
    "reference_kept",
    "unequal_size_updates",
    "drift_on_unequal_sizes",
    "drift_on_equal_sizes",
    "updates_sharing_points_with_reference",
    # round 4 (none of these depends on a random draw: they count what the harness does and the shapes of the menus)
    "reuse_container_passed_again",
    "reuse_container_overwritten_with_other_values",
    "reuse_set_reference_calls",
    "reuse_histories_ending_with_all_containers_overwritten",
    "reuse_kind_nd2", "reuse_kind_nd2-slice", "reuse_kind_nd2-T", "reuse_kind_nd2-F", "reuse_kind_df",
    "reuse_kind_nd1", "reuse_kind_nd1-slice", "reuse_kind_series",
    "nnspr_builds_on_a_used_partitioner",
    "nnspr_rebuilds_with_another_union_size",
    "nnspr_rebuilds_same_union_size_other_membership",
]

# safety net only (the machine is shared; sized ~50x the CPU-seconds/16 actually needed)
TIME_BUDGET = {"quick": 900, "thorough": 3600}


def describe(tier):
    nm = sum(math.comb(5 + n - 1, n) for n in SIZES)
    return {
        "rule": "NNSP: every ordered pair of point multisets (sizes 1-4 x 1-4, rows ascending; thorough also "
        "first sample descending) from the 5-point menu, per dimension and per k <= |D| -- one evaluation = the "
        "real build on (s1,s2) plus the real build on (s2,s1), all oracles; non-trivial = unequal sizes, "
        "duplicates within or across the samples, or a kNN boundary tie. NNDVI: every sequence of menu batches of "
        "the stated length after set_reference, per configuration (prefix-shared DFS, deepcopy snapshots, lock-step "
        "model after every update); non-trivial = at least one drift. Evaluations are distinct by construction. "
        "Value / container / parameter families (rounds 3-4) are additional tasks of the same two kinds, see 'families'. "
        "NNDVI reuse family: every sequence of the stated length, each executed from scratch, the caller passing ONE "
        "container per shape refilled in place. NNSPr: every sequence of nnspr_sequence_length sample pairs built on ONE "
        "partitioner object from the caller's two reused buffers.",
        "bounds": {
            "nnsp_point_menu": POINT_MENU,
            "nnsp_sample_sizes": list(SIZES),
            "nnsp_multisets_per_menu": nm,
            "nnsp_ordered_pairs_per_menu_and_k": nm * nm,
            "nnsp_k": list(KS),
            "nnsp_row_orders": list(ROW_ORDERS[tier]),
            "nndvi_batch_menu": BATCH_MENU,
            "nndvi_sequence_length": NNDVI_LEN[tier],
            "nndvi_sequences_per_configuration": 4 ** NNDVI_LEN[tier],
            "nndvi_k_nn": list(K_NN),
            "nndvi_sampling_times": list(SAMPLING_TIMES),
            "nndvi_alpha": list(ALPHAS),
            "nndvi_configurations": 2 * len(K_NN) * len(SAMPLING_TIMES) * len(ALPHAS),
            "families": {
                "nnsp_value_families": [
                    {"family": f[6], "menu": f[0], "menu_of_sample_2": f[1], "dtypes": f[2], "sizes": list(f[3]),
                     "k": list(f[4])} for f in NNSP_FAMILIES],
                "nndvi_family_sequence_length": 3 if tier == "quick" else 4,
                "nndvi_families": ["int", "lattice", "float32", "dataframe", "3d", "level1e6", "sampling-1-3",
                                   "alpha-extreme", "user-set-reference (length + 1)", "interleaved (NNDVIx)", "reuse"],
                "nndvi_reuse_container_kinds": {k: v[1] for k, v in REUSE_KINDS.items()},
                "nndvi_reuse_plan": "2d-ms f64 x {nd2, nd2-slice, nd2-T, nd2-F, df}; 1d-ms f64 x {nd1, nd1-slice, series, "
                "nd2, df}; 2d-int int64 x {nd2, df}; 2d-dec float32 x {nd2, nd2-slice, df}; with user set_reference events "
                "(update 0/1/3, set_reference of batch 1 / batch 3 / the initial reference): 2d-ms x {nd2, df}, 1d-ms x "
                "{nd1}; k_nn 2 (1 for the last), sampling_times 8, alpha 0.3; all containers overwritten with %r after "
                "the last call" % REUSE_SCRIBBLE,
                "nnspr_configurations": NNSPR_CONFIGS,
                "nnspr_events": "every ordered pair of multisets of size 1-2 over the 3 points with |union| >= k",
                "nnspr_sequence_length": "%d for the first configuration, 2 for the others" % NNSPR_LEN[tier],
            },
        },
        "explanation": "states = distinct inputs (NNSP) + tree nodes (NNDVI); transitions = real build() calls (two "
        "per NNSP evaluation) + real update() calls; traces_validated_against_impl = NNSP evaluations + maximal "
        "NNDVI histories, each compared with the specification after every call.",
        "assumptions": [
            "draw protocol of the permutation threshold: sampling_times x numpy.random.permutation(v_ref) with "
            "v_ref in the order of the sorted union D, v2 = 1 - v1, under the per-step seed schedule (DESIGN §2.3)",
            "a threshold fitted to permutation distances that are all equal is degenerate: scipy returns NaN for "
            "scale 0 (no drift); when rounding makes the spread tiny instead, 'd > common value' is accepted too "
            "(only when d is not below the common value; counted as degenerate_threshold_followed_impl)",
            "NNDVI batch menus are free of kNN boundary ties (k <= 2), so the kNN relation is unique and the model "
            "uses its own brute-force neighbours; ties are covered by the NNSP enumeration with a tie-tolerant oracle",
            "the numeric value of the threshold is additionally compared through the private static helper "
            "NNDVI._compute_drift_threshold when it exists (sharpening only; skipped if unavailable)",
            "reuse families: the caller overwrites a container only between calls (single-threaded caller), and the "
            "detector is not required to leave the caller's container untouched -- only its own reference / partition "
            "must not follow the container; list containers are not reused (numpy always copies a list)",
            "decisions within relative 1e-9 of the threshold are numerically undecidable and follow the "
            "implementation (near_tie_steered); scipy.stats.norm.ppf and exact Fraction arithmetic are trusted",
        ],
    }
