"""Closed drivers for the 15 public detectors (shared by C01, C02, C14-C18).

A driver fixes, for one detector class: small parameter sets tuned so that
alarms are frequent, a tiny alphabet of update symbols, how a symbol is fed to
the real object, and which public observables are read.  Nothing here decides a
property; the oracles live in the checks.
"""
import copy

import numpy as np
import pandas as pd

from menelaus.change_detection import ADWIN, CUSUM, PageHinkley
from menelaus.concept_drift import DDM, EDDM, STEPD, LinearFourRates, ADWINAccuracy, MD3
from menelaus.data_drift import KdqTreeStreaming, KdqTreeBatch, HDDDM, CDBD, NNDVI, PCACD

from mc.observe import recs_of


def _f(x):
    return None if x is None else float(x)


# ----------------------------------------------------------------------------
# batch menus
# ----------------------------------------------------------------------------
_LO = np.array([[0.0], [1.0], [2.0], [3.0], [0.5], [1.5]])
BATCH_1D = [
    _LO,  # 0: reference-like
    _LO + 4.0,  # 1: shifted
    _LO * 3.0,  # 2: widened
    np.vstack([_LO, _LO + 0.25, _LO + 4.0])[:9],  # 3: bigger, mixed
]
_LO2 = np.array([[0.0, 1.0], [1.0, 0.0], [2.0, 2.5], [3.0, 0.5], [0.5, 3.0], [1.5, 1.5]])
BATCH_2D = [
    _LO2,
    _LO2 + np.array([4.0, 0.0]),  # shift in feature 0 only
    _LO2 * np.array([1.0, 3.0]),  # widen feature 1 only
    np.vstack([_LO2, _LO2 + 0.25, _LO2 + 4.0])[:9],
]

# batches of two to four rows (the smallest legal sizes): the detect_batch=1 split of a reference into reference half
# and proxy batch, bin counts of 1-2, bootstrap subsets of single rows
SMALL_1D = [
    np.array([[0.0], [1.0], [2.0]]),
    np.array([[4.0], [5.0], [6.5]]),
    np.array([[0.0], [3.0]]),
    np.array([[0.5], [0.0], [1.0], [6.0]]),
]
SMALL_2D = [
    np.array([[0.0, 1.0], [1.0, 0.0], [2.0, 2.5]]),
    np.array([[4.0, 1.0], [5.0, 0.0], [6.5, 2.5]]),
    np.array([[0.0, 0.0], [3.0, 7.0]]),
    np.array([[0.5, 3.0], [0.0, 1.0], [1.0, 0.0], [6.0, 1.5]]),
]

_LARGE = {}


def large_menu(cols):
    """four batches of 600 rows on deterministic lattices: reference-like, reference-like from another generator,
    shifted by 1/30 and by 1/6 of the spread (sizes at which degrees of freedom exceed 1000)"""
    if cols not in _LARGE:
        i = np.arange(600)
        a = np.column_stack([(i * 7919 % 601) / 100.0, (i * 104729 % 599) / 100.0])
        b = np.column_stack([((i * 6007 + 13) % 601) / 100.0, ((i * 7 + 5) % 599) / 100.0])
        _LARGE[cols] = [m[:, :cols].copy() for m in (a, b, b + np.array([0.2, 0.0]), a + np.array([1.0, 0.5]))]
    return _LARGE[cols]


PCA_POINTS = [
    [0.0, 0.0],
    [1.0, 2.0],
    [2.0, 1.0],
    [9.0, -7.0],
]
PCA_POINTS3 = [
    [0.0, 0.0, 1.0],
    [1.0, 2.0, 0.0],
    [2.0, 1.0, 3.0],
    [9.0, -7.0, 5.0],
]


class Driver:
    name = ""
    cls = None
    kind = "stream"  # or "batch"
    stochastic = False
    total_attr = "total_samples"
    since_attr = "samples_since_reset"
    has_recs = False
    restart = 1  # value of the since-reset counter after the update that follows a drift
    symbols = ()

    # -- construction ------------------------------------------------------
    def configs(self, tier):
        raise NotImplementedError

    def make(self, p):
        return self.cls(**self.ctor(p))

    def ctor(self, p):
        return {k: v for k, v in p.items() if not k.startswith("_")}

    def alphabet(self, p):
        return list(self.symbols)

    def family_configs(self, tier):
        """Extra parameter sets that only change HOW the same symbols reach the detector (container, dtype,
        level, scale): used by C01 / C02 / C17, not by the checks that vary containers themselves."""
        return []

    def all_configs(self, tier):
        return list(self.configs(tier)) + list(self.family_configs(tier))

    # -- feeding -------------------------------------------------------------
    def feed(self, det, sym, p):
        raise NotImplementedError

    # -- observation -----------------------------------------------------------
    def counters(self, det):
        return int(getattr(det, self.total_attr)), int(getattr(det, self.since_attr))

    def obs(self, det):
        t, s = self.counters(det)
        o = {"state": det.drift_state, "total": t, "since": s}
        if self.has_recs:
            o["recs"] = recs_of(det)
        o.update(self.extra_obs(det))
        return o

    def extra_obs(self, det):
        return {}


# ----------------------------------------------------------------------------
# error-based detectors: symbol 0 = correct, 1 = error
# ----------------------------------------------------------------------------
class _ErrDriver(Driver):
    symbols = (0, 1)
    has_recs = True

    def feed(self, det, sym, p):
        det.update(y_true=1, y_pred=0 if sym else 1)


class DDMDriver(_ErrDriver):
    name = "DDM"
    cls = DDM

    def configs(self, tier):
        return [
            {"n_threshold": 1, "warning_scale": 1, "drift_scale": 2},
            {"n_threshold": 2, "warning_scale": 0.5, "drift_scale": 1.5},
            {"n_threshold": 3, "warning_scale": 1, "drift_scale": 2},
            {"n_threshold": 5, "warning_scale": 2, "drift_scale": 3},
        ]


class EDDMDriver(_ErrDriver):
    name = "EDDM"
    cls = EDDM

    def configs(self, tier):
        return [
            {"n_threshold": 1, "warning_thresh": 0.95, "drift_thresh": 0.9},
            {"n_threshold": 2, "warning_thresh": 0.99, "drift_thresh": 0.5},
            {"n_threshold": 3, "warning_thresh": 0.8, "drift_thresh": 0.6},
        ]


class STEPDDriver(_ErrDriver):
    name = "STEPD"
    cls = STEPD

    def configs(self, tier):
        return [
            {"window_size": 1, "alpha_warning": 0.5, "alpha_drift": 0.49},
            {"window_size": 2, "alpha_warning": 0.3, "alpha_drift": 0.1},
            {"window_size": 3, "alpha_warning": 0.5, "alpha_drift": 0.3},
        ]

    def extra_obs(self, det):
        return {
            "recent_accuracy": _f(det.recent_accuracy()),
            "past_accuracy": _f(det.past_accuracy()),
            "overall_accuracy": _f(det.overall_accuracy()),
        }


class ADWINAccDriver(_ErrDriver):
    name = "ADWINAccuracy"
    cls = ADWINAccuracy

    def configs(self, tier):
        # constructor arguments as the property demands them to be honoured
        return [
            {"delta": 1.0, "max_buckets": 2, "new_sample_thresh": 1, "window_size_thresh": 0, "subwindow_size_thresh": 1},
            {"delta": 0.5, "max_buckets": 1, "new_sample_thresh": 2, "window_size_thresh": 2, "subwindow_size_thresh": 1},
            # the conservative bound has no variance-free term, so 0/1 indicator streams are cut within a dozen samples
            {"delta": 1.0, "max_buckets": 5, "new_sample_thresh": 1, "window_size_thresh": 0, "subwindow_size_thresh": 1, "conservative_bound": True},
        ]

    def extra_obs(self, det):
        return {"mean": _f(det.mean()), "variance": _f(det.variance())}


class LFRDriver(Driver):
    name = "LinearFourRates"
    cls = LinearFourRates
    stochastic = True
    has_recs = True
    symbols = (0, 1, 2, 3)  # (y_true, y_pred) = divmod(sym, 2)

    def configs(self, tier):
        return [
            {"time_decay_factor": 0.6, "warning_level": 0.2, "detect_level": 0.05, "burn_in": 0, "num_mc": 20, "subsample": 1},
            {"time_decay_factor": 0.7, "warning_level": 0.4, "detect_level": 0.1, "burn_in": 2, "num_mc": 20, "subsample": 2},
            {"time_decay_factor": 0.6, "warning_level": 0.2, "detect_level": 0.05, "burn_in": 1, "num_mc": 20, "subsample": 1, "rates_tracked": ["tpr", "npv"]},
        ]

    def feed(self, det, sym, p):
        yt, yp = divmod(sym, 2)
        det.update(y_true=yt, y_pred=yp)


# ----------------------------------------------------------------------------
# univariate change detectors: symbols are the values themselves
# ----------------------------------------------------------------------------
class _UniDriver(Driver):
    def value(self, sym, p):
        """the number a symbol stands for under the configuration's level / scale family"""
        return sym * p.get("_scale", 1) + p.get("_offset", 0)

    def feed(self, det, sym, p):
        x = self.value(sym, p)
        c = p.get("_container")
        if c == "DataFrame":
            x = pd.DataFrame({"x": [float(x)]})
        elif c == "list":
            x = [float(x)]
        elif c == "float32":
            x = np.array([[x]], dtype=np.float32)
        elif c in ("reuse", "reuse1d"):
            # the caller keeps ONE float64 buffer per detector, refills it in place and passes the same object every
            # time (the buffer travels with the detector so that snapshots keep the pair together)
            buf = getattr(det, "_verif_buf", None)
            if buf is None:
                buf = np.zeros((1, 1)) if c == "reuse" else np.zeros(1)
                det._verif_buf = buf
            buf[...] = float(x)
            x = buf
        det.update(X=x)


class ADWINDriver(_UniDriver):
    name = "ADWIN"
    cls = ADWIN
    has_recs = True
    symbols = (0, 1, 5)

    def configs(self, tier):
        return [
            {"delta": 1.0, "max_buckets": 2, "new_sample_thresh": 1, "window_size_thresh": 0, "subwindow_size_thresh": 1},
            # check periods > 1 whose cuts leave windows that are NOT multiples of the period (the schedule is on total_samples)
            {"delta": 1.0, "max_buckets": 2, "new_sample_thresh": 3, "window_size_thresh": 3, "subwindow_size_thresh": 1},
            {"delta": 1.0, "max_buckets": 5, "new_sample_thresh": 4, "window_size_thresh": 0, "subwindow_size_thresh": 1, "conservative_bound": True},
            {"delta": 0.3, "max_buckets": 5, "new_sample_thresh": 1, "window_size_thresh": 2, "subwindow_size_thresh": 2, "conservative_bound": True},
            {"delta": 0.5, "max_buckets": 1, "new_sample_thresh": 2, "window_size_thresh": 2, "subwindow_size_thresh": 1},
        ]

    def extra_obs(self, det):
        return {"mean": _f(det.mean()), "variance": _f(det.variance())}


class CUSUMDriver(_UniDriver):
    name = "CUSUM"
    cls = CUSUM
    symbols = (-2, 0, 1, 4)

    def configs(self, tier):
        return [
            {"target": 0, "sd_hat": 1, "burn_in": 0, "delta": 0.5, "threshold": 1},
            {"target": 1, "sd_hat": 2, "burn_in": 1, "delta": 0, "threshold": 2, "direction": "positive"},
            {"target": None, "sd_hat": None, "burn_in": 2, "delta": 0.5, "threshold": 1},
            {"target": None, "sd_hat": None, "burn_in": 3, "delta": 0, "threshold": 2, "direction": "negative"},
        ]

    def family_configs(self, tier):
        return [
            {"target": None, "sd_hat": None, "burn_in": 2, "delta": 0.5, "threshold": 1, "_offset": 3.0e7},
            {"target": None, "sd_hat": None, "burn_in": 2, "delta": 0, "threshold": 2, "_scale": 1e-6, "_container": "DataFrame"},
            # every direction with a burn-in of several samples, statistics given (they accumulate from the first sample
            # of the first epoch) and estimated (they accumulate from the first sample of every later epoch)
            {"target": 0, "sd_hat": 1, "burn_in": 3, "delta": 0, "threshold": 1, "direction": "positive"},
            {"target": 0, "sd_hat": 1, "burn_in": 3, "delta": 0, "threshold": 1, "direction": "negative"},
            {"target": 1, "sd_hat": 2, "burn_in": 2, "delta": 0.25, "threshold": 1},
            {"target": None, "sd_hat": None, "burn_in": 2, "delta": 0, "threshold": 1, "direction": "positive"},
            {"target": None, "sd_hat": None, "burn_in": 4, "delta": 0, "threshold": 1},
            {"target": None, "sd_hat": None, "burn_in": 2, "delta": 0.5, "threshold": 1, "_container": "reuse"},
            {"target": None, "sd_hat": None, "burn_in": 3, "delta": 0, "threshold": 1, "_container": "reuse1d"},
        ]


class PHDriver(_UniDriver):
    name = "PageHinkley"
    cls = PageHinkley
    symbols = (-2, 0, 1, 4)

    def configs(self, tier):
        return [
            {"delta": 0.0, "threshold": 1, "burn_in": 0},
            {"delta": 0.5, "threshold": 2, "burn_in": 1},
            {"delta": 0.0, "threshold": 1, "burn_in": 3, "direction": "negative"},
        ]

    def family_configs(self, tier):
        return [
            {"delta": 0.0, "threshold": 1, "burn_in": 2, "_offset": 1.0e6, "_container": "list"},
            {"delta": 0.0, "threshold": 0.5, "burn_in": 1, "direction": "negative", "_scale": 0.001, "_container": "DataFrame"},
            {"delta": 0.0, "threshold": 1, "burn_in": 3, "direction": "positive"},
            {"delta": 0.5, "threshold": 0.5, "burn_in": 2, "direction": "negative"},
            {"delta": 0.0, "threshold": 0, "burn_in": 2},
            {"delta": 0.0, "threshold": 1, "burn_in": 1, "_container": "reuse"},
        ]

    def extra_obs(self, det):
        df = det.to_dataframe()
        rows = []
        for row in df.to_numpy(dtype=object):
            cells = []
            for v in row:
                v = np.ravel(v)
                v = v[0] if len(v) == 1 else v.tolist()
                cells.append(bool(v) if isinstance(v, (bool, np.bool_)) else (_f(v) if not isinstance(v, list) else v))
            rows.append(cells)
        return {"ph": rows}


# ----------------------------------------------------------------------------
# multivariate streaming data-drift detectors
# ----------------------------------------------------------------------------
class KdqStreamDriver(Driver):
    name = "KdqTreeStreaming"
    cls = KdqTreeStreaming
    stochastic = True
    symbols = (0, 1, 5)

    def configs(self, tier):
        return [
            {"window_size": 2, "persistence": 0.0, "alpha": 0.6, "bootstrap_samples": 8, "count_ubound": 1},
            {"window_size": 2, "persistence": 0.5, "alpha": 0.6, "bootstrap_samples": 8, "count_ubound": 1},
            {"window_size": 3, "persistence": 0.3, "alpha": 0.3, "bootstrap_samples": 8, "count_ubound": 1},
        ]

    def family_configs(self, tier):
        return [
            {"window_size": 2, "persistence": 0.5, "alpha": 0.6, "bootstrap_samples": 8, "count_ubound": 1, "_container": "DataFrame2"},
            {"window_size": 3, "persistence": 0.0, "alpha": 0.6, "bootstrap_samples": 8, "count_ubound": 1, "_container": "int"},
            # integral values arrive as integer arrays, the fractional one as a float array: epochs of different dtypes
            {"window_size": 2, "persistence": 0.0, "alpha": 0.6, "bootstrap_samples": 8, "count_ubound": 1, "_container": "mixed"},
            {"window_size": 2, "persistence": 0.5, "alpha": 0.6, "bootstrap_samples": 8, "count_ubound": 1, "_container": "reuse"},
        ]

    def alphabet(self, p):
        return [0, 1.5, 5] if p.get("_container") == "mixed" else list(self.symbols)

    def feed(self, det, sym, p):
        c = p.get("_container")
        if c == "mixed":
            det.update(np.array([[int(sym)]]) if float(sym).is_integer() else np.array([[float(sym)]]))
        elif c in ("reuse", "reuse1d"):
            buf = getattr(det, "_verif_buf", None)
            if buf is None:
                buf = np.zeros((1, 1)) if c == "reuse" else np.zeros(1)
                det._verif_buf = buf
            buf[...] = float(sym)
            det.update(buf)
        elif c == "DataFrame2":  # two named features, the second one a function of the first
            det.update(pd.DataFrame({"a": [float(sym)], "b": [float(sym % 2)]}))
        elif c == "int":
            det.update(np.array([[int(sym)]]))
        else:
            det.update(np.array([[float(sym)]]))

    def extra_obs(self, det):
        return {}


class PCACDDriver(Driver):
    name = "PCACD"
    cls = PCACD
    restart = 0
    symbols = (0, 1, 2, 3)

    def configs(self, tier):
        return [
            {"window_size": 3, "sample_period": 0.34, "divergence_metric": "intersection", "delta": 0.0, "ev_threshold": 0.99},
            {"window_size": 4, "sample_period": 0.5, "divergence_metric": "intersection", "delta": 0.1, "ev_threshold": 0.6},
            {"window_size": 3, "sample_period": 0.34, "divergence_metric": "kl", "delta": 0.0, "ev_threshold": 0.99},
            {"window_size": 3, "sample_period": 0.34, "divergence_metric": "intersection", "delta": 0.0, "ev_threshold": 0.99, "online_scaling": False},
            {"window_size": 4, "sample_period": 0.25, "divergence_metric": "kl", "delta": 0.0, "ev_threshold": 0.6, "online_scaling": False},
        ]

    def feed(self, det, sym, p):
        det.update(np.array([PCA_POINTS[sym]]))

    def extra_obs(self, det):
        return {"num_pcs": None if det.num_pcs is None else int(det.num_pcs)}


# ----------------------------------------------------------------------------
# batch detectors: symbol i = update(menu[i]); ["ref", i] = set_reference(menu[i])
# ----------------------------------------------------------------------------
class _BatchDriver(Driver):
    kind = "batch"
    total_attr = "total_batches"
    since_attr = "batches_since_reset"
    menu = BATCH_1D
    symbols = (0, 1, 2, 3)
    initial_ref = 0  # menu index of the reference installed by make()

    def batch(self, sym, p):
        menu = self.menu
        if p.get("_menu") == "small":
            menu = SMALL_2D if self.menu is BATCH_2D else SMALL_1D
        elif p.get("_menu") == "large":
            menu = large_menu(2 if self.menu is BATCH_2D else 1)
        b = menu[sym].copy()
        c = p.get("_container")
        if c == "DataFrame":
            return pd.DataFrame(b, columns=["a", "b", "c"][: b.shape[1]])
        if c == "list":
            return b.tolist()
        if c == "float32":
            return b.astype(np.float32)
        return b

    def family_configs(self, tier):
        base = self.configs(tier)[0]
        return [dict(base, _container="DataFrame"), dict(base, _container="list"), dict(base, _container="reuse")]

    def _reused(self, det, b, p):
        """_container 'reuse': the caller keeps one buffer per batch shape, refills it in place and passes it again"""
        if p.get("_container") != "reuse":
            return b
        bufs = getattr(det, "_verif_bufs", None)
        if bufs is None:
            bufs = {}
            det._verif_bufs = bufs
        buf = bufs.get(b.shape)
        if buf is None:
            buf = np.zeros(b.shape)
            bufs[b.shape] = buf
        buf[...] = b
        return buf

    def make(self, p):
        det = self.cls(**self.ctor(p))
        det.set_reference(self._reused(det, self.batch(self.initial_ref, p), p))
        return det

    def feed(self, det, sym, p):
        if isinstance(sym, (list, tuple)):
            det.set_reference(self._reused(det, self.batch(sym[1], p), p))
        else:
            det.update(self._reused(det, self.batch(sym, p), p))


class _HDMDriver(_BatchDriver):
    stochastic = True

    def configs(self, tier):
        out = []
        for db in (1, 2, 3):
            out.append({"detect_batch": db, "statistic": "stdev", "significance": 0.5, "subsets": 3})
        out.append({"detect_batch": 2, "statistic": "tstat", "significance": 0.5, "subsets": 3})
        out.append({"detect_batch": 3, "statistic": "tstat", "significance": 0.3, "subsets": 3, "divergence": "KL" if self.name == "CDBD" else "H"})
        return out

    def family_configs(self, tier):
        out = super().family_configs(tier)
        for db in (1, 2):
            out.append({"detect_batch": db, "statistic": "stdev", "significance": 0.5, "subsets": 2, "_menu": "small"})
        out.append({"detect_batch": 1, "statistic": "tstat", "significance": 0.4, "subsets": 2, "_menu": "small", "_container": "DataFrame"})
        return out

    def extra_obs(self, det):
        o = {
            "current_distance": _f(getattr(det, "current_distance", None)),
            "reference_n": int(det.reference_n),
        }
        return o


class HDDDMDriver(_HDMDriver):
    name = "HDDDM"
    cls = HDDDM
    menu = BATCH_2D


class CDBDDriver(_HDMDriver):
    name = "CDBD"
    cls = CDBD
    menu = BATCH_1D


class KdqBatchDriver(_BatchDriver):
    name = "KdqTreeBatch"
    cls = KdqTreeBatch
    stochastic = True
    menu = BATCH_2D

    def configs(self, tier):
        return [
            {"alpha": 0.3, "bootstrap_samples": 10, "count_ubound": 1},
            {"alpha": 0.6, "bootstrap_samples": 10, "count_ubound": 2},
            {"alpha": 0.3, "bootstrap_samples": 10, "count_ubound": 1, "_no_initial_ref": True},
        ]

    def make(self, p):
        det = self.cls(**self.ctor(p))
        if not p.get("_no_initial_ref"):
            det.set_reference(self.batch(self.initial_ref, p))
        return det


class NNDVIDriver(_BatchDriver):
    name = "NNDVI"
    cls = NNDVI
    stochastic = True
    menu = BATCH_2D

    def configs(self, tier):
        return [
            {"k_nn": 2, "sampling_times": 8, "alpha": 0.3},
            {"k_nn": 1, "sampling_times": 8, "alpha": 0.6},
        ]

    def extra_obs(self, det):
        return {"reference_batch": np.asarray(det.reference_batch).tolist()}


# ----------------------------------------------------------------------------
# MD3 (legacy DriftDetector base): deterministic stub classifier
# ----------------------------------------------------------------------------
from sklearn.base import BaseEstimator, ClassifierMixin


class ThresholdClassifier(ClassifierMixin, BaseEstimator):
    """fit learns a threshold on feature 0 (midpoint of class means), predict compares."""

    def __init__(self, margin=0.5):
        self.margin = margin

    def fit(self, X, y):
        X = np.asarray(X, float)
        y = np.asarray(y).ravel()
        a = X[y == 1, 0]
        b = X[y == 0, 0]
        hi = a.mean() if len(a) else (b.mean() + 1.0)
        lo = b.mean() if len(b) else (a.mean() - 1.0)
        self.thr_ = (hi + lo) / 2
        self.classes_ = np.array([0, 1])
        return self

    def predict(self, X):
        return (np.asarray(X, float)[:, 0] > self.thr_).astype(int)


def md3_margin(detector, sample, clf):
    return int(abs(sample[0] - clf.thr_) <= clf.margin)


MD3_REF = pd.DataFrame(
    {
        "x0": [0.0, 0.4, 0.9, 1.4, 1.1, 1.6, 2.1, 2.5],
        "x1": [1.0, 0.0, 1.0, 0.0, 1.0, 0.0, 1.0, 0.0],
        "y": [0, 0, 0, 1, 0, 1, 1, 1],
    }
)


class MD3Driver(Driver):
    name = "MD3"
    cls = MD3
    total_attr = "total_updates"
    since_attr = "updates_since_reset"
    symbols = ("u_in", "u_out", "l_ok", "l_bad")

    def configs(self, tier):
        return [
            {"sensitivity": 0.5, "k": 2, "oracle_data_length_required": 2},
            {"sensitivity": 0.25, "k": 2, "oracle_data_length_required": 4},
            {"sensitivity": 2, "k": 2, "oracle_data_length_required": 3},
        ]

    def make(self, p):
        clf = ThresholdClassifier(margin=0.3)
        clf.fit(MD3_REF[["x0", "x1"]], MD3_REF["y"])
        det = MD3(clf=clf, margin_calculation_function=md3_margin, **self.ctor(p))
        det.set_reference(MD3_REF.copy(), target_name="y")
        return det

    def enabled(self, det):
        return ["l_ok", "l_bad"] if det.waiting_for_oracle else ["u_in", "u_out"]

    def feed(self, det, sym, p):
        thr = det.classifier.thr_
        if sym == "u_in":
            det.update(pd.DataFrame({"x0": [thr + 0.1], "x1": [0.0]}))
        elif sym == "u_out":
            det.update(pd.DataFrame({"x0": [thr + 5.0], "x1": [0.0]}))
        else:
            n = 0 if det.oracle_data is None else len(det.oracle_data)
            # labelled samples alternate around the threshold so that a refit is well defined
            x0 = thr + (1.0 if n % 2 == 0 else -1.0)
            truth = 1 if x0 > thr else 0
            y = truth if sym == "l_ok" else 1 - truth
            det.give_oracle_label(pd.DataFrame({"x0": [x0], "x1": [1.0], "y": [y]}))

    def extra_obs(self, det):
        return {
            "waiting": bool(det.waiting_for_oracle),
            "md": _f(det.curr_margin_density),
        }


DRIVERS = {
    d.name: d
    for d in (
        DDMDriver(),
        EDDMDriver(),
        STEPDDriver(),
        ADWINAccDriver(),
        LFRDriver(),
        ADWINDriver(),
        CUSUMDriver(),
        PHDriver(),
        KdqStreamDriver(),
        PCACDDriver(),
        HDDDMDriver(),
        CDBDDriver(),
        KdqBatchDriver(),
        NNDVIDriver(),
        MD3Driver(),
    )
}


def drift_prefixes(name, p, maxlen=5, limit=3, seeder=None):
    """Shortest update sequences (driver alphabet) after which the real detector reports drift:
    scripted starts from non-initial states, so that second and third epochs lie deep inside the bound."""
    d = DRIVERS[name]
    np.random.seed(12345)
    found = []
    if seeder:
        seeder("init")
    frontier = [((), d.make(p))]
    for pos in range(maxlen):
        nxt = []
        for pre, det in frontier:
            for sym in (d.enabled(det) if name == "MD3" else d.alphabet(p)):
                x = copy.deepcopy(det)
                if seeder:
                    seeder(pos)
                try:
                    d.feed(x, sym, p)
                except Exception:
                    continue
                if x.drift_state == "drift":
                    found.append(list(pre) + [sym])
                    if len(found) >= limit:
                        return found
                else:
                    nxt.append((pre + (sym,), x))
        if found:
            return found
        frontier = nxt[:4000]
    return found


