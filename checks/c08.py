"""C08 — the kdq-tree partitions space consistently and conserves counts.

Explored (pure input enumeration, DESIGN §4 C08): every multiset of 1..6 values
from a 4-value axis (1-D) and of 1..4 points from a 3x3 grid (2-D), on integer,
affine non-dyadic, scaled, adjacent-float and midpoint-perturbed axes, for
count_ubound {1,2,3} x cutpoint_proportion_lbound {2e-10, 0.25, 2.0}; on every
tree every history of fill calls (length <= depth) over {build data, shifted
set, set outside the built range, a point on a midpoint} x ids {build,a,b} x
reset {F,T}.

Oracle: the public tree is walked against models/kdq.ModelTree, which routes
every point individually (sub-checks (a)..(h) of the design).  The stop rule
beyond "a node with <= count_ubound points is not split" is not asserted: the
tree *shape* is read from the real tree and validated, never predicted.
"""
import copy
import json
import itertools
import math
import sys
import time
from collections import Counter
from fractions import Fraction

import numpy as np

from menelaus.partitioners.KDQTreePartitioner import KDQTreePartitioner

from mc.explorer import Ctx, System, Violation, artefact, jsonable, run_path, HarnessError
from mc import procstate
from mc.numeric import close
from models.kdq import Counts, ModelTree, ShapeError, corrected, kl_counts, kss

PROPERTY = "C08"

IDS = ("build", "a", "b")
SETS = ("build", "shift", "outside", "mid")
UBS = (1, 2, 3)
LBS = (2e-10, 0.25, 2.0)
RECURSION_LIMIT = 320  # generous for any tree inside the bounds (depth <= ~6)
SIG_RECURSION = "midpoint-rounds-to-max:recursion"
SIG_MISSING_CHILD = "midpoint-rounds-to-max:missing-child"


# --------------------------------------------------------------------- axes


def _ulps(x, k):
    for _ in range(abs(k)):
        x = float(np.nextafter(x, math.inf if k > 0 else -math.inf))
    return x


def family(name, m):
    """-> (axis values, shifted axis values, below, above) for an m-value axis."""
    idx = list(range(m))
    if name == "int":
        f = lambda i: float(i)
    elif name == "affine":
        f = lambda i: 0.37 * i + 0.11
    elif name == "x8":
        f = lambda i: 8.0 * i
    elif name == "adj":  # consecutive floats just above 1.0
        vals = [_ulps(1.0, i) for i in idx]
        return vals, [_ulps(v, 1) for v in vals], _ulps(1.0, -1), _ulps(vals[-1], 2)
    elif name == "adjodd":  # consecutive floats starting at an odd mantissa
        vals = [_ulps(1.0, i + 1) for i in idx]
        return vals, [_ulps(v, 1) for v in vals], 1.0, _ulps(vals[-1], 2)
    elif name == "pertL":  # one value an ulp below the midpoint of the full range
        vals = [0.0, _ulps(1.5, -1), 1.5, 3.0][:m] if m == 4 else [0.0, _ulps(1.0, -1), 2.0]
        return vals, [_ulps(v, 1) for v in vals], -1.0, 4.0
    elif name == "pertR":  # one value an ulp above the midpoint of the full range
        vals = [0.0, 1.5, _ulps(1.5, 1), 3.0][:m] if m == 4 else [0.0, _ulps(1.0, 1), 2.0]
        return vals, [_ulps(v, -1) for v in vals], -1.0, 4.0
    else:
        raise ValueError(name)
    return [f(i) for i in idx], [f(i + 0.6) for i in idx], f(-1), f(m)


FAMILIES_1D = ("int", "affine", "x8", "adj", "adjodd", "pertL", "pertR")
FAMILIES_2D = ("int", "affine", "x8", "adj", "pertL")


def point_sets(fam, dim, n):
    """All multisets of n points (as index tuples) for the family; 1-D: 4-value axis,
    2-D: 3x3 grid."""
    if dim == 1:
        cells = [(i,) for i in range(4)]
    else:
        cells = list(itertools.product(range(3), repeat=2))
    return list(itertools.combinations_with_replacement(cells, n))


# ------------------------------------------------- round-3 families (generic axes)
#
# A round-3 configuration carries its own axes (``cfg["axes"]`` = one value list per dimension), the container
# dtype of the build data and of the fill data (``build_dtype`` / ``fill_dtype``), the fill sets it uses and a
# reading policy.  Every value handed to the implementation is exactly representable in the dtype it is handed
# over in; the model always routes the exact numbers (Fractions of the float64 images).

DTYPES = {"float64": np.float64, "float32": np.float32, "int64": np.int64, "int32": np.int32, "int8": np.int8}
SETS3 = ("build", "shift", "outside", "mid", "mirror")
COLS = ("alpha", "beta", "gamma")  # input_cols handed to to_plotly_dataframe (no name is a substring of another)


def _is_int(dt):
    return dt is not None and dt.startswith("int")


def as_data(pts, dim, dtype):
    """The point list as an (n, dim) array of the stated dtype; refuses values the dtype cannot hold exactly."""
    a = np.array(pts, dtype=float).reshape(len(pts), dim)
    if dtype in (None, "float64"):
        return a
    b = a.astype(DTYPES[dtype])
    if not np.array_equal(b.astype(float), a):
        raise HarnessError("alphabet value not representable in %s: %r" % (dtype, pts))
    return b


def to_dtype(v, dt):
    """Nearest value representable in dtype dt (as a Python float)."""
    if _is_int(dt):
        return float(int(np.rint(v)))
    if dt == "float32":
        return float(np.float32(v))
    return float(v)


def le_in(v, dt):
    """Largest value representable in dt that is <= v."""
    v = float(v)
    if _is_int(dt):
        return float(math.floor(v))
    if dt == "float32":
        x = np.float32(v)
        if float(x) > v:
            x = np.nextafter(x, np.float32(-np.inf))
        return float(x)
    return v


def gt_in(v, dt):
    """Smallest value representable in dt that is > v."""
    v = float(v)
    if _is_int(dt):
        return float(math.floor(v) + 1)
    if dt == "float32":
        x = np.float32(v)
        if float(x) <= v:
            x = np.nextafter(x, np.float32(np.inf))
        return float(x)
    return float(np.nextafter(v, math.inf))


def lt_in(v, dt):
    """Largest value representable in dt that is < v."""
    v = float(v)
    if _is_int(dt):
        return float(math.ceil(v) - 1)
    if dt == "float32":
        x = np.float32(v)
        if float(x) >= v:
            x = np.nextafter(x, np.float32(-np.inf))
        return float(x)
    return float(np.nextafter(v, -math.inf))


def axis_family(name, m):
    """Axis values of a round-3 family (m values)."""
    i = list(range(m))
    if name == "int":
        return [float(k) for k in i]
    if name == "x8":
        return [8.0 * k for k in i]
    if name == "affine":
        return [0.37 * k + 0.11 for k in i]
    if name == "negint":  # negative midpoints with fraction 1/2: truncation toward zero differs from floor
        return [-3.0, -2.0, 0.0, 1.0][:m] if m == 4 else [-2.0, 0.0, 1.0][:m]
    if name == "wideint8":  # range wider than int8's positive half: max - min overflows in int8 arithmetic
        return [-100.0, -3.0, 2.0, 100.0][:m] if m == 4 else [-100.0, 95.0, 100.0][:m]
    if name == "f32":  # non-dyadic values representable in float32
        return [float(np.float32(0.37 * k + 0.11)) for k in i]
    if name == "big":  # level 1e6, spread < 2e-3: 1 ulp is 1.2e-10, i.e. 3e-7 of the spacing
        return [1e6 + 3.7e-4 * k + 1.1e-4 for k in i]
    if name == "tiny":  # scale 1e-13 around 0
        return [3.7e-13 * k + 1.1e-13 for k in i]
    raise ValueError(name)


def point_sets3(cfg, n):
    """All multisets (cfg["distinct"]: all sets) of n cells of the grid spanned by cfg["axes"] (index tuples)."""
    cells = list(itertools.product(*[range(len(a)) for a in cfg["axes"]]))
    if cfg.get("distinct"):
        return list(itertools.combinations(cells, n))
    return list(itertools.combinations_with_replacement(cells, n))


def mid_predicate(cfg, build_dtype):
    """Tolerance under which an observed split value is "the midpoint" in a round-3 family.

    A correct implementation computes min + (max - min) / 2 (or (min + max) / 2, min / 2 + max / 2) in the
    arithmetic of the data: float32 for float32 data, float64 otherwise (integers are promoted by the true
    division).  Each of these formulas performs at most two roundings of quantities not larger than
    M = max(|min|, |max|) (halving is exact), so the result is within 1 ulp(M) <= eps * M of the exact midpoint;
    ``mid_ulps`` (4) leaves room for a third rounding.  The 1e-9 relative rule of the round-1 families is useless at
    level 1e6 / spread 1e-3 (it admits any value in the node's range) and wrong for float32 data (eps = 1.2e-7)."""
    k = cfg.get("mid_ulps")
    if not k:
        return None
    eps = Fraction(1, 2 ** 23) if build_dtype == "float32" else Fraction(1, 2 ** 52)

    def ok(mid, lo, hi, exact):
        m = Fraction(float(mid))
        return lo <= m <= hi and abs(m - exact) <= k * eps * max(abs(lo), abs(hi))

    return ok


# ------------------------------------------------------------- public tree


def read_public(kp):
    """Walk the public tree: -> (shape, info) with info[path] = node."""
    info = {}

    def rec(node, path):
        info[path] = node
        if node.axis is None:
            if node.left is not None or node.right is not None or node.midpoint_at_axis is not None:
                raise Violation(
                    "binary-tree",
                    "node %r has no split axis but carries a child / midpoint" % path,
                    expected="leaf: axis, midpoint, left, right all None",
                    observed=[node.midpoint_at_axis, node.left is not None, node.right is not None],
                )
            return None
        if node.left is None or node.right is None:
            raise Violation(
                "binary-tree",
                "internal node %r (axis %r, midpoint %r) lacks a child: its cell is not covered by leaves"
                % (path, node.axis, node.midpoint_at_axis),
                expected="two children",
                observed=[node.left is not None, node.right is not None],
                sig=SIG_MISSING_CHILD if node.left is not None else None,
            )
        return (rec(node.left, path + "L"), rec(node.right, path + "R"))

    shape = rec(kp.node, "")
    return shape, info


def _struct_sig(info):
    return {p: (id(n), n.axis, n.midpoint_at_axis, id(n.left), id(n.right)) for p, n in info.items()}


# ------------------------------------------------------------------ system


class PartSys(System):
    name = "KDQTreePartitioner"

    def init(self, cfg):
        return {"kp": None, "tree": None, "counts": None, "info": None, "seen_kl": set(), "seen_df": set(),
                "seen_dist": set(), "filled": {}, "probed": set()}

    def alphabet(self, cfg, state, pos):
        return []

    # .................................................................. build
    def step(self, cfg, state, ev, pos, ctx):
        if ev["op"] == "build":
            return self._build(cfg, state, ev, ctx)
        return self._fill(cfg, state, ev, pos, ctx)

    def _build(self, cfg, state, ev, ctx):
        pts = [tuple(float(v) for v in p) for p in ev["pts"]]
        dim = cfg["dim"]
        ub = cfg["count_ubound"]
        kp = KDQTreePartitioner(count_ubound=ub, cutpoint_proportion_lbound=cfg["lbound"])
        data = as_data(pts, dim, ev.get("dtype"))
        old = sys.getrecursionlimit()
        sys.setrecursionlimit(RECURSION_LIMIT)
        try:
            root = kp.build(data)
        except RecursionError:
            raise Violation(
                "build-terminates",
                "build(%r) with count_ubound=%d does not terminate (RecursionError): a split whose midpoint "
                "rounds up to the maximum leaves the upper cell empty and recurses on the same points" % (pts, ub),
                expected="a finite binary tree",
                observed="RecursionError",
                sig=SIG_RECURSION,
            )
        except Exception as e:  # anything build raises on a finite numeric point set
            raise Violation("build-raises", "build(%r) raised %r" % (pts, e), expected="a tree", observed=repr(e))
        finally:
            sys.setrecursionlimit(old)
        if kp.node is None:
            raise Violation("build-root", "build of %d points left no public tree (node is None)" % len(pts), observed=repr(root))
        shape, info = read_public(kp)
        # (a) axis cycling
        for path, node in info.items():
            if node.axis is not None and node.axis != len(path) % dim:
                raise Violation(
                    "axis-cycle",
                    "node %r at depth %d splits axis %r, expected %d" % (path, len(path), node.axis, len(path) % dim),
                    expected=len(path) % dim,
                    observed=node.axis,
                )
        mids = {p: (None if n.midpoint_at_axis is None else float(n.midpoint_at_axis)) for p, n in info.items()}
        # (a) midpoints, (b) small nodes, both sides non-empty: validated while routing
        try:
            tree = ModelTree(pts, dim, ub, shape, mids=mids, mid_ok=mid_predicate(cfg, ev.get("dtype")))
        except ShapeError as e:
            raise Violation(e.sub, e.msg, expected=e.expected, observed=e.observed)
        counts = Counts(tree)
        state.update(kp=kp, tree=tree, counts=counts, info=info, struct=_struct_sig(info), pts=pts)
        state["filled"] = {"build": len(pts)}
        state["probed"] = set()
        # (c) counts per node
        self._compare_counts(state, "after build")
        # (f) leaves left-to-right
        exp_leaves = [info[p] for p in tree.leaves]
        if len(kp.leaves) != len(exp_leaves) or any(a is not b for a, b in zip(kp.leaves, exp_leaves)):
            raise Violation(
                "leaf-order",
                "`leaves` is not the left-to-right list of the tree's leaves",
                expected=[tree.ref[p] for p in tree.leaves],
                observed=[l.num_samples_in_compared_subtrees.get("build") for l in kp.leaves],
            )
        if cfg.get("reads") == "all":
            self._read_suite(cfg, state, 0, ctx)
        else:
            self._leaf_counts(state, "build")
            self._kl(state, "build", "build", ctx)
            self._plotly(state, "build", None, ctx)
        self._round3_counters(cfg, state, ev, ctx)
        if shape is not None:
            ctx.mark("trees_with_split")
        if len(tree.nodes) >= 7:
            ctx.count("trees_with_7plus_nodes")
        for p, (axis, cut) in tree.splits.items():
            if any(x[axis] == cut for x in pts):
                ctx.count("build_points_on_a_midpoint")
                break
        if any(tree.ref[p] > ub for p in tree.leaves):
            ctx.count("leaves_above_count_ubound")
        return {"leaves": counts.leaf_counts("build"), "nodes": len(tree.nodes)}

    # ................................................................... fill
    def _fill(self, cfg, state, ev, pos, ctx):
        kp = state["kp"]
        if kp is None:
            raise HarnessError("fill before build")
        pts = [tuple(float(v) for v in p) for p in ev["pts"]]
        tid = ev["id"]
        reset = bool(ev["reset"])
        data = as_data(pts, cfg["dim"], ev.get("dtype"))
        try:
            kp.fill(data, tid, reset)
        except Exception as e:
            raise Violation("fill-raises", "fill(%r, %r, reset=%r) raised %r" % (pts, tid, reset, e), observed=repr(e))
        counts = state["counts"]
        had = tid in counts.by_id
        counts.fill(pts, tid, reset)
        filled = state["filled"]
        filled[tid] = len(pts) if (reset or not had) else filled[tid] + len(pts)
        if tid == "build":
            filled["(build counts overwritten)"] = 1
        # structure untouched by fill
        if _struct_sig(read_public(kp)[1]) != state["struct"]:
            raise Violation("fill-changes-structure", "fill changed the split structure of the tree")
        # (c) (d) (e)
        self._compare_counts(state, "after fill(%s, id=%r, reset=%r)" % (ev["set"], tid, reset))
        mode = cfg.get("plotly", "min")
        if cfg.get("reads") == "all":
            # every public reading after every call, nothing memoised, in an order that depends on the position
            self._read_suite(cfg, state, pos, ctx)
            self._compare_counts(state, "after the read-only calls that followed fill(%s, id=%r, reset=%r)" % (ev["set"], tid, reset))
            mode = "none"
        else:
            for i in counts.by_id:
                self._leaf_counts(state, i)
            # (g) divergences involving the filled id
            for other in list(counts.by_id):
                self._kl(state, tid, other, ctx)
                if other != tid:
                    self._kl(state, other, tid, ctx)
        if ev.get("dtype") not in (None, "float64"):
            ctx.count("fills_with_dtype_" + ev["dtype"])
        if "axes" in cfg and (ev.get("dtype") or "float64") != (cfg.get("build_dtype") or "float64"):
            ctx.count("fills_whose_dtype_differs_from_the_build_data")
        # (h)
        if mode == "none":
            pass
        elif mode == "full" and pos <= cfg.get("plotly_depth", 3):
            for other in list(counts.by_id):
                self._plotly(state, other, tid, ctx, cached=True)
                if other != tid:
                    self._plotly(state, tid, other, ctx, cached=True)
            for missing in IDS:
                if missing not in counts.by_id:
                    self._plotly(state, tid, missing, ctx, cached=True)
            # the depth-limited listing: exactly the nodes up to that depth, with the same values
            deepest = max(len(pth) for pth in state["tree"].nodes)
            for md in (1, 2):
                if md < deepest:
                    self._plotly(state, "build", tid, ctx, cached=True, max_depth=md)
        elif pos == 1 and ev["set"] == "shift" and tid == "a" and not reset and state["tree"].splits:
            self._plotly(state, "build", "a", ctx)
            if max(len(pth) for pth in state["tree"].nodes) > 1:
                self._plotly(state, "build", "a", ctx, max_depth=1)
            if "axes" in cfg:
                # round-3 families: the filled id as the reference side, the listing cut at the root, column names
                self._plotly(state, "a", "build", ctx, max_depth=2, cols=True)
                self._plotly(state, "a", None, ctx, max_depth=0)
                self._plotly(state, "a", "b", ctx, cols=True)
        # coverage counters
        if had and not reset:
            ctx.mark("accumulating_fills")
        if had and reset:
            ctx.mark("overwriting_fills")
        if ev["set"] == "outside":
            ctx.count("fills_outside_built_range")
        if ev["set"] == "mid" and state["tree"].splits:
            ctx.mark("fills_on_a_midpoint")
        if ev["set"] == "build" and tid != "build" and (reset or not had) and "(build counts overwritten)" not in filled:
            # (d) stated directly on the public numbers
            if kp.leaf_counts(tid) != kp.leaf_counts("build"):
                raise Violation(
                    "refill-reproduces-build",
                    "filling the build data under id %r gives leaf counts %r, build gave %r"
                    % (tid, kp.leaf_counts(tid), kp.leaf_counts("build")),
                    expected=kp.leaf_counts("build"),
                    observed=kp.leaf_counts(tid),
                )
            ctx.count("build_data_refilled_under_other_id")
        return {"counts": {i: counts.leaf_counts(i) for i in sorted(counts.by_id)}}

    # ................................................................ oracles
    def _compare_counts(self, state, when):
        counts = state["counts"]
        tree = state["tree"]
        info = state["info"]
        # ids the harness has *read* (leaf_counts / kl_distance) without ever filling them: the property says nothing
        # about what such a read leaves behind; an entry 0 for such an id counts no point and is not judged
        probed = [i for i in state.get("probed", ()) if i not in counts.by_id]
        for path in tree.nodes:
            exp = {i: c[path] for i, c in counts.by_id.items()}
            obs = dict(info[path].num_samples_in_compared_subtrees)
            for i in probed:
                if obs.get(i) == 0:
                    del obs[i]
            if obs != exp or any(not isinstance(v, (int, np.integer)) for v in obs.values()):
                sub = "node-counts"
                if path in tree.splits:
                    l = info[path + "L"].num_samples_in_compared_subtrees
                    r = info[path + "R"].num_samples_in_compared_subtrees
                    if any(obs.get(i) != l.get(i, 0) + r.get(i, 0) for i in obs):
                        sub = "count-conservation"
                raise Violation(
                    sub,
                    "%s: node %r holds %r, the points routed to its cell give %r" % (when, path, obs, exp),
                    expected=exp,
                    observed=obs,
                )
        # conservation, stated on the public numbers themselves
        for path in tree.splits:
            n = info[path].num_samples_in_compared_subtrees
            l = info[path + "L"].num_samples_in_compared_subtrees
            r = info[path + "R"].num_samples_in_compared_subtrees
            for i in n:
                if i in probed:
                    continue
                if n[i] != l[i] + r[i]:
                    raise Violation("count-conservation", "%s: node %r id %r: %r != %r + %r" % (when, path, i, n[i], l[i], r[i]))

    def _leaf_counts(self, state, tid, memo=True):
        kp = state["kp"]
        exp = state["counts"].leaf_counts(tid)
        obs = kp.leaf_counts(tid)
        if obs is None or list(obs) != exp:
            raise Violation("leaf-counts", "leaf_counts(%r) = %r, routed points give %r" % (tid, obs, exp), expected=exp, observed=obs)
        if sum(obs) != state["filled"][tid]:
            raise Violation(
                "leaf-sum",
                "leaf counts of id %r add up to %r, %r points were built/filled" % (tid, sum(obs), state["filled"][tid]),
                expected=state["filled"][tid],
                observed=sum(obs),
            )
        key = tuple(exp)
        if not memo or key not in state["seen_dist"]:
            fn = getattr(KDQTreePartitioner, "_distn_from_counts", None)
            if fn is not None:
                d = [float(v) for v in fn(list(exp))]
                e = [float(f) for f in corrected(exp)]
                if not close(d, e) or not close(sum(d), 1.0):
                    raise Violation("corrected-distribution", "distribution of counts %r is %r, expected (c+1/2)/(n+L/2) = %r" % (exp, d, e), expected=e, observed=d)
            if memo:
                state["seen_dist"].add(key)

    def _leaf_counts_unfilled(self, state, tid, ctx):
        """leaf_counts of an id nothing was ever filled under.  The property fixes no behaviour (the pinned code
        raises KeyError); what it does exclude is a non-zero count for an id that holds no point."""
        state["probed"].add(tid)
        ctx.count("reads_of_never_filled_ids")
        try:
            obs = state["kp"].leaf_counts(tid)
        except Exception:
            ctx.count("reads_of_never_filled_ids_refused")
            return
        if obs is None:
            return
        if len(obs) != len(state["tree"].leaves) or any(int(v) != 0 for v in obs):
            raise Violation(
                "leaf-counts-unfilled",
                "leaf_counts(%r) = %r although no point was ever filled under %r" % (tid, list(obs), tid),
                expected=[0] * len(state["tree"].leaves),
                observed=list(obs),
            )

    def _kl(self, state, id1, id2, ctx, memo=True):
        counts = state["counts"]
        zeros = [0] * len(state["tree"].leaves)
        unfilled = id1 not in counts.by_id or id2 not in counts.by_id
        c1 = counts.leaf_counts(id1) if id1 in counts.by_id else zeros
        c2 = counts.leaf_counts(id2) if id2 in counts.by_id else zeros
        key = (tuple(c1), tuple(c2))
        if memo and key in state["seen_kl"]:
            return
        if unfilled:
            # an id without points: refusing is fine; a number must be the divergence against all-zero counts
            state["probed"].update(i for i in (id1, id2) if i not in counts.by_id)
            ctx.count("reads_of_never_filled_ids")
            try:
                obs = state["kp"].kl_distance(id1, id2)
            except Exception:
                ctx.count("reads_of_never_filled_ids_refused")
                return
            if obs is not None and not close(float(obs), kl_counts(c1, c2)):
                raise Violation("kl-unfilled", "kl_distance(%r,%r) = %r with a never-filled id; leaf counts %r / %r give %r"
                                % (id1, id2, obs, c1, c2, kl_counts(c1, c2)), expected=kl_counts(c1, c2), observed=obs)
            return
        try:
            obs = state["kp"].kl_distance(id1, id2)
        except Exception as e:
            raise Violation("kl-raises", "kl_distance(%r, %r) raised %r" % (id1, id2, e), observed=repr(e))
        exp = kl_counts(c1, c2)
        ctx.count("kl_evaluations")
        if obs is None or not close(float(obs), exp):
            raise Violation("kl-value", "kl_distance(%r,%r) = %r for leaf counts %r / %r, expected %r" % (id1, id2, obs, c1, c2, exp), expected=exp, observed=obs)
        if float(obs) < -1e-12:
            raise Violation("kl-negative", "kl_distance(%r,%r) = %r < 0" % (id1, id2, obs), observed=obs)
        if c1 == c2:
            ctx.count("kl_equal_counts")
            if not close(float(obs), 0.0):
                raise Violation("kl-equal-counts", "kl_distance of equal counts %r is %r, expected 0" % (c1, obs), expected=0.0, observed=obs)
        else:
            ctx.count("kl_unequal_counts")
        if memo:
            state["seen_kl"].add(key)  # only checks that passed are cached

    def _plotly(self, state, id1, id2, ctx, cached=False, max_depth=None, cols=False):
        counts = state["counts"]
        tree = state["tree"]
        ref = counts.by_id[id1]
        test = counts.by_id.get(id2) if id2 is not None else None
        if cached:
            key = (tuple(ref.values()), None if test is None else tuple(test.values()), id2 is None, max_depth)
            if key in state["seen_df"]:
                return
        kw = {}
        if max_depth is not None:
            kw["max_depth"] = max_depth
        names = None
        if cols:
            names = list(COLS[: tree.dim])
            kw["input_cols"] = names
        what = "to_plotly_dataframe(%r, %r%s%s)" % (
            id1, id2, "" if max_depth is None else ", max_depth=%d" % max_depth, "" if not cols else ", input_cols=%r" % (names,))
        try:
            df = state["kp"].to_plotly_dataframe(tree_id1=id1, tree_id2=id2, **kw)
            if max_depth is not None:
                ctx.count("plotly_with_max_depth")
            rows = df_rows(df)
        except Violation:
            raise
        except Exception as e:
            raise Violation("plotly-raises", "%s raised %r" % (what, e), observed=repr(e))
        ctx.count("plotly_evaluations")
        if max_depth is None or max_depth > 0:
            check_rows(rows, tree, ref, test, id2 is not None, what, max_depth)
        else:
            # max_depth = 0: "up to depth 0" is the root alone; the pinned code reads 0 as "no limit" and lists the
            # whole tree.  The property demands every listed node once with the right numbers, not the cut: both
            # listings are accepted (and told apart in the counters).
            whole = set(rows) == set(tree.nodes)
            ctx.count("plotly_with_max_depth_0")
            if len(tree.nodes) > 1:
                ctx.count("plotly_max_depth_0_lists_whole_tree" if whole else "plotly_max_depth_0_lists_root_only")
            check_rows(rows, tree, ref, test, id2 is not None, what, None if whole else 0)
        if names is not None:
            ctx.count("plotly_with_input_cols")
            for path, r in rows.items():
                if path == "":
                    continue
                axis = tree.splits[path[:-1]][0]
                label = str(r["name"])
                if label.split(" ")[0] != names[axis] or ("<=" in label) != path.endswith("L"):
                    raise Violation(
                        "plotly-name",
                        "%s: node %r is the %s cell of a split on feature %d (%r) but is labelled %r"
                        % (what, path, "lower" if path.endswith("L") else "upper", axis, names[axis], label),
                        expected="%s %s ..." % (names[axis], "<=" if path.endswith("L") else ">"),
                        observed=label,
                    )
        if id1 != "build":
            ctx.count("plotly_reference_side_is_a_filled_id")
        if cached:
            state["seen_df"].add(key)
        if id2 is not None and test is not None and any(test[p] != ref[p] for p in tree.nodes):
            ctx.count("plotly_with_count_differences")

    # ........................................................ round 3: all reads
    def _read_suite(self, cfg, state, pos, ctx):
        """Every public reading of the tree, nothing memoised: leaf_counts of every id (filled or not), kl_distance
        of every ordered id pair, and a rotating selection of to_plotly_dataframe calls (reference side = every filled
        id, test side = None / every id, max_depth None/0/1/2, with and without input_cols).  The order of the calls is
        a function of (configuration, position, tree size) only, so an explored path makes exactly the calls of its
        fresh re-execution; three orders (as listed, reversed, interleaved) rotate over the positions of a history."""
        counts = state["counts"]
        tree = state["tree"]
        ops = [("lc", i) for i in IDS]
        ops += [("kl", i, j) for i in IDS for j in IDS]
        combos = [(md, c) for md in (None, 0, 1, 2) for c in (False, True)]
        rot = cfg.get("read_rot", 0) + pos + len(tree.leaves)
        pl = []
        for a, id1 in enumerate(IDS):
            if id1 not in counts.by_id:
                continue
            for b, id2 in enumerate((None,) + IDS):
                md, c = combos[(rot + 3 * a + b) % len(combos)]
                pl.append(("pl", id1, id2, md, c))
        k = cfg.get("plotly_per_step", 2)
        start = (rot * k) % len(pl)
        ops += [pl[(start + t) % len(pl)] for t in range(min(k, len(pl)))]
        order = ("listed", "reversed", "interleaved")[rot % 3]
        if order == "reversed":
            ops.reverse()
        elif order == "interleaved":
            step = next(q for q in (7, 5, 11, 13, 1) if math.gcd(q, len(ops)) == 1)
            ops = [ops[(t * step) % len(ops)] for t in range(len(ops))]
        ctx.count("read_suites_in_order_" + order)
        for op in ops:
            if op[0] == "lc":
                if op[1] in counts.by_id:
                    self._leaf_counts(state, op[1], memo=False)
                else:
                    self._leaf_counts_unfilled(state, op[1], ctx)
            elif op[0] == "kl":
                self._kl(state, op[1], op[2], ctx, memo=False)
            else:
                self._plotly(state, op[1], op[2], ctx, max_depth=op[3], cols=op[4])
        # read-only: the split structure must be what it was
        if _struct_sig(read_public(state["kp"])[1]) != state["struct"]:
            raise Violation("read-changes-structure", "a read-only call changed the split structure of the tree")

    def _round3_counters(self, cfg, state, ev, ctx):
        """Coverage counters of the round-3 families (build step)."""
        if "axes" not in cfg:
            return
        tree = state["tree"]
        dt = ev.get("dtype") or "float64"
        ctx.count("builds_with_dtype_" + dt)
        if cfg["dim"] == 3:
            ctx.count("trees_3d")
            for p, (axis, _) in tree.splits.items():
                if axis == 2:
                    ctx.count("splits_on_third_axis")
                if len(p) >= 3 and axis == 0:
                    ctx.count("splits_cycling_back_to_first_axis")
        if tree.splits:
            level = max(abs(v) for p in state["pts"] for v in p)
            spread = max(v for p in state["pts"] for v in p) - min(v for p in state["pts"] for v in p)
            if level >= 1e5 and spread < 1.0:
                ctx.count("split_trees_at_level_1e6")
            if level < 1e-8:
                ctx.count("split_trees_at_scale_1e-13")
            if dt != "float64":
                ctx.count("split_trees_built_from_" + dt)
        if cfg["count_ubound"] >= len(state["pts"]) and len(set(state["pts"])) > 1:
            ctx.count("single_leaf_because_count_ubound_exceeds_data")
        if cfg.get("lb_family"):
            # cutpoint_proportion_lbound: where does the bound int(lb * range) meet the cell sizes of this tree?
            pts = state["pts"]
            for path in tree.nodes:
                axis = len(path) % cfg["dim"]
                inside = [x for x in pts if tree.leaf_of(x).startswith(path)]
                vals = [x[axis] for x in inside]
                cell = (max(vals) - min(vals)) / 2
                bound = int(cfg["lbound"] * (max(x[axis] for x in pts) - min(x[axis] for x in pts)))
                if len(set(inside)) > cfg["count_ubound"] and cell > 0:
                    if cell == bound:
                        ctx.count("lbound_cell_size_equals_bound")
                    if path not in tree.splits and cell <= bound:
                        ctx.count("lbound_stopped_a_node_below_the_root" if path else "lbound_stopped_the_root")
                    if path in tree.splits and bound > 0:
                        ctx.count("lbound_positive_but_not_binding")


def df_rows(df):
    """DataFrame -> {path: row dict}, matching rows to tree positions through
    idx / parent_idx (ids compared up to renaming)."""
    need = {"name", "idx", "parent_idx", "cell_count", "depth"}
    if not need <= set(df.columns):
        raise Violation("plotly-columns", "columns %r lack %r" % (list(df.columns), sorted(need - set(df.columns))))
    cols = {c: df[c].tolist() for c in df.columns}
    recs = [{c: v[i] for c, v in cols.items()} for i in range(len(df))]
    idxs = [r["idx"] for r in recs]
    if len(set(idxs)) != len(idxs):
        raise Violation("plotly-unique", "a node is listed more than once (duplicate idx)", observed=idxs)

    def isnull(v):
        return v is None or (isinstance(v, float) and math.isnan(v))

    roots = [r for r in recs if isnull(r["parent_idx"])]
    if len(roots) != 1:
        raise Violation("plotly-root", "%d rows without parent" % len(roots), expected=1, observed=len(roots))
    kids = {}
    for r in recs:
        if not isnull(r["parent_idx"]):
            kids.setdefault(int(r["parent_idx"]), []).append(r)
    out = {}

    def rec(row, path):
        out[path] = row
        ch = kids.get(int(row["idx"]), [])
        if not ch:
            return
        if len(ch) != 2:
            raise Violation("plotly-children", "node %r is listed with %d children" % (path, len(ch)), expected=2, observed=len(ch))
        a, b = ch
        if "<=" in str(b["name"]) and "<=" not in str(a["name"]):
            a, b = b, a
        rec(a, path + "L")
        rec(b, path + "R")

    rec(roots[0], "")
    if len(out) != len(recs):
        raise Violation("plotly-orphans", "%d rows are not reachable from the root row" % (len(recs) - len(out)))
    return out


def check_rows(rows, tree, ref, test, has_id2, what, max_depth=None):
    nodes = [p for p in tree.nodes if max_depth is None or len(p) <= max_depth]
    if set(rows) != set(nodes):
        raise Violation(
            "plotly-nodes",
            "%s lists nodes %r, the tree has %r" % (what, sorted(rows), sorted(nodes)),
            expected=sorted(nodes),
            observed=sorted(rows),
        )
    n_ref = ref[""]
    n_test = test[""] if test is not None else 0
    for path in nodes:
        r = rows[path]
        if int(r["depth"]) != len(path):
            raise Violation("plotly-depth", "%s: node %r depth %r" % (what, path, r["depth"]), expected=len(path), observed=r["depth"])
        if int(r["cell_count"]) != ref[path]:
            raise Violation("plotly-cell-count", "%s: node %r cell_count %r, reference count %r" % (what, path, r["cell_count"], ref[path]), expected=ref[path], observed=r["cell_count"])
        if has_id2:
            if "count_diff" not in r or "kss" not in r:
                raise Violation("plotly-columns", "%s: count_diff / kss missing" % what)
            t = test[path] if test is not None else 0
            if int(r["count_diff"]) != t - ref[path]:
                raise Violation("plotly-count-diff", "%s: node %r count_diff %r, expected %r" % (what, path, r["count_diff"], t - ref[path]), expected=t - ref[path], observed=r["count_diff"])
            e = kss(ref[path], n_ref, t, n_test)
            if not close(float(r["kss"]), e):
                raise Violation(
                    "plotly-kss",
                    "%s: node %r kss %r; corrected KL of (node, rest) = (%d, %d) vs (%d, %d) is %r"
                    % (what, path, r["kss"], ref[path], n_ref - ref[path], t, n_test - t, e),
                    expected=e,
                    observed=r["kss"],
                )


SYS = PartSys()
SYSTEMS = {SYS.name: SYS}


# ------------------------------------------------------------------ round 5: two partitioners in one process
# State that the class keeps OUTSIDE a partitioner object (a class-level set of "tree ids that already hold counts", a
# module-level memo) is invisible while one object is built and filled; it shows when a second partitioner is built or
# filled BETWEEN two operations of the first.  One event = one whole program: the operation lists of two partitioners
# (build, fill, fill with / without reset) in one interleaving.  Oracle (differential, no expected values): after every
# operation of either object its public read-outs — leaf_counts of every id it has filled, kl_distance of every ordered
# pair of them — must equal, bit for bit, the read-outs of the same object after the same operations run ALONE in a
# pristine process state.  Every program and every solo run starts from mc.procstate.reset().

PAIR_POINTS = {
    1: {"lo": [[0.0], [1.0], [1.0], [3.0]], "hi": [[2.0], [3.0], [3.0], [0.5]], "mid": [[1.0], [2.0], [0.0]],
        "far": [[3.0], [3.0], [2.5], [2.0], [0.0]]},
    2: {"lo": [[0.0, 0.0], [1.0, 2.0], [2.0, 1.0], [0.0, 2.0]], "hi": [[2.0, 2.0], [2.0, 1.0], [1.0, 1.0], [0.0, 1.0]],
        "mid": [[1.0, 1.0], [1.0, 0.0], [2.0, 0.0]], "far": [[2.0, 2.0], [2.0, 2.0], [0.0, 0.0], [1.0, 2.0], [2.0, 0.0]]},
}


def _interleavings(na, nb):
    if na == 0:
        yield [1] * nb
        return
    if nb == 0:
        yield [0] * na
        return
    for rest in _interleavings(na - 1, nb):
        yield [0] + rest
    for rest in _interleavings(na, nb - 1):
        yield [1] + rest


def _pair_readout(kp, ids):
    out = {}
    for i in ids:
        try:
            out["counts:" + i] = [int(c) for c in kp.leaf_counts(i)]
        except Exception as e:  # noqa
            out["counts:" + i] = "raised %s" % type(e).__name__
    for i in ids:
        for j in ids:
            if i != j:
                try:
                    out["kl:%s|%s" % (i, j)] = float(kp.kl_distance(i, j)).hex()
                except Exception as e:  # noqa
                    out["kl:%s|%s" % (i, j)] = "raised %s" % type(e).__name__
    return out


def _pair_apply(cfg, kp, op, ids):
    data = np.array(PAIR_POINTS[cfg["dim"]][op[1]], dtype=float)
    if op[0] == "build":
        kp.build(data)
        ids[:] = ["build"]
    else:
        kp.fill(data, op[2], reset=bool(op[3]))
        if op[2] not in ids:
            ids.append(op[2])


def _pair_solo(cfg, ops):
    procstate.reset()
    kp = KDQTreePartitioner(count_ubound=cfg["count_ubound"], cutpoint_proportion_lbound=cfg["lbound"])
    ids, trace = [], []
    for op in ops:
        _pair_apply(cfg, kp, op, ids)
        trace.append(_pair_readout(kp, ids))
    return trace


class PartPairSys(System):
    name = "PartitionerPair"

    def init(self, cfg):
        return {"solo": {}}

    def alphabet(self, cfg, state, pos):
        return []  # programs are handed over as task prefixes / by pair_programs_task

    def step(self, cfg, state, ev, pos, ctx):
        lists = [ev["a"], ev["b"]]
        solo = []
        for ops in lists:
            k = json.dumps(ops)
            if k not in state["solo"]:
                state["solo"][k] = _pair_solo(cfg, ops)
            solo.append(state["solo"][k])
        procstate.reset()
        kps = [KDQTreePartitioner(count_ubound=cfg["count_ubound"], cutpoint_proportion_lbound=cfg["lbound"]) for _ in (0, 1)]
        ids = [[], []]
        done = [0, 0]
        for who in ev["order"]:
            op = lists[who][done[who]]
            _pair_apply(cfg, kps[who], op, ids[who])
            done[who] += 1
            ctx.count("pair_operations")
            if done[1 - who] and done[who] > 1:
                ctx.count("pair_operation_after_the_other_object_was_used_in_between")
            for w in (0, 1):  # the object that moved and the one that did not
                if not done[w]:
                    continue
                got = _pair_readout(kps[w], ids[w])
                exp = solo[w][done[w] - 1]
                if got != exp:
                    diff = sorted(k for k in exp if got.get(k) != exp[k])
                    raise Violation(
                        "pair-differs-from-solo",
                        "two partitioners in one process: after %r of partitioner %s (program order %r, a=%r, b=%r) the read-outs %r of "
                        "partitioner %s differ from the same operations run alone: %r vs alone %r"
                        % (op, "ab"[who], ev["order"], ev["a"], ev["b"], diff, "ab"[w], {k: got.get(k) for k in diff},
                           {k: exp[k] for k in diff}),
                        expected=exp, observed=got, sig="pair-differs-from-solo:%s" % ("moved" if w == who else "untouched"))
                ctx.count("pair_readouts_compared_with_solo")
        ctx.mark("pair_programs")
        return {"ok": True}


PAIRSYS = PartPairSys()
SYSTEMS[PAIRSYS.name] = PAIRSYS


def _pair_programs(tier):
    sets = ["lo", "hi", "mid"] + (["far"] if tier != "quick" else [])
    progs = []
    for ba in sets:
        for fa1 in sets:
            for fa2 in sets:
                for ra in (0, 1):
                    a = [["build", ba], ["fill", fa1, "t", 0], ["fill", fa2, "t", ra]]
                    for bb in sets:
                        for fb in sets:
                            for rb in (0, 1):
                                b = [["build", bb], ["fill", fb, "t", rb]]
                                for order in _interleavings(3, 2):
                                    progs.append({"a": a, "b": b, "order": order})
    return progs


def pair_programs_task(task, seed):
    import time as _t

    from mc.explorer import Ctx, artefact

    t0 = _t.time()
    cfg = task["cfg"]
    ctx = Ctx(seed)
    state = PAIRSYS.init(cfg)
    viol, shown = [], {}
    progs = _pair_programs(task["tier"])
    lo, hi = task["chunk"]
    n = 0
    for ev in progs[lo:hi]:
        n += 1
        try:
            PAIRSYS.step(cfg, state, ev, 0, ctx)
        except Violation as v:
            ctx.count("violations_raw")
            ctx.count("sig:" + str(v.sig))
            shown[v.sig] = shown.get(v.sig, 0) + 1
            if shown[v.sig] <= 3:
                viol.append(artefact(PROPERTY, PAIRSYS, cfg, seed, [ev], v))
    st = dict(ctx.stats)
    st.update(states=n, transitions=n, executions=n, nontrivial_executions=st.get("pair_programs", 0))
    return {"stats": st, "violations": viol,
            "samples": [{"system": PAIRSYS.name, "cfg": cfg, "events": progs[lo:lo + 1], "nontrivial_events": 1}],
            "wall": _t.time() - t0}


# ------------------------------------------------------------- enumeration


def fill_events(state, fam, dim):
    """The 24 fill events enabled on a built tree (data derived from the build
    points, the family's axis and the public root split)."""
    m = 4 if dim == 1 else 3
    vals, shifted, below, above = family(fam, m)
    sh = dict(zip(vals, shifted))
    pts = state["pts"]
    info = state["info"]
    root = info[""]
    sets = {"build": [list(p) for p in pts]}
    shift = [[sh[v] for v in p] for p in pts]
    if root.axis is not None:
        mid0 = float(root.midpoint_at_axis)
        for mv in (_ulps(mid0, -1), _ulps(mid0, 1)):
            q = list(pts[0])
            q[root.axis] = mv
            shift.append(q)
    sets["shift"] = shift
    if dim == 1:
        sets["outside"] = [[below], [above]]
    else:
        sets["outside"] = [[below, above], [above, below], [below, below], [above, above]]
    q = list(pts[0])
    if root.axis is not None:
        q[root.axis] = float(root.midpoint_at_axis)
        nd = info.get("L")  # the point sits on the root split, hence in the lower cell
        if dim == 2 and nd is not None and nd.axis is not None:
            q[nd.axis] = float(nd.midpoint_at_axis)
    sets["mid"] = [q]
    evs = []
    for s in SETS:
        for tid in IDS:
            for reset in (False, True):
                evs.append({"op": "fill", "set": s, "pts": sets[s], "id": tid, "reset": reset})
    return evs


def fill_events3(state, cfg):
    """Fill events of a round-3 configuration: sets cfg["sets"] x ids x reset, every value cast to the fill dtype.

    build   the build points (only when the fill dtype holds them exactly)
    shift   every point moved by 0.6 of the axis spacing, plus two points next to the root split value: the
            neighbours of that value *in the fill dtype* (for integers floor / floor + 1, for float32 the two adjacent
            float32 numbers, for float64 one ulp to either side)
    outside corners outside the built range
    mid     one point sitting on (the largest fill-dtype value not above) the split values down the left spine
    mirror  the build points reflected inside the built range: same number of points, other cells"""
    axes = cfg["axes"]
    dim = cfg["dim"]
    fdt = cfg.get("fill_dtype") or "float64"
    pts = state["pts"]
    info = state["info"]
    root = info[""]
    gap = [min(b - a for a, b in zip(ax, ax[1:])) for ax in axes]
    lo = [ax[0] for ax in axes]
    hi = [ax[-1] for ax in axes]

    def cast(rows):
        return [[to_dtype(v, fdt) for v in r] for r in rows]

    sets = {}
    b = cast(pts)
    if [tuple(r) for r in b] == [tuple(p) for p in pts]:
        sets["build"] = b
    shift = cast([[v + 0.6 * gap[d] for d, v in enumerate(p)] for p in pts])
    if root.axis is not None:
        mid0 = float(root.midpoint_at_axis)
        for mv in (lt_in(mid0, fdt), gt_in(mid0, fdt)):
            q = cast([pts[0]])[0]
            q[root.axis] = mv
            shift.append(q)
    sets["shift"] = shift
    below = [to_dtype(lo[d] - gap[d], fdt) for d in range(dim)]
    above = [to_dtype(hi[d] + gap[d], fdt) for d in range(dim)]
    corners = [below, above]
    if dim > 1:
        corners.append([below[d] if d % 2 == 0 else above[d] for d in range(dim)])
        corners.append([above[d] if d % 2 == 0 else below[d] for d in range(dim)])
    sets["outside"] = corners
    q = cast([pts[0]])[0]
    path, done = "", set()
    while info.get(path) is not None and info[path].axis is not None and info[path].axis not in done:
        nd = info[path]
        q[nd.axis] = le_in(float(nd.midpoint_at_axis), fdt)
        done.add(nd.axis)
        path += "L"  # the point is at or below the split value, hence in the lower cell
    sets["mid"] = [q]
    sets["mirror"] = cast([[lo[d] + hi[d] - v for d, v in enumerate(p)] for p in pts])
    evs = []
    for name in cfg.get("sets", SETS3):
        if name not in sets:
            continue
        for tid in cfg.get("ids", IDS):
            for reset in (False, True):
                ev = {"op": "fill", "set": name, "pts": sets[name], "id": tid, "reset": reset}
                if fdt != "float64":
                    ev["dtype"] = fdt
                evs.append(ev)
    return evs


_SCALARS = (int, float, str, bool, type(None))


def _cp(v):
    return v if isinstance(v, _SCALARS) else copy.deepcopy(v)


def _snapshot(state):
    """Complete snapshot of the real partitioner: every attribute of the partitioner object and of every
    node except the structural links, so that hidden state (caches, flags) is restored too and snapshot
    exploration stays equal to fresh execution whatever the implementation keeps."""
    kp = state["kp"]
    return (
        {p: {k: (dict(v) if k == "num_samples_in_compared_subtrees" else _cp(v)) for k, v in n.__dict__.items() if k not in ("left", "right")}
         for p, n in state["info"].items()},
        state["counts"].snapshot(),
        dict(state["filled"]),
        {k: _cp(v) for k, v in kp.__dict__.items() if k not in ("node", "leaves")},
        # the harness's own memo tables are path state too: along any explored path exactly the calls a fresh
        # execution of that path makes are made, whatever hidden state the implementation keeps between calls
        {k: set(state[k]) for k in ("seen_kl", "seen_df", "seen_dist") if k in state} if state.get("path_scoped_memo") else {},
        set(state.get("probed", ())),
    )


def _restore(state, snap):
    for p, d in snap[0].items():
        n = state["info"][p]
        for k in [k for k in n.__dict__ if k not in ("left", "right") and k not in d]:
            del n.__dict__[k]
        for k, v in d.items():
            n.__dict__[k] = dict(v) if k == "num_samples_in_compared_subtrees" else _cp(v)
    state["counts"].restore(snap[1])
    state["filled"] = dict(snap[2])
    kp = state["kp"]
    for k in [k for k in kp.__dict__ if k not in ("node", "leaves") and k not in snap[3]]:
        del kp.__dict__[k]
    for k, v in snap[3].items():
        kp.__dict__[k] = _cp(v)
    for k, v in snap[4].items():
        state[k] = set(v)
    state["probed"] = set(snap[5])


def enumerate_group(task, seed):
    """One (family, dim, n, count_ubound, lbound) group: every multiset, every
    fill history up to the task's depth."""
    t0 = time.time()
    cfg = task["cfg"]
    fam, dim, n, depth = cfg["family"], cfg["dim"], task["n"], task["depth"]
    validate_every = task.get("validate_every", 499 if cfg.get("plotly") == "full" else 199)
    round3 = "axes" in cfg
    m = 4 if dim == 1 else 3
    vals = None if round3 else family(fam, m)[0]
    ctx = Ctx(seed)
    st = ctx.stats
    violations = []
    vsigs = Counter()
    samples = []

    def record(v, events):
        st["violations_raw"] += 1
        vsigs[v.sig] += 1
        if vsigs[v.sig] > 3:
            return
        msgs = []
        for _ in range(2):
            _, v2 = run_path(SYS, cfg, events, seed)
            msgs.append(None if v2 is None else (v2.sub, v2.msg))
        if msgs[0] != (v.sub, v.msg) or msgs[1] != (v.sub, v.msg):
            raise HarnessError("HARNESS-NONDET: violation %r cfg=%r events=%r did not reproduce from scratch: %r" % ((v.sub, v.msg), cfg, events, msgs))
        violations.append(artefact(PROPERTY, SYS, cfg, seed, events, v))

    def leaf(events, obs, nmarks):
        st["executions"] += 1
        if nmarks:
            st["nontrivial_executions"] += 1
        if len(samples) < 1 or (nmarks and len(samples) < 2):
            samples.append({"system": SYS.name, "cfg": jsonable(cfg), "events": jsonable(events), "last_obs": jsonable(obs[-1]), "nontrivial_events": nmarks})
        if validate_every and st["executions"] % validate_every == 1:
            obs2, v2 = run_path(SYS, cfg, events, seed)
            if v2 is not None:
                # found by the fresh execution only; record() confirms twice more that it reproduces from scratch
                st["violations_seen_only_by_fresh_execution"] += 1
                record(v2, events)
            elif jsonable(obs2) != jsonable(obs):
                raise HarnessError("HARNESS-NONDET: snapshot exploration and fresh execution differ cfg=%r events=%r" % (cfg, events))
            else:
                st["fresh_replays"] += 1

    def dfs(state, evs, pos, events, obs, nmarks):
        for ev in evs:
            snap = _snapshot(state)
            ctx.marks = 0
            try:
                o = SYS.step(cfg, state, ev, pos, ctx)
            except Violation as v:
                record(v, events + [ev])
                _restore(state, snap)
                continue
            st["transitions"] += 1
            st["states"] += 1
            nm = nmarks + (1 if ctx.marks else 0)
            if pos < depth:
                dfs(state, evs, pos + 1, events + [ev], obs + [o], nm)
            else:
                leaf(events + [ev], obs + [o], nm)
            _restore(state, snap)

    lo, hi = task.get("chunk", (0, None))
    try:
        from mc import run as _run

        deadline = _run._DEADLINE
    except Exception:
        deadline = None
    def explore_set(ms, scoped):
        if round3:
            pts = [[cfg["axes"][d][i] for d, i in enumerate(cell)] for cell in ms]
            bev = {"op": "build", "pts": pts}
            if cfg.get("build_dtype") not in (None, "float64"):
                bev["dtype"] = cfg["build_dtype"]
        else:
            pts = [[vals[i] for i in cell] for cell in ms]
            bev = {"op": "build", "pts": pts}
        state = SYS.init(cfg)
        # The memo tables (seen_kl / seen_df / seen_dist) skip repeated evaluations of kl_distance / to_plotly_dataframe
        # for count vectors already verified: a pure-function assumption about those read-only calls, validated by the
        # fresh re-executions, which make every call.  A violation only the fresh execution sees is recorded with the
        # fresh path as its witness.  If exploration and fresh execution cannot be reconciled (implementation state
        # hidden between read-only calls), the same point set is explored again with the memo tables as path state
        # (scoped=True): then every explored path makes exactly the calls of its fresh execution.
        state["path_scoped_memo"] = scoped or bool(task.get("path_scoped_memo"))
        if state["path_scoped_memo"] or cfg.get("reads") == "all":
            st["point_sets_explored_fully_path_scoped"] += 1
        ctx.marks = 0
        st["states"] += 1
        try:
            o = SYS.step(cfg, state, bev, 0, ctx)
        except Violation as v:
            record(v, [bev])
            return
        st["transitions"] += 1
        st["states"] += 1
        st["trees"] += 1
        nm = 1 if ctx.marks else 0
        if depth <= 0:
            leaf([bev], [o], nm)
            return
        dfs(state, fill_events3(state, cfg) if round3 else fill_events(state, fam, dim), 1, [bev], [o], nm)

    for ms in (point_sets3(cfg, n) if round3 else point_sets(fam, dim, n))[lo:hi]:
        if deadline is not None and time.time() > deadline:
            st["deadline_cut"] += 1
            continue
        try:
            explore_set(ms, False)
        except HarnessError:
            st["point_sets_re_explored_with_path_scoped_memo"] += 1
            explore_set(ms, True)
    return {"stats": dict(st), "violations": violations, "samples": samples, "wall": time.time() - t0}


# ------------------------------------------------------------------- tasks


def _plan(tier, fam, dim, n, ub, lb):
    """-> (fill-history depth, plotly mode) for one group."""
    small = n <= (3 if dim == 1 else 2)
    if tier == "quick":
        if fam == "int" and small and lb == 2e-10 and ub == 1:
            return 3, "full"
        if fam in ("int", "adj") and n <= (5 if dim == 1 else 3) and lb == 2e-10:
            return 2, "min"
        return 1, "min"
    # thorough
    if fam in ("int", "adj") and n <= (4 if dim == 1 else 2):
        return 3, "full"
    if fam == "affine" and dim == 1 and n <= 3:
        return 3, "full"
    return 2, "min"


LB_BIND = (0.16, 1.0 / 6.0, 0.26, 0.4999, 0.5)  # int(lb * range) around the cell sizes 4, 8, 12 of the x8 axis
DTYPE_COMBOS = (
    # axis family, dtype of the build data, dtype of the fill data
    ("negint", "int64", "int64"),
    ("negint", "int64", "float64"),
    ("negint", "float64", "int64"),
    ("negint", "int32", "float32"),
    ("wideint8", "int8", "int8"),
    ("f32", "float32", "float32"),
    ("f32", "float32", "float64"),
    ("f32", "float64", "float32"),
    ("affine", "float64", "float32"),
)
AXES_3D = [[0.0, 1.0, 3.0], [0.0, 1.0], [0.0, 1.0]]


def _round3_groups(tier):
    """Round-3 families -> list of (cfg, sizes, depth, extra task fields)."""
    q = tier == "quick"
    G = []

    def mk(cid, fam, axes, ub, lb=2e-10, **kw):
        c = {"id": "r3-" + cid, "family": fam, "dim": len(axes), "axes": axes, "count_ubound": ub, "lbound": lb,
             "plotly": "min", "plotly_depth": 2, "mid_ulps": 4}
        c.update(kw)
        return c

    def square(fam, dim):
        return [axis_family(fam, 4 if dim == 1 else 3)] * dim

    # (1) three dimensions: axis cycling 0, 1, 2 and back to 0 (needs 5 points on the 3x2x2 grid)
    G.append((mk("3d-ub1", "int3d", AXES_3D, 1), [1, 2, 3] if q else [1, 2, 3, 4], 1, {"weight": 6}))
    G.append((mk("3d-ub2", "int3d", AXES_3D, 2), [2] if q else [1, 2, 3, 4], 1, {"weight": 6}))
    G.append((mk("3d-distinct-ub1", "int3d", AXES_3D, 1, distinct=True), [5] if q else [5, 6], 1, {"weight": 6}))
    G.append((mk("3d-distinct-ub2", "int3d", AXES_3D, 2, distinct=True), [3] if q else [3, 4, 5], 1, {"weight": 6}))
    ax = [axis_family("affine", 3), axis_family("affine", 3)[:2], axis_family("affine", 3)[:2]]
    G.append((mk("3d-affine-ub1", "affine3d", ax, 1), [1, 2, 3] if q else [1, 2, 3, 4], 1, {"weight": 6}))
    # (2) container dtypes of the build data and of the fill data
    for fam, bdt, fdt in DTYPE_COMBOS:
        for dim in (1, 2):
            for ub in (1, 2):
                if q and dim == 2 and ub == 2:
                    continue
                sizes = list(range(1, 6 if dim == 1 else 4)) if q else list(range(1, 7 if dim == 1 else 5))
                extra = {}
                if (fam, bdt, fdt, dim) == ("negint", "int64", "float64", 1):
                    extra = {"path_scoped_memo": True, "weight": 8}  # memo tables as path state: every path = its fresh run
                G.append((mk("%s-%s-to-%s-%dd-ub%d" % (fam, bdt, fdt, dim, ub), fam, square(fam, dim), ub,
                             build_dtype=bdt, fill_dtype=fdt), sizes, 1 if q else 2, extra))
    # (3) level 1e6 with spread 1e-3, scale 1e-13
    for fam in ("big", "tiny"):
        for dim in (1, 2):
            for ub in (1, 2):
                if q and dim == 2 and ub == 2:
                    continue
                sizes = list(range(1, 6 if dim == 1 else 4)) if q else list(range(1, 7 if dim == 1 else 5))
                G.append((mk("%s-%dd-ub%d" % (fam, dim, ub), fam, square(fam, dim), ub), sizes, 1 if q else 2, {}))
    # (4) count_ubound larger than the data: the tree is a single leaf
    for dim in (1, 2):
        G.append((mk("ub8-%dd" % dim, "int", square("int", dim), 8), list(range(1, 7 if dim == 1 else 5)), 1, {}))
        G.append((mk("ub8-%dd-deep" % dim, "int", square("int", dim), 8), [2] if q else [2, 3], 2, {}))
    # (5) cutpoint_proportion_lbound around the values at which int(lb * range) reaches a cell size
    for lb in LB_BIND:
        for ub in (1, 2):
            if q and ub == 2:
                continue
            G.append((mk("lb%.4g-1d-ub%d" % (lb, ub), "x8", square("x8", 1), ub, lb=lb, lb_family=True), [2, 3, 4, 5], 1, {}))
        G.append((mk("lb%.4g-2d-ub1" % lb, "x8", square("x8", 2), 1, lb=lb, lb_family=True), [2, 3] if q else [2, 3, 4], 1, {}))
    # (6) every public reading after every call, nothing memoised, three call orders (fully path-scoped)
    reads = dict(reads="all", sets=["shift", "mid", "mirror"], plotly="none")
    for rot in (0, 1, 2):
        G.append((mk("reads-1d-rot%d" % rot, "int", [[0.0, 1.0, 3.0]], 1, read_rot=rot, **reads),
                  [2, 3] if (rot == 0 or not q) else [2], 2, {"weight": 60}))
    G.append((mk("reads-1d-n4", "int", [[0.0, 1.0, 3.0]], 1, **reads), [4], 1, {"weight": 60}))
    G.append((mk("reads-1d-ub2", "int", [[0.0, 1.0, 3.0]], 2, **reads), [3, 4], 1, {"weight": 60}))
    G.append((mk("reads-2d", "int", [[0.0, 1.0, 3.0]] * 2, 1, **reads), [2, 3] if not q else [2], 1, {"weight": 60}))
    G.append((mk("reads-3d", "int3d", AXES_3D, 1, **reads), [2] if q else [2, 3], 1, {"weight": 60}))
    if not q:
        G.append((mk("reads-1d-n4-deep", "int", [[0.0, 1.0, 3.0]], 1, **reads), [4], 2, {"weight": 60}))
    return G


def _round3_tasks(tier):
    out = []
    for cfg, sizes, depth, extra in _round3_groups(tier):
        nev = len(cfg.get("sets", SETS3)) * len(cfg.get("ids", IDS)) * 2
        hist = sum(nev ** k for k in range(1, depth + 1))
        w = extra.get("weight", 1)
        for n in sizes:
            nsets = len(point_sets3(cfg, n))
            per_task = max(1, (120000 if tier == "quick" else 400000) // ((hist + 40) * w))
            for lo in range(0, nsets, per_task):
                hi = min(nsets, lo + per_task)
                t = {
                    "fn": "enumerate_group", "system": SYS.name, "cfg": cfg, "n": n, "depth": depth, "chunk": [lo, hi],
                    "label": "%s|%s|n%d|d%d|%d-%d" % (SYS.name, cfg["id"], n, depth, lo, hi),
                    "cost": (hi - lo) * (hist + 40) * w,
                }
                if extra.get("path_scoped_memo"):
                    t["path_scoped_memo"] = True
                out.append(t)
    return out


def _pair_tasks(tier):
    out = []
    nprog = len(_pair_programs(tier))
    for dim in (1, 2):
        for ub, lb in ((1, 0.25), (2, 2e-10)):
            cfg = {"id": "pair%dd-ub%d-lb%g" % (dim, ub, lb), "dim": dim, "count_ubound": ub, "lbound": lb}
            per = 1200
            for lo in range(0, nprog, per):
                out.append({"fn": "pair_programs_task", "system": PAIRSYS.name, "cfg": cfg, "tier": tier,
                            "chunk": [lo, min(nprog, lo + per)],
                            "label": "%s|%s|%d-%d" % (PAIRSYS.name, cfg["id"], lo, min(nprog, lo + per)), "cost": 3000})
    return out


def tasks(tier, seed):
    out = _round3_tasks(tier) + _pair_tasks(tier)
    cid = 0
    for dim, fams, sizes in ((1, FAMILIES_1D, range(1, 7)), (2, FAMILIES_2D, range(1, 5))):
        for fam in fams:
            for n in sizes:
                nsets = len(point_sets(fam, dim, n))
                for ub in UBS:
                    for lb in LBS:
                        depth, plotly = _plan(tier, fam, dim, n, ub, lb)
                        cid += 1
                        cfg = {"id": "%s%dd-ub%d-lb%g" % (fam, dim, ub, lb), "family": fam, "dim": dim,
                               "count_ubound": ub, "lbound": lb, "plotly": plotly, "plotly_depth": 2}
                        hist = sum(24 ** k for k in range(1, depth + 1))
                        per_task = max(1, (120000 if tier == "quick" else 400000) // (hist + 40))
                        for lo in range(0, nsets, per_task):
                            hi = min(nsets, lo + per_task)
                            out.append({
                                "fn": "enumerate_group", "system": SYS.name, "cfg": cfg, "n": n, "depth": depth,
                                "chunk": [lo, hi],
                                "label": "%s|%s|n%d|d%d|%d-%d" % (SYS.name, cfg["id"], n, depth, lo, hi),
                                "cost": (hi - lo) * (hist + 40) * (2 if plotly == "full" else 1),
                            })
    return out


REQUIRED = [
    "pair_programs",
    "pair_operation_after_the_other_object_was_used_in_between",
    "pair_readouts_compared_with_solo",
    "trees",
    "trees_with_split",
    "trees_with_7plus_nodes",
    "build_points_on_a_midpoint",
    "leaves_above_count_ubound",
    "accumulating_fills",
    "overwriting_fills",
    "fills_outside_built_range",
    "fills_on_a_midpoint",
    "build_data_refilled_under_other_id",
    "kl_equal_counts",
    "kl_unequal_counts",
    "plotly_with_count_differences",
    # round 3 (none of these depends on VERIF_SEED: C08 draws no random numbers)
    "trees_3d",
    "splits_on_third_axis",
    "splits_cycling_back_to_first_axis",
    "builds_with_dtype_int64",
    "builds_with_dtype_int32",
    "builds_with_dtype_int8",
    "builds_with_dtype_float32",
    "split_trees_built_from_int64",
    "split_trees_built_from_float32",
    "fills_with_dtype_int64",
    "fills_with_dtype_float32",
    "fills_whose_dtype_differs_from_the_build_data",
    "split_trees_at_level_1e6",
    "split_trees_at_scale_1e-13",
    "single_leaf_because_count_ubound_exceeds_data",
    "lbound_cell_size_equals_bound",
    "lbound_stopped_the_root",
    "lbound_stopped_a_node_below_the_root",
    "lbound_positive_but_not_binding",
    "read_suites_in_order_listed",
    "read_suites_in_order_reversed",
    "read_suites_in_order_interleaved",
    "reads_of_never_filled_ids",
    "plotly_reference_side_is_a_filled_id",
    "plotly_with_input_cols",
    "plotly_with_max_depth_0",
    "point_sets_explored_fully_path_scoped",
]


def describe(tier):
    plan = {}
    for dim, fams, sizes in ((1, FAMILIES_1D, range(1, 7)), (2, FAMILIES_2D, range(1, 5))):
        for fam in fams:
            for n in sizes:
                for ub in UBS:
                    for lb in LBS:
                        d, p = _plan(tier, fam, dim, n, ub, lb)
                        k = "%dd %s depth %d plotly %s" % (dim, fam, d, p)
                        plan.setdefault(k, []).append(n)
    plan = {k: "sizes %d..%d" % (min(v), max(v)) for k, v in sorted(plan.items())}
    return {
        "rule": "pure input enumeration: every multiset of points of the stated sizes per axis family x count_ubound x "
        "cutpoint_proportion_lbound is built on the real KDQTreePartitioner; on every tree every sequence of fill "
        "events up to the stated depth (24 events per step) is executed (prefix sharing by saving/restoring the public "
        "per-node count dicts; every 997th (4999th under the full plotly policy) history is re-executed from a fresh build and must give identical "
        "observations); oracles (a)-(h) run after every call. states = build + fill states reached; an execution is "
        "one maximal history; non-trivial = tree has a split / accumulate / overwrite / point-on-midpoint event",
        "bounds": {
            "1d": "multisets of 1..6 values from a 4-value axis, families %s" % (FAMILIES_1D,),
            "2d": "multisets of 1..4 points from a 3x3 grid, families %s" % (FAMILIES_2D,),
            "count_ubound": list(UBS),
            "cutpoint_proportion_lbound": list(LBS),
            "fill_alphabet": "sets %s x ids %s x reset {F,T}" % (SETS, IDS),
            "history_depth_and_plotly_policy": plan,
            "two_partitioners (round 5)": "system PartitionerPair: two partitioner objects in one process, operation lists a = [build, fill, "
            "fill (reset F/T)] and b = [build, fill (reset F/T)] over the point sets %s in 1-D and 2-D, all 10 interleavings, "
            "count_ubound/lbound (1, 0.25) and (2, 2e-10): %d programs per configuration; after every operation the read-outs (leaf "
            "counts of every filled id, kl_distance of every ordered pair) of BOTH objects must equal bit for bit those of the same "
            "object run alone; every program and every solo run starts from a pristine process state"
            % (sorted(PAIR_POINTS[1]) if tier != "quick" else ["hi", "lo", "mid"], len(_pair_programs(tier))),
            "kl_and_plotly_checks": "kl_distance is evaluated for every ordered id pair involving the filled id whose "
            "leaf-count pair was not yet evaluated on this tree; to_plotly_dataframe after every build, after the "
            "first shift-fill (policy min) or, in histories of length <= 2, for every unseen (reference, test) node-count pair (policy full)",
        },
        "explanation": "the tree shape is read from the public tree and validated (a node with <= count_ubound points "
        "must be a leaf; an internal node must split axis depth mod d at the midpoint of the range of the points "
        "routed to it and have two non-empty children); counts are recomputed by routing every point individually",
        "assumptions": [
            "the stop rule beyond 'no node holding count_ubound points or fewer is split' is not asserted",
            "cells are closed on the left: a point equal to the split value belongs to the lower cell (anchor: `<= mid` / `> mid`)",
            "a split value within relative 1e-9 of the exact midpoint and inside [min, max] of the node's points counts as 'the midpoint'",
            "numeric observables (kl_distance, kss, distributions) are compared with relative 1e-9 / absolute 1e-12",
            "a second build() on the same partitioner object is outside the property's quantifier (not explored)",
            "RecursionError under a recursion limit of %d frames is taken as non-termination of build" % RECURSION_LIMIT,
        ],
    }


TIME_BUDGET = {"quick": 2400, "thorough": 14400}
